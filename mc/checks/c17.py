"""C17 - exactly one subcommand is selected and only its settings survive.

Bounded exhaustive enumeration of (subcommand tree x input x channel).  Every case builds FRESH real parsers
(level by level), delivers the input through one channel (parse_args with --config FILE / --config STRING,
parse_object, parse_string, parse_env reading os.environ, parse_env(env=mapping), os.environ with
default_env=True - or with environment parsing switched on / off for the finished tree in one of the other ways,
see ENV_MODES) and compares the complete result with a small reference model:

  selection at one level  = name on argv, else the name given by the highest-priority source that names one
                            (config, environment variable, APP_CONFIG, default config file), else the first
                            DECLARED subcommand for which settings were given, else none (failure if required);
  settings of the chosen  = per option the left fold  default < parent's default config file section < own
                            default config file < APP_CONFIG < environment variable < given config < argv.

On success the subcommand key must hold the chosen name at every level, the chosen section must equal the model's
complete settings, and no section of any other subcommand may exist at any level.

A case is {"t": tree spec, "i": abstract input}; both are plain JSON and everything (parsers, files, environment,
argv) is derived from them deterministically, see Tree / config_doc() / environment() / execute().
"""
from __future__ import annotations

import copy
import itertools
import json
import os

META = {
    "id": "C17",
    "level": "model_checking",
    "engine": "bounded exhaustive enumeration of subcommand trees x inputs x channels on the real parser "
    "(mc/checks/c17.py)",
    "technique": "every (tree, input, channel) of a finite stated space is one trace executed on freshly built real "
    "parsers and compared key by key with a small reference model (selection rule + per-level source fold)",
    "level_text": "The property quantifies over parser configurations (subcommand trees) and inputs; both are "
    "enumerated completely within the stated bounds (tree depth / width / per-level features; inputs as the full "
    "local product argv name x config name x subset of subcommands with settings at every level, combined with every "
    "way of reaching that level and of completing the levels below; environment and default config file variants), "
    "each trace runs on the real implementation and the whole result tree is compared with the model, so inside the "
    "bounds the verdict is exhaustive, not sampled.",
    "level_note": "Trusted: the reference model in this file (selection rule as worded in the statement, the "
    "documented source order), the documented environment variable naming rule [PREFIX_][LEV__]*OPT (cross-checked "
    "against the ENV: lines of every parser's help), untyped string options only (value typing is C02/C05), one "
    "config document per parse (override order between several documents is C04).",
    "design_ref": "DESIGN.md §5 C17",
}

OPTS = ("x", "y", "z")
ENV_CH = ("en", "ed")  # parse_env() reading os.environ / parse_env(env=mapping)
ALPHA = ("abcd", "pqrs", "uvwt")
DEST = "subcommand"
PROG = "app"
# Ways of switching environment parsing on (or off) for a tree other than default_env=True in the constructor of the
# root parser (= "envmode" absent).  The root is always the only parser that is told; every level must follow.
#   prop      tree built with the environment off, then `root.default_env = True` assigned to the finished tree
#   call      tree built with the environment off, the parse call gets env=True
#   osvar     JSONARGPARSE_DEFAULT_ENV=true in the process environment (documented to take precedence)
#   prop-off  tree built with default_env=True, then `root.default_env = False` assigned to the finished tree
#   call-off  tree built with default_env=True, the parse call gets env=False
#   osvar-off tree built with default_env=True while JSONARGPARSE_DEFAULT_ENV=false
# In the "-off" modes the variables are present but must be ignored at every level (model: no environment).
ENV_MODES = ("prop", "call", "osvar", "prop-off", "call-off", "osvar-off")
OSVAR = "JSONARGPARSE_DEFAULT_ENV"
# Operation histories: what happened on the parsers (same thread / context) BEFORE the judged parse.  The judged parse
# must give exactly the model's result whatever came before; the earlier call's error is handled by the caller.
#   cfg-missing        root.parse_args(["--config", <file that does not exist>])          -> fails while loading
#   sub-cfg-invalid    root.parse_args([first child, "--config", '{"nokey": ...}'])       -> fails inside a sub-parser
#   fresh-cfg-missing  cfg-missing on a SECOND, separately built tree of the same spec (another parser failed)
#   ok-last            a successful parse_object that names the last child at every level and gives it a value
#   same               the judged call itself, executed once before (the parsers are used, not fresh)
PRELUDES = ("cfg-missing", "sub-cfg-invalid", "fresh-cfg-missing", "ok-last", "same")
PRELUDE_FAILS = ("cfg-missing", "sub-cfg-invalid", "fresh-cfg-missing")


def alias_of(name):
    """Every subcommand of a tree with spec["alias"] is declared with this one alias."""
    return name + "1"


def shown(i, parts):
    """The name by which input i refers to the subcommand parser with canonical path `parts`: its alias when the
    path is listed in i["al"], else its declared name.  (Environment variable NAMES always use the declared names:
    the prefix belongs to the parser.)"""
    return alias_of(parts[-1]) if ".".join(parts) in i.get("al", ()) else parts[-1]


def env_mode(spec):
    return spec.get("envmode") or None


def env_enabled(spec):
    """Environment parsing is in force for parse_args / parse_object / parse_string on a tree with this spec."""
    m = env_mode(spec)
    return bool(spec.get("denv")) and not (m or "").endswith("-off")


# ------------------------------------------------------------------------------------------------
# tree specs
#
# spec = {"shape": nested list ([] = leaf), "req": [required flag of the subcommand level at depth 0, 1, 2],
#         "cfgopt": "all" | "root" | "none"   (which parsers have a --config option),
#         "glob": bool                         (parsers that have subcommands also have own options x, y, z),
#         "dcf": None | {"at": "root" | "subs" | "all", "kind": "own" | "first" | "last" | "name_last" | "every"},
#         "denv": bool                         (environment variables are present in os.environ for a channel other
#                                               than parse_env; without "envmode": default_env=True at the root),
#         "alias": absent | True               (every subcommand at every level is declared with one alias, name + "1"),
#         "envmode": absent | one of ENV_MODES (HOW environment parsing is switched on - or off again - for the
#                                               whole tree, see ENV_MODES; only together with "denv")}
#
# Names: first-level subcommands are a, b, c, d.  Below the FIRST child of any parser the same alphabet is used
# again (so nested names coincide with outer names: path a.a, a.b), below other children the alphabet of that
# depth (p q r s, then u v w t).  Code that addresses the wrong level is thereby observable in both ways.
#
# Default config files: "own" = the parser's own options; "first"/"last" = additionally a section with the options
# of its first / last subcommand; "name_last" = additionally the subcommand key naming the last subcommand;
# "every" = a section for EVERY subcommand (no name).


def child_name(ip, i):
    if len(ip) == 0 or ip[-1] == 0:
        return ALPHA[0][i]
    return ALPHA[len(ip)][i]


class Node:
    __slots__ = ("ip", "np", "key", "depth", "children", "child_nodes", "required", "has_opts", "has_config", "parent")


class Tree:
    def __init__(self, spec):
        self.spec = spec
        self.nodes = {}  # dotted name path -> Node ("" = root)
        self.order = []  # breadth-first
        self.root = self._walk(spec["shape"], (), [], None)
        queue = [self.root]
        while queue:
            n = queue.pop(0)
            self.order.append(n)
            queue += n.child_nodes

    def _walk(self, shape, ip, np, parent):
        n = Node()
        n.ip, n.np, n.key, n.depth, n.parent = ip, list(np), ".".join(np), len(ip), parent
        n.children = [child_name(ip, i) for i in range(len(shape))]
        n.required = bool(self.spec["req"][n.depth]) if shape else None
        n.has_opts = (not shape) or bool(self.spec.get("glob", True))
        co = self.spec.get("cfgopt", "all")
        n.has_config = co == "all" or (co == "root" and n.depth == 0)
        self.nodes[n.key] = n
        n.child_nodes = [self._walk(sub, ip + (i,), np + [n.children[i]], n) for i, sub in enumerate(shape)]
        return n

    def node(self, path):
        return self.nodes[path if isinstance(path, str) else ".".join(path)]

    def child(self, n, name):
        return n.child_nodes[n.children.index(name)]

    def actions(self):
        return [n for n in self.order if n.children]

    # ---- default config files ------------------------------------------------------------------
    def dcf_applies(self, n):
        d = self.spec.get("dcf")
        if not d:
            return False
        return d["at"] == "all" or (d["at"] == "root" and n.depth == 0) or (d["at"] == "subs" and n.depth > 0)

    def dcf_targets(self, n):
        """Children of n for which n's default config file carries a section, in declaration order."""
        d = self.spec.get("dcf")
        if not d or not self.dcf_applies(n) or not n.children:
            return []
        if d["kind"] == "first":
            return n.children[:1]
        if d["kind"] in ("last", "name_last"):
            return n.children[-1:]
        if d["kind"] == "every":
            return list(n.children)
        return []

    def dcf_target(self, n):
        """The child of n that n's default config file selects when nothing else does: the one it names, else the
        first one it has a section for (None if it carries no section)."""
        t = self.dcf_targets(n)
        return t[0] if t else None

    def dcf_names(self, n):
        d = self.spec.get("dcf")
        return bool(d) and self.dcf_applies(n) and bool(n.children) and d["kind"] == "name_last"

    def dcf_content(self, n):
        """Content of n's own default config file (None: no file)."""
        if not self.dcf_applies(n):
            return None
        doc = {}
        if n.has_opts:
            for o in OPTS:
                doc[o] = tok("F", n.key, o)
        for t in self.dcf_targets(n):
            c = self.child(n, t)
            assert c.has_opts, "default config sections are only generated for subcommands with own options"
            if self.dcf_names(n):
                doc[DEST] = t
            doc[t] = {o: tok("P", c.key, o) for o in OPTS}
        return doc


def tok(src, key, opt):
    """Value token: names its source (D default, P parent's default config, F own default config, E environment
    variable, C config document, A argv) and its key; never resolves to a non-string in YAML / JSON."""
    return f"{src}_{key.replace('.', '')}_{opt}"


def env_name(path, leaf):
    """Documented rule [PREFIX_][LEV__]*OPT, upper case, dots -> two underscores."""
    return (PROG + "_" + "__".join(list(path) + [leaf])).upper()


def split(p):
    return p.split(".") if p else []


# ------------------------------------------------------------------------------------------------
# abstract inputs
#
# i = {"ch": "af" argv + --config FILE | "as" argv + --config STRING | "ob" parse_object | "st" parse_string |
#            "en" parse_env() with os.environ | "ed" parse_env(env=mapping) | "help" (ENV: names of every parser),
#      "argv": [names given on the command line, a prefix path],
#      "ax":   [levels k at which --x is given on argv, i.e. to the parser reached after k names],
#      "cn":   {dotted path of a parser: name of one of its subcommands}   names in the config document,
#      "cs":   [dotted paths of parsers whose option x is given in the config document],
#      "cl":   k  - the config document is given to the --config option of the parser reached after k argv names,
#      "en":   {dotted path: name}   *_SUBCOMMAND environment variables,
#      "es":   [dotted paths of parsers whose options x and y are given as environment variables],
#      "al":   [dotted (declared-name) paths of subcommand parsers that this input refers to BY ALIAS wherever it
#               names them: on argv, as value of a subcommand key / *_SUBCOMMAND variable, as key of their section
#               in the document; everything else in the abstract input stays in declared names],
#      "pre":  one of PRELUDES - what is done on the parsers before the judged parse (absent: nothing)}
# With ch in ("en", "ed") the config document travels in APP_CONFIG.  Environment variables of the other channels
# are put into os.environ (the tree then has default_env=True).


def norm_input(i):
    out = {"ch": i["ch"]}
    for k, empty in (("argv", []), ("ax", []), ("cn", {}), ("cs", []), ("cl", 0), ("en", {}), ("es", []), ("al", []), ("pre", None)):
        v = i.get(k, empty)
        if v != empty:
            out[k] = sorted(set(v)) if k in ("ax", "cs", "es", "al") else v
    return out


def config_doc(T, i):
    """The config document of input i as a nested dict relative to the parser it is given to (None: no document)."""
    cn, cs = i.get("cn", {}), i.get("cs", [])
    if not cn and not cs:
        return None
    root = {}

    def at(path):
        d = root
        for s in path:
            d = d.setdefault(s, {})
        return d

    for p, name in sorted(cn.items()):
        at(split(p))[DEST] = name
    for p in cs:
        at(split(p))["x"] = tok("C", p, "x")
    d = root
    base = list(i.get("argv", [])[: i.get("cl", 0)])
    for s in base:
        assert set(d) <= {s}, "config document content outside the parser it is given to"
        d = d.get(s, {})
    return render_doc(T, i, d, base) if i.get("al") else d


def render_doc(T, i, doc, parts):
    """The document with every subcommand referred to as input i does (alias or declared name)."""
    n = T.node(parts)
    out = {}
    for k, v in doc.items():
        if k == DEST:
            out[k] = shown(i, parts + [v])
        elif k in n.children:
            out[shown(i, parts + [k])] = render_doc(T, i, v, parts + [k])
        else:
            out[k] = v
    return out


def environment(T, i):
    env = {}
    for p, name in i.get("en", {}).items():
        env[env_name(split(p), DEST)] = shown(i, split(p) + [name])
    for p in i.get("es", []):
        for o in ("x", "y"):
            env[env_name(split(p), o)] = tok("E", p, o)
    if i["ch"] in ENV_CH:
        doc = config_doc(T, i)
        if doc is not None:
            env[env_name([], "config")] = json.dumps(doc)
    return env


# ------------------------------------------------------------------------------------------------
# the reference model


class Fail(Exception):
    pass


def model(T, i):
    """The statement, executed on the abstract input.

    Returns {"ok", "value" (expected result tree or the reason of failure), "hows" (selection mechanism per level of
    the chosen path), "path", "nontrivial", "competing", "tags" (input classes of the documented open findings)}."""
    argv = i.get("argv", [])
    cn, cs = i.get("cn", {}), set(i.get("cs", []))
    env_active = i["ch"] in ENV_CH or env_enabled(T.spec)
    en = i.get("en", {}) if env_active else {}
    es = set(i.get("es", [])) if env_active else set()
    ax = set(i.get("ax", []))
    doc_in_env = i["ch"] in ENV_CH  # through APP_CONFIG the document ranks below the environment variables
    touched = set()  # parsers for which the config document holds a section (a name or a setting at or below them)
    for p in list(cn) + list(cs):
        parts = split(p)
        for k in range(len(parts) + 1):
            touched.add(".".join(parts[:k]))
    info = {"hows": [], "path": [], "nontrivial": False, "competing": False, "tags": set(), "scopes": {}, "envdepth": -1}
    es_present = set(i.get("es", []))  # variables that exist, whether or not environment parsing is in force

    def options(n, out):
        for o in OPTS if n.has_opts else ():
            v = tok("D", n.key, o)
            if n.parent is not None and n.np[-1] in T.dcf_targets(n.parent):
                v = tok("P", n.key, o)
            if T.dcf_applies(n):
                # the order between a parent's default config section and the sub-parser's own default config file
                # is not part of this property: either is accepted
                v = [v, tok("F", n.key, o)] if v[0] == "P" else tok("F", n.key, o)
            if doc_in_env and o == "x" and n.key in cs:
                v = tok("C", n.key, o)
            if n.key in es and o in ("x", "y"):
                v = tok("E", n.key, o)
            if not doc_in_env and o == "x" and n.key in cs:
                v = tok("C", n.key, o)
            if o == "x" and n.depth in ax and n.np == argv[: n.depth]:
                v = tok("A", n.key, o)
            out[o] = v

    def solve(n, with_env_mapping):
        out = {}
        options(n, out)
        if n.key in es_present and n.has_opts:
            info["envdepth"] = max(info["envdepth"], n.depth)
        if not n.children:
            return out
        ckey = lambda c: n.key + "." + c if n.key else c  # noqa: E731
        with_settings = [c for c in n.children if ckey(c) in touched]
        dcf_t = T.dcf_target(n)
        dcf_ts = T.dcf_targets(n)
        named = []  # in order of priority
        if n.depth < len(argv):
            named.append(("argv", argv[n.depth]))
        if not doc_in_env and n.key in cn:
            named.append(("cfg-name", cn[n.key]))
        if n.key in en:
            named.append(("env-name", en[n.key]))
        if doc_in_env and n.key in cn:
            named.append(("envcfg-name", cn[n.key]))
        if T.dcf_names(n):
            named.append(("dcf-name", dcf_t))
        if named:
            how, choice = named[0]
        else:
            cands = [c for c in n.children if c in with_settings or c in dcf_ts]
            if cands:
                choice = cands[0]
                how = "settings" if choice in with_settings else "dcf-settings"
                how += "-several" if len(cands) > 1 else ""
                how += "-nonfirst" if n.children.index(choice) > 0 else ""
            else:
                how, choice = "none", None
        if any(c != choice for _, c in named) or any(c != choice for c in with_settings) or any(c != choice for c in dcf_ts):
            info["competing"] = True
        info["hows"].append(how)
        out[DEST] = choice
        # ---- input classes of the documented open findings (see notes/C17.md); they only label deviations
        if trap(T, n):
            info["tags"].add("default-config-leaves-required-subcommand-open")
        if n.key in cn and cn[n.key] != choice and choice is not None and ckey(choice) in touched:
            info["tags"].add("name-in-config-document-overridden")
        if doc_in_env and n.key in en and choice is not None and ckey(choice) in touched:
            info["tags"].add("env-named-subcommand-with-section-in-APP_CONFIG")
        if not named and dcf_t is not None and choice != dcf_t:
            info["tags"].add("given-settings-against-default-config-settings")
        if len(dcf_ts) > 1 and choice is not None and choice in dcf_ts and choice != dcf_t:
            info["tags"].add("default-config-sections-for-several-subcommands")
            info["scopes"].setdefault("default-config-sections-for-several-subcommands", []).append(ckey(choice))
        if choice is not None and how != "env-name" and ckey(choice) in es:
            if (doc_in_env and ckey(choice) in cs) or choice in dcf_ts:
                info["tags"].add("subcommand-section-from-source-below-environment")
        if i["ch"] == "ed" and choice is not None:
            below = ckey(choice)
            passed = with_env_mapping and how == "env-name"
            if not passed and any(k == below or k.startswith(below + ".") for k in list(en) + list(es)):
                info["tags"].add("env-mapping-not-passed-to-subcommand")
                # the class explains located symptoms (settings, choice) only at or below the sub-parser that does
                # not receive the mapping; the sections of the parsers above it must still be exact
                info["scopes"].setdefault("env-mapping-not-passed-to-subcommand", []).append(below)
            with_env_mapping = passed
        if choice is None:
            if n.required:
                raise Fail(f"no subcommand determinable at required level {n.key!r}")
            return out
        info["path"].append(choice)
        out[choice] = solve(T.child(n, choice), with_env_mapping)
        return out

    for p, name in en.items():  # sub-parsers that the environment names are parsed even when not chosen
        if p in T.nodes and name in T.nodes[p].children and trap(T, T.child(T.nodes[p], name)):
            info["tags"].add("default-config-leaves-required-subcommand-open")
    try:
        value, ok = solve(T.root, True), True
    except Fail as ex:
        value, ok = str(ex), False
    info["nontrivial"] = (not ok) or info["competing"] or any(h != "argv" for h in info["hows"])
    info["tags"] = sorted(info["tags"])
    return {"ok": ok, "value": value, **info}


def trap(T, n):
    """Loading the default config files that apply to parser n leaves a REQUIRED subcommand level open:
    (1) the level below the subcommand that n's own file selects (its section there holds that subcommand's own
        options only);
    (2) n's own level while an ancestor's file is loaded for n (ancestors' files come first, each is resolved on its
        own, and their sections for n hold n's own options only);
    (3) n's own level when n's own file gives neither a name nor a section for n's subcommands."""
    if not n.children:
        return False
    t = T.dcf_target(n)
    if t is not None:
        c = T.child(n, t)
        if c.children and c.required:
            return True
    if not n.required:
        return False
    anc = n.parent
    while anc is not None:
        if T.dcf_applies(anc):
            return True
        anc = anc.parent
    return T.dcf_applies(n) and t is None


# ------------------------------------------------------------------------------------------------
# the implementation side


def build(T, J, scratch):
    """Fresh parsers for the whole tree, built level by level.  Returns {dotted path: parser}."""
    parsers = {}

    def make(n):
        kw = {}
        doc = T.dcf_content(n)
        if doc is not None:
            kw["default_config_files"] = [doc_file(scratch, "dcf", doc)]
        if n.depth == 0:
            mode = env_mode(T.spec)
            denv = bool(T.spec.get("denv")) if mode is None else mode.endswith("-off")
            p = J.ArgumentParser(prog=PROG, exit_on_error=False, default_env=denv, **kw)
        else:
            p = J.ArgumentParser(exit_on_error=False, **kw)
        if n.has_config:
            p.add_argument("--config", action="config")
        if n.has_opts:
            for o in OPTS:
                p.add_argument("--" + o, default=tok("D", n.key, o))
        parsers[n.key] = p
        return p

    make(T.root)
    for n in T.order:  # breadth-first: a parser gets its subcommands after it was added to its parent
        if n.children:
            sc = parsers[n.key].add_subcommands(required=n.required, dest=DEST)
            for c in n.child_nodes:
                if T.spec.get("alias"):
                    sc.add_subcommand(c.np[-1], make(c), aliases=(alias_of(c.np[-1]),))
                else:
                    sc.add_subcommand(c.np[-1], make(c))
    if env_mode(T.spec) in ("prop", "prop-off"):  # the finished tree is told through the root's property
        parsers[""].default_env = env_mode(T.spec) == "prop"
    return parsers


def doc_file(scratch, prefix, doc):
    """File holding `doc`, named by its content; written once per process and never modified afterwards."""
    import hashlib

    text = json.dumps(doc, sort_keys=True)
    f = os.path.join(scratch, f"{prefix}_{hashlib.sha1(text.encode()).hexdigest()[:16]}.json")
    if f not in _written:
        with open(f, "w") as fh:
            fh.write(text)
        _written.add(f)
    return f


_written = set()


def scrub(d):
    """Result as plain data without the config-option keys (their content is not this property's business)."""
    if isinstance(d, dict):
        return {k: scrub(v) for k, v in d.items() if k != "config"}
    return d


def execute(T, i, J, scratch):
    """Run input i on fresh parsers.  Returns the outcome dict of mc.util.outcome."""
    from mc.util import outcome

    ch = i["ch"]
    mode = env_mode(T.spec)
    assert mode is None or (mode in ENV_MODES and ch not in ENV_CH and T.spec.get("denv")), "envmode needs a non-env channel"
    kw = {"env": mode == "call"} if mode in ("call", "call-off") else {}
    saved = dict(os.environ)
    try:
        if mode in ("osvar", "osvar-off"):  # read by every parser when it is created
            os.environ[OSVAR] = "true" if mode == "osvar" else "false"
        parsers = build(T, J, scratch)
        root = parsers[""]
        env = environment(T, i)
        doc = config_doc(T, i)
        argv = i.get("argv", [])
        ax = set(i.get("ax", []))
        toks = []
        for k in range(len(argv) + 1):
            if doc is not None and i.get("cl", 0) == k:
                if ch == "af":
                    toks += ["--config", doc_file(scratch, "given", doc)]
                else:
                    toks += ["--config", json.dumps(doc)]
            if k in ax:
                toks.append("--x=" + tok("A", ".".join(argv[:k]), "x"))
            if k < len(argv):
                toks.append(shown(i, argv[: k + 1]))

        def op():  # the judged call; every invocation gets fresh copies of its arguments
            if ch == "ed":  # the environment as an explicit mapping; os.environ stays clean
                return outcome(root.parse_env, dict(env))
            if ch == "en":
                return outcome(root.parse_env)
            if ch == "ob":
                return outcome(root.parse_object, copy.deepcopy(doc if doc is not None else {}), **kw)
            if ch == "st":
                return outcome(root.parse_string, json.dumps(doc if doc is not None else {}), **kw)
            return outcome(root.parse_args, list(toks), **kw)

        if ch != "ed":
            os.environ.update(env)
        pre = i.get("pre")
        if pre:
            o = prelude(T, J, scratch, parsers, pre, op)
            _last_prelude[:] = [pre, o["kind"]]
        return op()
    finally:
        if dict(os.environ) != saved:
            os.environ.clear()
            os.environ.update(saved)


_last_prelude = [None, None]  # (kind of prelude, kind of its outcome) of the case executed last, for the vacuity guards


def prelude(T, J, scratch, parsers, pre, op):
    """The earlier call of an operation history (see PRELUDES).  Its outcome is handled (never judged)."""
    from mc.util import outcome

    assert pre in PRELUDES, pre
    root = parsers[""]
    missing = os.path.join(scratch, "no_such_config_file.json")
    if pre == "cfg-missing":
        return outcome(root.parse_args, ["--config", missing])
    if pre == "fresh-cfg-missing":
        return outcome(build(T, J, scratch)[""].parse_args, ["--config", missing])
    if pre == "sub-cfg-invalid":
        return outcome(root.parse_args, [T.root.children[0], "--config", json.dumps({"nokey": "v"})])
    if pre == "ok-last":
        obj = d = {}
        n = T.root
        while n.children:
            last = n.child_nodes[-1]
            d[DEST] = last.np[-1]
            d[last.np[-1]] = d = {}
            n = last
        d["x"] = "PRE_x"
        return outcome(root.parse_object, obj, env=False)
    return op()  # "same"


_MISSING = object()
_CLASSES = {"D": "default", "P": "parent-dcf", "F": "own-dcf", "E": "env", "C": "config", "A": "argv"}


def token_class(v):
    if v is _MISSING:
        return "missing"
    if isinstance(v, list):
        return "any-dcf"
    if isinstance(v, str) and len(v) > 2 and v[1] == "_" and v[0] in _CLASSES:
        return _CLASSES[v[0]]
    return "other"


def compare(T, n, exp, obs, hows, devs, i=None):
    """Key-by-key comparison of the model's section with the implementation's for parser n (recursive).
    Appends (signature, detail, dotted path of the parser whose section deviates).  On a tree with aliases the
    chosen subcommand's name (value of the subcommand key and key of its section) is the one the input used
    (`shown`); every other declared name or alias at the level is the key of "another" section."""
    i = i or {}
    lvl = "root" if n.depth == 0 else "nested"
    if not isinstance(obs, dict):
        devs.append((f"section-not-a-mapping:{lvl}", f"{n.key!r}: {obs!r}", n.key))
        return
    for o in OPTS if n.has_opts else ():
        got = obs.get(o, _MISSING)
        if got != exp[o] and not (isinstance(exp[o], list) and got in exp[o]):
            devs.append(
                (
                    f"settings:expected-{token_class(exp[o])}-got-{token_class(got)}",
                    f"{(n.key + '.' if n.key else '') + o}: model {exp[o]!r}, implementation "
                    f"{'<missing>' if got is _MISSING else repr(got)}",
                    n.key,
                )
            )
    names = list(n.children) + ([alias_of(c) for c in n.children] if T.spec.get("alias") else [])
    known = set(OPTS if n.has_opts else ()) | (({DEST} | set(names)) if n.children else set())
    for k in obs:
        if k not in known:
            devs.append((f"unexpected-key:{lvl}", f"{n.key!r} has key {k!r}", n.key))
    if not n.children:
        return
    how = hows[n.depth] if n.depth < len(hows) else "?"
    chosen = exp[DEST]
    want = shown(i, n.np + [chosen]) if chosen is not None else None
    got = obs.get(DEST, _MISSING)
    if got != want:
        devs.append(
            (
                f"choice:{how}:{lvl}",
                f"{n.key!r}: model selects {want!r} ({how}), implementation has "
                f"{'no subcommand key' if got is _MISSING else repr(got)}",
                n.key,
            )
        )
        return
    for c in names:
        if c != want and c in obs:
            devs.append(
                (f"extra-section:{how}:{lvl}", f"{n.key!r}: chosen {want!r} but section {c!r} = {obs[c]!r} survives", n.key)
            )
    if want is not None:
        if want not in obs:
            devs.append((f"missing-section:{how}:{lvl}", f"{n.key!r}: chosen {want!r} has no section", n.key))
        else:
            compare(T, T.child(n, chosen), exp[chosen], obs[want], hows, devs, i)


def help_names(T, J, scratch):
    """ENV: lines of every parser's help must be exactly the documented names of its options."""
    import re

    from mc.util import outcome

    T2 = Tree(dict(T.spec, denv=True))
    parsers = build(T2, J, scratch)
    devs = []
    for n in T2.order:
        o = outcome(parsers[n.key].format_help)
        if o["kind"] != "ok":
            tag = "@default-config-leaves-required-subcommand-open" if trap(T2, n) else ""
            devs.append(("help-fails" + tag, f"{n.key!r}: {str(o)[:300]}"))
            continue
        got = sorted(re.findall(r"ENV:\s+(\S+)", o["value"]))
        want = []
        if n.has_config:
            want.append(env_name(n.np, "config"))
        if n.has_opts:
            want += [env_name(n.np, x) for x in OPTS]
        if n.children:
            want.append(env_name(n.np, DEST))
        if got != sorted(want):
            lvl = "root" if n.depth == 0 else "nested"
            devs.append((f"env-names-in-help-differ-from-documented-rule:{lvl}", f"{n.key!r}: help {got}, rule {sorted(want)}"))
    return devs


# input classes of the open findings -> the symptoms each of them can explain
EXPLAINS = {
    "given-settings-against-default-config-settings": {"choice", "fails"},
    "default-config-leaves-required-subcommand-open": {"fails"},
    "name-in-config-document-overridden": {
        "fails",
        "choice",
        "succeeds-without-determinable-subcommand",
        "settings:expected-config-got-default",
        "settings:expected-config-got-env",
        "settings:expected-config-got-own-dcf",
        "settings:expected-config-got-parent-dcf",
        "settings:expected-config-got-any-dcf",
    },
    "env-named-subcommand-with-section-in-APP_CONFIG": {
        "fails",
        "choice",
        "succeeds-without-determinable-subcommand",
        "settings:expected-config-got-default",
    },
    "env-mapping-not-passed-to-subcommand": {
        "fails",
        "choice",
        "succeeds-without-determinable-subcommand",
        "settings:expected-env-got-default",
    },
    "default-config-sections-for-several-subcommands": {
        "settings:expected-parent-dcf-got-default",
    },
    "subcommand-section-from-source-below-environment": {
        "settings:expected-env-got-config",
        "settings:expected-env-got-parent-dcf",
    },
}

_scratch = None


def scratch():
    """One directory per process (under mc.util.scratch_root(), removed at exit).  Files are named by the hash of
    their content and are written once, so a case never sees a file another case could have changed."""
    global _scratch
    if _scratch is None or not os.path.isdir(_scratch):
        from mc.util import scratch_root

        _scratch = os.path.join(scratch_root(), "c17")
        os.makedirs(_scratch, exist_ok=True)
    return _scratch


def judge(case):
    """Execute one case and compare with the model.  Returns (devs, summary)."""
    import jsonargparse as J

    T = Tree(case["t"])
    i = case["i"]
    if i["ch"] == "help":
        return help_names(T, J, scratch()), {"kind": "help"}
    m = model(T, i)
    o = execute(T, i, J, scratch())
    devs = []
    how = "/".join(m["hows"]) or "-"
    if o["kind"] in ("escape", "timeout", "exit"):
        detail = {k: v for k, v in o.items() if k != "value"}
        devs.append((f"escape:{o.get('type', o['kind'])}", json.dumps(detail, default=repr)[:400]))
    elif o["kind"] == "ArgumentError":
        if m["ok"]:
            devs.append(
                (f"fails:{how}", f"model: {json.dumps(m['value'])[:300]}; implementation: ArgumentError {o['message'][:300]}")
            )
    else:
        obs = scrub(J.strip_meta(o["value"]).as_dict())
        if not m["ok"]:
            devs.append(
                (f"succeeds-without-determinable-subcommand:{how}", f"model: {m['value']}; implementation: {json.dumps(obs)[:300]}")
            )
        else:
            compare(T, T.root, m["value"], obs, m["hows"], devs, i)
    if devs and m["tags"]:
        # the case belongs to the input class of a documented open finding: name the class (only where the class can
        # explain the symptom - and, for a class with a scope, only for symptoms located at or below the parsers the
        # class is about; symptoms without a location (failure / success of the whole parse) are judged per case),
        # keep the symptom coarse
        def in_scope(t, where):
            sc = m["scopes"].get(t)
            return sc is None or where is None or any(where == k or where.startswith(k + ".") for k in sc)

        tagged = []
        for sig, detail, *where in devs:
            where = where[0] if where else None
            coarse = sig if sig.startswith("settings:") else sig.split(":")[0]
            # first in EXPLAINS' order wins
            tags = [t for t in EXPLAINS if t in m["tags"] and coarse in EXPLAINS[t] and in_scope(t, where)]
            tagged.append((coarse + "@" + tags[0], detail) if tags else (sig, detail))
        devs = tagged
    devs = [(d[0], d[1]) for d in devs]
    summary = {
        "kind": o["kind"],
        "model_ok": m["ok"],
        "hows": m["hows"],
        "depth": len(m["path"]),
        "nontrivial": m["nontrivial"],
        "competing": m["competing"],
        "tags": m["tags"],
        "envmode": env_mode(T.spec),
        "envdepth": m["envdepth"],
    }
    if i.get("pre"):
        summary["pre"] = list(_last_prelude)
    if T.spec.get("alias"):
        al = set(i.get("al", []))
        on_path = {".".join(m["path"][: k + 1]) for k in range(len(m["path"]))}
        mentioned = mentioned_children(T, i)
        summary["alias"] = {
            "chosen-by-alias": bool(al & on_path),
            "other-under-alias": bool(al - on_path),
            "chosen-by-alias-other-by-declared-name": bool(al & on_path) and bool(mentioned - on_path - al),
            "chosen-by-declared-name-other-under-alias": bool(on_path - al) and bool(al - on_path),
        }
    return devs, summary


def isolated(case):
    """judge(case) in a contextvars Context of its own: whatever a case leaves behind in a context variable of the
    library cannot reach the next case of the same worker process (a witness must reproduce in a fresh process);
    what an earlier call leaves behind is judged explicitly by the operation histories (PRELUDES), inside one case."""
    import contextvars

    return contextvars.copy_context().run(judge, case)


def run_case(case):
    devs, _ = isolated(case)
    return [{"signature": s, "detail": d} for s, d in devs]


def work(case):
    """Worker: one case.  Returns (case or None, devs, summary)."""
    try:
        devs, summary = isolated(case)
    except Exception as ex:  # a crash of the harness itself must be loud
        import traceback

        return case, [("harness-crash:" + type(ex).__name__, traceback.format_exc()[-800:])], {"kind": "crash"}
    return (case if devs else None), devs, summary


# ------------------------------------------------------------------------------------------------
# enumeration: shapes


def subsets(items):
    items = list(items)
    for r in range(len(items) + 1):
        for c in itertools.combinations(items, r):
            yield list(c)


def leaves(w):
    return [[] for _ in range(w)]


def two_level(w1, pat, w2):
    return [leaves(w2) if k in pat else [] for k in range(w1)]


def shapes(tier):
    """Trees as nested lists, simplest first.  Nested children of one parser share one width (shape reduction by
    symmetry).  Which children are nested - quick: first only / last only / all; thorough: every subset for width
    <= 3, first / last / first+last / all for width 4.  Thorough adds width 4 and depth 3 (a chain of nested levels
    below the first or the last child; widths <= 2 with every chain position, widths (3,2,2) / (2,3,2) / (2,2,3) with
    the chain below the last child)."""
    out = []
    for w1 in (1, 2, 3):
        out.append(leaves(w1))
    for w1 in (1, 2, 3):
        pats = sorted({(0,), (w1 - 1,), tuple(range(w1))}, key=lambda p: (len(p), p))
        if tier != "quick":
            pats = [tuple(p) for p in subsets(range(w1)) if p]
        for pat in pats:
            for w2 in (1, 2, 3):
                out.append(two_level(w1, pat, w2))
    if tier == "quick":
        return out
    out.append(leaves(4))
    for w1 in (1, 2, 3):
        for pat in sorted({(0,), (w1 - 1,), tuple(range(w1))}, key=lambda p: (len(p), p)):
            out.append(two_level(w1, pat, 4))
    for pat in ((0,), (3,), (0, 3), (0, 1, 2, 3)):
        for w2 in (1, 2, 3, 4):
            out.append(two_level(4, pat, w2))
    seen = set()
    for w1, w2, w3 in itertools.product((1, 2, 3), repeat=3):
        small = max(w1, w2, w3) <= 2
        if not small and sorted((w1, w2, w3)) != [2, 2, 3]:
            continue
        for p1 in sorted({0, w1 - 1}) if small else [w1 - 1]:
            for p2 in sorted({0, w2 - 1}) if small else [w2 - 1]:
                lvl2 = [leaves(w3) if k == p2 else [] for k in range(w2)]
                shape = [lvl2 if k == p1 else [] for k in range(w1)]
                if json.dumps(shape) not in seen:
                    seen.add(json.dumps(shape))
                    out.append(shape)
    return out


def depth_of(shape):
    return 0 if not shape else 1 + max(depth_of(s) for s in shape)


def req_vectors(shape):
    d = depth_of(shape)
    return [list(bits) + [True] * (3 - d) for bits in itertools.product((True, False), repeat=d)]


SMALL = [two_level(2, (), 0), two_level(2, (0, 1), 2)]  # shapes for the feature / default-config variants (quick)


# ------------------------------------------------------------------------------------------------
# enumeration: input families (abstract inputs without channel)


def section_atoms(T, n):
    """Minimal config settings that make a section for parser n exist: its own x, or - for a parser without own
    options - the x of its last leaf."""
    while not n.has_opts:
        n = n.child_nodes[-1]
    return [n.key]


def chain_down(T, n, mode, i, via):
    """Completion below a chosen parser n that has subcommands itself: always its last child, all the way down.
    mode "name": named (on argv / in the config document / by environment variables, per `via`);
    mode "set": settings for the last child only."""
    while n.children:
        last = n.child_nodes[-1]
        if mode == "set":
            i["cs"] += section_atoms(T, last)
            return
        if via == "argv":
            i["argv"].append(last.np[-1])
        elif via == "env":
            i["en"][n.key] = last.np[-1]
        else:
            i["cn"][n.key] = last.np[-1]
        n = last
    if via == "env" and n.has_opts:
        i["es"].append(n.key)


def focus_actions(T, tier):
    """Subcommand levels used as the focus of a local product.  Quick tier: below one parser only the first and the
    last nested child are a focus (a middle one differs from the last in nothing the rule mentions)."""
    out = []
    for P in T.actions():
        if tier == "quick" and P.parent is not None:
            sib = [c for c in P.parent.child_nodes if c.children]
            if P is not sib[0] and P is not sib[-1]:
                continue
        out.append(P)
    return out


def local_family(T, tier):
    """Full product, at every focus level, of (name on argv) x (name in the config document) x (subset of the
    subcommands with settings in the document) x (how the focus level is reached: ancestors named on argv / named
    in the document / implied by the content) x (how the levels below the chosen subcommand are completed: not at
    all / named / settings for the last one)."""
    for P in focus_actions(T, tier):
        kids = P.children
        for a in [None] + kids:
            for n in [None] + kids:
                for S in subsets(kids):
                    d = a or n or (S[0] if S else None)
                    ctxs = [None] if P.depth == 0 else (["argv"] if a else ["argv", "name", "impl"])
                    for ctx in ctxs:
                        dn = T.child(P, d) if d else None
                        comps = ["none", "name", "set"] if (dn is not None and dn.children) else [None]
                        for comp in comps:
                            i = {"argv": [], "cn": {}, "cs": []}
                            if ctx == "argv":
                                i["argv"] = list(P.np)
                            elif ctx == "name":
                                for k in range(len(P.np)):
                                    i["cn"][".".join(P.np[:k])] = P.np[k]
                            elif ctx == "impl" and not n and not S:
                                if not P.has_opts:
                                    continue
                                i["cs"].append(P.key)
                            if a:
                                i["argv"].append(a)
                            if n:
                                i["cn"][P.key] = n
                            for c in S:
                                i["cs"] += section_atoms(T, T.child(P, c))
                            if comp in ("name", "set"):
                                chain_down(T, dn, comp, i, "argv" if a else "cfg")
                            yield i


def fold_family(T, tier):
    """Given values through the document and argv for the parsers along every argv path (full and partial)."""
    for n in T.order:
        path = n.np
        lv = [k for k in range(len(path) + 1) if T.node(path[:k]).has_opts]
        keys = [".".join(path[:k]) for k in lv]
        for cs in ([], keys):
            for ax in ([], lv, lv[-1:]):
                if not cs and not ax:
                    continue
                i = {"argv": list(path), "cs": list(cs), "ax": list(ax), "cn": {}}
                if n.children:  # the levels below the argv path are named in the document
                    chain_down(T, n, "name", i, "cfg")
                yield i


def sub_config_family(T, tier):
    """The config document given to the --config option of a sub-parser (after its name on argv)."""
    for P in T.order:
        if P.depth == 0 or not P.has_config:
            continue
        if P.has_opts:
            yield {"argv": list(P.np), "cl": P.depth, "cs": [P.key], "cn": {}}
        for n in ([None] + P.children) if P.children else []:
            for S in subsets(P.children):
                if not n and not S:
                    continue
                i = {"argv": list(P.np), "cl": P.depth, "cn": {}, "cs": []}
                if n:
                    i["cn"][P.key] = n
                for c in S:
                    i["cs"] += section_atoms(T, T.child(P, c))
                dn = T.child(P, n or S[0])
                if dn.children:
                    chain_down(T, dn, "name", i, "cfg")
                yield i


def env_family(T, tier):
    """Environment: at every focus level (*_SUBCOMMAND name or none) x (nothing | settings for every subcommand in
    the document | name on argv | name in the document) x (no option variables | option variables for every
    subcommand of the level), the level reached through
    *_SUBCOMMAND variables or argv names, the levels below completed by *_SUBCOMMAND variables or not at all."""
    for P in focus_actions(T, tier):
        kids = P.children
        for e in [None] + kids:
            for kind, other in [(None, None), ("s", None)] + [("a", c) for c in kids] + [("n", c) for c in kids]:
                d = other or e or (kids[0] if kind == "s" else None)
                for ES in ([], kids):
                    ctxs = [None] if P.depth == 0 else (["argv"] if kind == "a" else ["ename", "argv"])
                    for ctx in ctxs:
                        i = {"argv": [], "cn": {}, "cs": [], "en": {}, "es": []}
                        if ctx == "argv":
                            i["argv"] = list(P.np)
                        elif ctx == "ename":
                            for k in range(len(P.np)):
                                i["en"][".".join(P.np[:k])] = P.np[k]
                        if ES:
                            i["es"] += [".".join(P.np[:k]) for k in range(len(P.np) + 1) if T.node(P.np[:k]).has_opts]
                        if e:
                            i["en"][P.key] = e
                        if kind == "a":
                            i["argv"].append(other)
                        elif kind == "n":
                            i["cn"][P.key] = other
                        elif kind == "s":
                            for c in kids:
                                i["cs"] += section_atoms(T, T.child(P, c))
                        for c in ES:
                            i["es"] += section_atoms(T, T.child(P, c))
                        dn = T.child(P, d) if d else None
                        if dn is not None and dn.children:
                            yield copy.deepcopy(i)
                            chain_down(T, dn, "name", i, "env")
                        yield i


def dcf_family(T, tier):
    """Inputs for trees with default config files: at every level (no name | name on argv | name in the document) x
    (settings for none / the first / the last / every subcommand), ancestors on argv or named in the document, the
    levels below named; each with and without option variables in the environment for every parser."""
    every = [n.key for n in T.order if n.has_opts]
    for P in T.actions():
        kids = P.children
        for a, n in [(None, None)] + [(c, None) for c in kids] + [(None, c) for c in kids]:
            for S in ([], kids[:1], kids[-1:], kids):
                d = a or n or (S[0] if S else None)
                ctxs = [None] if P.depth == 0 else (["argv"] if a else ["argv", "name"])
                for ctx in ctxs:
                    for es in ([], every):
                        i = {"argv": [], "cn": {}, "cs": [], "en": {}, "es": list(es)}
                        if ctx == "argv":
                            i["argv"] = list(P.np)
                        elif ctx == "name":
                            for k in range(len(P.np)):
                                i["cn"][".".join(P.np[:k])] = P.np[k]
                        if a:
                            i["argv"].append(a)
                        if n:
                            i["cn"][P.key] = n
                        for c in S:
                            i["cs"] += section_atoms(T, T.child(P, c))
                        dn = T.child(P, d) if d else None
                        if dn is not None and dn.children:
                            chain_down(T, dn, "name", i, "argv" if a else "cfg")
                        yield i


FAMILIES = {"local": local_family, "fold": fold_family, "subcfg": sub_config_family, "env": env_family, "dcf": dcf_family}


def channels_for(T, i, family, tier):
    """Channels through which abstract input i is delivered on tree T.  The channels that differ from another one
    only in how the text reaches the loader are used on the smaller trees: --config STRING (vs FILE) on flat trees
    (thorough: width <= 2) and in the fold / subcfg families; parse_string (vs parse_object) and parse_env(env=mapping)
    (vs os.environ) on trees of width <= 2 (thorough: width <= 3 and depth <= 2)."""
    has_doc = bool(i.get("cn") or i.get("cs"))
    argv = bool(i.get("argv") or i.get("ax"))
    needs_env = bool(i.get("en") or i.get("es"))
    root_cfg = T.root.has_config
    width = max(len(n.children) for n in T.order)
    depth = depth_of(T.spec["shape"])
    narrow = width <= 2 if tier == "quick" else (width <= 3 and depth <= 2)
    flat = depth == 1 if tier == "quick" else width <= 2
    out = []
    if family == "subcfg":
        return ["af", "as"]
    if family == "env":
        # parse_env takes everything from the environment (the document through APP_CONFIG); the other channels read
        # os.environ because the tree then has default_env=True
        if not argv and (not has_doc or root_cfg):
            out += ["en", "ed"] if narrow else ["en"]
        if not has_doc or root_cfg:
            out.append("af")
        if not argv:
            out.append("ob")
        return out
    if not has_doc or root_cfg:
        out.append("af")
        if has_doc and family != "dcf" and (family == "fold" or flat):
            out.append("as")  # --config STRING differs from FILE only before the document is loaded
    if not argv:
        out += ["ob", "st"] if (narrow and not needs_env and family != "dcf") else ["ob"]
    return out


def mentioned_children(T, i):
    """Declared-name paths of the subcommand parsers that input i refers to: named on argv, by a subcommand key of
    the document or a *_SUBCOMMAND variable, or owner / ancestor of a section of the document."""
    out = set()
    argv = i.get("argv", [])
    for k in range(len(argv)):
        out.add(".".join(argv[: k + 1]))
    for src in ("cn", "en"):
        for p, name in i.get(src, {}).items():
            out.add(".".join(split(p) + [name]))
            out |= {".".join(split(p)[: k + 1]) for k in range(len(split(p)))}
    for p in i.get("cs", []):
        out |= {".".join(split(p)[: k + 1]) for k in range(len(split(p)))}
    return out


def inputs_for_shape(shape, variant, families, tier, axis=None):
    """All (family, abstract input with channel) of one shape, deduplicated; independent of the required flags.
    axis "alias": every input once for EVERY subset of the subcommands it mentions referred to by alias (the empty
    subset = aliases declared but not used); axis "history": every input after every prelude of PRELUDES.  Under an
    axis the channels that only differ in how the text reaches the loader (as, st, ed) are not repeated."""
    T = Tree(dict(variant, shape=shape, req=[True, True, True]))
    seen, out = set(), []
    for fam in families:
        for raw in FAMILIES[fam](T, tier):
            for ch in channels_for(T, raw, fam, tier):
                if axis and ch in ("as", "st", "ed"):
                    continue
                base = dict(raw, ch=ch)
                if axis == "alias":
                    expanded = [dict(base, al=S) for S in subsets(sorted(mentioned_children(T, base)))]
                elif axis == "history":
                    expanded = [dict(base, pre=h) for h in PRELUDES]
                else:
                    expanded = [base]
                for e in expanded:
                    i = norm_input(e)
                    key = json.dumps(i, sort_keys=True)
                    if key not in seen:
                        seen.add(key)
                        out.append((fam, i))
    return out


def cases_for_shape(shape, variant, families, tier, axis=None):
    """Cases of one shape: every input under the required/optional vectors.  Quick tier (and the env family in both
    tiers): all vectors when the input leaves some level undetermined (there the flag decides the outcome), otherwise
    all-required and all-optional.  Thorough tier: all vectors."""
    vectors = req_vectors(shape)
    optional = [False, False, False]
    uniform = [v for v in vectors if len(set(v[: depth_of(shape)])) == 1]
    # environment variable names in the help do not depend on default config files or required flags
    plain = not variant["dcf"] and not env_mode(variant) and not axis
    out = [("help", {"t": dict(variant, shape=shape, req=v), "i": {"ch": "help"}}) for v in vectors[:1] if plain]
    for fam, i in inputs_for_shape(shape, variant, families, tier, axis):
        denv = bool(i.get("en") or i.get("es")) and i["ch"] not in ENV_CH
        if env_mode(variant) and not denv:
            continue  # the mode only matters where variables meet parse_args / parse_object
        base = dict(variant, shape=shape, denv=denv)
        use = vectors
        if tier == "quick" or fam == "env":
            m = model(Tree(dict(base, req=optional)), i)
            if "none" not in m["hows"]:
                use = uniform
        for v in use:
            out.append((fam, {"t": dict(base, req=v), "i": i}))
    return out


BASE = {"cfgopt": "all", "glob": True, "dcf": None, "denv": False}


def dcf_variants(shape):
    T = Tree(dict(BASE, shape=shape, req=[True, True, True]))
    out = []
    for at in ("root", "subs", "all"):
        for kind in ("own", "first", "last", "name_last", "every"):
            spec = dict(BASE, dcf={"at": at, "kind": kind})
            Tv = Tree(dict(spec, shape=shape, req=[True, True, True]))
            if not any(Tv.dcf_applies(n) for n in Tv.order):
                continue
            if kind != "own" and not any(Tv.dcf_target(n) for n in Tv.order):
                continue  # degenerates to "own"
            if kind in ("last", "every") and all(len(n.children) == 1 for n in Tv.order if Tv.dcf_target(n)):
                continue  # same as "first"
            if kind == "every" and at == "subs":
                continue  # cost: sections for every subcommand are explored with the file at the root / everywhere
            out.append(spec)
    return out


def case_groups(tier):
    """The whole space of the tier as a sequence of groups (one per tree shape x feature variant), simplest trees
    first; each group is a list of (family, case).  Cases of different groups differ in their tree spec."""
    for shape in shapes(tier):
        yield cases_for_shape(shape, BASE, ["local", "fold", "subcfg", "env"], tier)
    small = [s for s in shapes("quick") if max(len(s), max(len(c) for c in s)) <= 2] + [leaves(3)]
    for shape in SMALL if tier == "quick" else small:
        for cfgopt, glob in (("root", True), ("none", True), ("all", False), ("none", False)):
            yield cases_for_shape(shape, dict(BASE, cfgopt=cfgopt, glob=glob), ["local", "fold", "subcfg"], tier)
    for shape in SMALL if tier == "quick" else small:
        for variant in dcf_variants(shape):
            yield cases_for_shape(shape, variant, ["dcf"], tier)
    for shape in SMALL if tier == "quick" else small:  # the env family once more under every other way of
        for mode in ENV_MODES:  # switching environment parsing on / off for the tree
            yield cases_for_shape(shape, dict(BASE, envmode=mode), ["env"], tier)
    axes_shapes = SMALL if tier == "quick" else SMALL + [leaves(3)]  # thorough: one notch wider (cost)
    for shape in axes_shapes:  # subcommands declared with aliases, referred to by alias
        yield cases_for_shape(shape, dict(BASE, alias=True), ["local"] if depth_of(shape) > 1 else ["local", "env"], tier, "alias")
    for shape in axes_shapes:  # operation histories: an earlier call on the same parsers
        yield cases_for_shape(shape, BASE, ["local"] if depth_of(shape) > 1 else ["local", "env"], tier, "history")


def enumerate_cases(tier):
    return [fc for group in case_groups(tier) for fc in group]


# ------------------------------------------------------------------------------------------------


def explore(ctx):
    evaluations = nontrivial = states = 0
    trees = set()
    keep = []  # a few real cases for the evidence

    def run(batch):
        nonlocal evaluations, nontrivial
        for case, devs, s in ctx.pmap(work, batch):
            evaluations += 1
            ctx.count("outcome:" + s["kind"])
            if s["kind"] not in ("help", "crash"):
                nontrivial += bool(s["nontrivial"])
                ctx.count("model:" + ("ok" if s["model_ok"] else "fail"))
                for h in s["hows"]:
                    ctx.count("how:" + h)
                ctx.count(f"depth:{s['depth']}")
                if s["competing"]:
                    ctx.count("competing-information-present")
                for t in s["tags"]:
                    ctx.count("input-class:" + t)
                if s.get("envmode"):
                    ctx.count("envmode:" + s["envmode"])
                    if s["kind"] == "ok" and s["model_ok"] and s["depth"] >= 2 and s["envdepth"] >= 2:
                        # a successful nested selection whose innermost parser has variables in the environment:
                        # there the mode must have reached (or been withdrawn from) every level
                        ctx.count("envmode-decides-nested-settings:" + s["envmode"])
                        if s["hows"][:2] == ["argv", "argv"]:
                            ctx.count("envmode-decides-nested-settings:" + s["envmode"] + ":both-levels-on-argv")
                if s.get("pre"):
                    ctx.count("history:" + s["pre"][0])
                    ctx.count("history:" + s["pre"][0] + ":earlier-call-" + ("ok" if s["pre"][1] == "ok" else "fails"))
                    if "cfg-name" in s["hows"] and s["competing"] and s["kind"] == "ok":
                        ctx.count("history:" + s["pre"][0] + ":then-name-in-document-with-settings-for-another")
                for k, v in (s.get("alias") or {}).items():
                    if v and s["kind"] == "ok":
                        ctx.count("alias:" + k)
            for sig, detail in devs:
                ctx.deviation(sig, case, detail)

    batch = []
    for group in case_groups(ctx.tier):  # batches bound the memory of the thorough tier
        seen = set()
        for fam, case in group:
            k = json.dumps(case, sort_keys=True)
            if k in seen:
                continue
            seen.add(k)
            states += 1
            ctx.count("family:" + fam)
            ctx.count("channel:" + case["i"]["ch"])
            trees.add(json.dumps(case["t"], sort_keys=True))
            batch.append(case)
        if group:
            keep += [group[len(group) // 3][1], group[-1][1]]
        if len(batch) >= 30000:
            run(batch)
            batch = []
    if batch:
        run(batch)
    for k in range(0, len(keep), max(1, len(keep) // 10)):
        ctx.sample(keep[k])
    ctx.cover(
        states=states,
        transitions=evaluations,
        traces_validated_against_impl=evaluations,
        evaluations=evaluations,
        distinct_nontrivial=nontrivial,
        rule="a case is one (tree, input, channel) executed on freshly built real parsers and compared with the "
        "reference model; cases are distinct by construction (deduplicated on their canonical JSON); non-trivial = "
        "the model's verdict needs more than reading names from argv: some level is decided by a config / environment "
        "/ default-config name or by given settings, or information for a non-chosen subcommand is present, or the "
        "model says failure",
        exhaustive=True,
        caps_hit=[],
        trees=len(trees),
        bounds={
            "tier": ctx.tier,
            "aliases": "every subcommand declared with one alias, every subset of the mentioned subcommands referred to by "
            "alias; small shapes, local family (+ env family on the flat shape), channels af ob en",
            "histories": ", ".join(PRELUDES) + " before the judged parse; small shapes, local family (+ env family on the "
            "flat shape), channels af ob en",
            "env_modes": "default_env=True at the root on every shape; " + ", ".join(ENV_MODES) + " on the small shapes",
            "shapes": len(shapes(ctx.tier)),
            "max_depth": 2 if ctx.quick else 3,
            "max_width": 3 if ctx.quick else 4,
            "required_vectors": "all for inputs that leave a level undetermined, all-required and all-optional otherwise"
            if ctx.quick
            else "all (env family: as in the quick tier)",
        },
    )
    ctx.assume("untyped string options; one config document per parse; subcommand names are plain identifiers")
    c = ctx.counters
    ctx.require(c.get("model:ok", 0) > 100 and c.get("model:fail", 0) > 100, "both selectable and undeterminable inputs occur")
    ctx.require(
        c.get("outcome:ok", 0) > 100 and c.get("outcome:ArgumentError", 0) > 100, "both successful and failing parses occur"
    )
    for h in (
        "argv",
        "cfg-name",
        "env-name",
        "envcfg-name",
        "dcf-name",
        "dcf-settings",
        "settings",
        "settings-nonfirst",
        "settings-several",
        "settings-several-nonfirst",
        "none",
    ):
        ctx.require(c.get("how:" + h, 0) > 10, f"selection mechanism {h!r} exercised")
    ctx.require(c.get("depth:2", 0) > 100, "nested selections reached")
    ctx.require(c.get("competing-information-present", 0) > 100, "inputs with information for a non-chosen subcommand occur")
    ctx.require(c.get("outcome:help", 0) > 10, "environment variable names cross-checked against help output")
    for pre in PRELUDES:
        n = c.get("history:" + pre, 0)
        ctx.require(n > 100, f"operation history {pre!r} exercised")
        if pre in PRELUDE_FAILS:
            ctx.require(c.get(f"history:{pre}:earlier-call-fails", 0) == n, f"history {pre!r}: the earlier call fails in every case")
        elif pre == "ok-last":
            ctx.require(c.get(f"history:{pre}:earlier-call-ok", 0) == n, f"history {pre!r}: the earlier call succeeds in every case")
        ctx.require(
            c.get(f"history:{pre}:then-name-in-document-with-settings-for-another", 0) > 10,
            f"history {pre!r}: followed by successful parses that name one subcommand and carry settings of another",
        )
    for k in ("chosen-by-alias", "other-under-alias", "chosen-by-alias-other-by-declared-name", "chosen-by-declared-name-other-under-alias"):
        ctx.require(c.get("alias:" + k, 0) > 10, f"aliases: successful parses of the class {k!r} occur")
    for mode in ENV_MODES:
        ctx.require(c.get("envmode:" + mode, 0) > 100, f"environment switched by mode {mode!r} exercised")
        ctx.require(
            c.get("envmode-decides-nested-settings:" + mode, 0) > 10
            and c.get("envmode-decides-nested-settings:" + mode + ":both-levels-on-argv", 0) > 0,
            f"mode {mode!r}: successful nested selections (also with both levels named on argv) whose innermost parser "
            "has environment variables",
        )
