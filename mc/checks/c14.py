"""C14 - a class_path is checked against the declared type and built from its config.

Bounded exhaustive product on the real parser: fixture class families (mc/fixtures/c14) x declared type x
declaration style x logical class spec (class named by path / by name / not named; init args none / valid /
unknown / ill-typed / missing required; dict_kwargs) x notation (explicit dict, string, init_args without
class_path, flat init args, dotted argv options in explicit and short spelling) x channel (parse_object,
--config, --x=<json>, dotted argv, argument default) x one, two or three sources (class changes); lineage of the
named class below the declared one (direct, via a concrete / abstract / private intermediate class, diamond); sibling
class-typed positions with prefix-related names (parameters of a nested class / of a class group / separate
top-level arguments, both declaration orders); whole lists / dicts of classes given again by a later source
(every element position x relation to the class configured there; shrinking, growing, empty containers);
operation histories: the parse under test on a parser that was used before (earlier call through parse_env,
defaults=False, parse_string and the ordinary channels), classes whose module is imported after an earlier parse
(named by bare name and by path), container elements with dict_kwargs addressed again.

Every case is judged by the reference model in c14_model.py (pure reflection on the fixtures, no jsonargparse):
accept iff the model accepts; the parsed configuration, read back structurally (class_path re-imported by the
model, init_args overlaid on the constructor defaults), must equal the model's effective configuration - since
every notation of one logical spec is compared with the same expectation this is also the short-form /
explicit-form differential; instantiate_classes must then return objects of exactly the named classes, each
constructor having run exactly once with exactly init_args + dict_kwargs, nested objects built first and passed
by identity (constructor log of the fixtures).
"""
from __future__ import annotations

import copy
import json

from mc.checks import c14_model as M

META = {
    "id": "C14",
    "level": "exploration",
    "engine": "bounded exhaustive product of class families x specs x notations x channels on the real "
    "ArgumentParser (mc/checks/c14.py, reference model mc/checks/c14_model.py)",
    "technique": "exhaustive enumeration of class specs over fixture class families, judged by an independent "
    "reflection-based validator (issubclass / inspect.signature / conforms) and a constructor log",
    "level_text": "Every combination of declared type, class token (subclasses, unrelated classes, abstract classes, "
    "factory functions, importable instances, modules, constants, unimportable paths), init-args mutation, notation "
    "and channel within the stated bounds - including classes that descend from the declared class through abstract "
    "or private intermediate classes or along two lines, sibling class-typed positions with prefix-related names, "
    "lists / dicts of classes given again by a later source, parsers that were used before and classes imported after "
    "an earlier parse - is executed on the real parser and compared with a reference model that "
    "decides acceptance and the effective configuration by reflection on the fixture classes; accepted "
    "configurations are instantiated and a constructor log decides exact class, exactly-once construction, exact "
    "arguments and nested-first order. Nothing is sampled; the verdict is exhaustive within the bounds.",
    "level_note": "Trusted: the reference model (c14_model.py, ~350 lines: name resolution rule, class-change rule "
    "'valid init args are kept', dict_kwargs entries naming a real parameter count as init args), the fixture "
    "constructor log, the renderers from logical spec to notation. Parameter types are limited to int/str/bool/"
    "Optional[int] and class-typed ones; protocols, generics, Callable[..., Class] and links are not enumerated.",
    "design_ref": "DESIGN.md §5 C14",
}

# =================================================================================================
# declared types and styles

TYPE_NAMES = [
    "Base", "SubAdd", "Abs", "Other", "Kw", "OptBase", "UnionBO", "ListBase", "DictBase",
    "HoldOne", "HoldOpt", "HoldUnion", "HoldList", "HoldDict", "HoldDeep", "HoldPair", "HoldPairR",
    "ListKw", "DictKw",
]  # fmt: skip


def decl_type(name):
    return M.decl_type(name)


def txt(v):
    return v if isinstance(v, str) else json.dumps(v)


# =================================================================================================
# rendering a logical spec


def class_text(spec):
    return M.short_name(spec["c"]) if spec.get("by") == "name" else M.TOKENS[spec["c"]]


def is_spec(v):
    return isinstance(v, dict)


_WRITTEN_REVERSED = False  # set by invocation() for cases with "rev": init args are written last-to-first


def _args_in_written_order(spec):
    items = list((spec.get("a") or {}).items())
    return items[::-1] if _WRITTEN_REVERSED else items


def render_json(spec, form):
    """JSON value for one position."""
    if spec is None:
        return None
    if "list" in spec:
        return [render_json(s, _nested_form(s, form)) for s in spec["list"]]
    if "dict" in spec:
        return {k: render_json(s, _nested_form(s, form)) for k, s in spec["dict"].items()}
    args = {k: (render_json(v, _nested_form(v, form)) if is_spec(v) else v) for k, v in _args_in_written_order(spec)}
    dk = dict(spec.get("k") or {})
    if form == "S":
        assert spec.get("c") and not args and not dk
        return class_text(spec)
    if form == "E":
        assert spec.get("c")
        out = {"class_path": class_text(spec)}
        if args:
            out["init_args"] = args
        if dk:
            out["dict_kwargs"] = dk
        return out
    if form == "I":
        assert not spec.get("c")
        out = {"init_args": args}
        if dk:
            out["dict_kwargs"] = dk
        return out
    if form == "F":
        assert not spec.get("c") and not dk and args
        return args
    raise AssertionError(form)


def _nested_form(v, form):
    """Notation of a nested spec inside a JSON value: explicit where a class is named, else the outer class-less one."""
    if v is None or "list" in v or "dict" in v:
        return "E"
    if v.get("c"):
        return "S" if form == "S" and not v.get("a") and not v.get("k") else "E"
    return "I" if form in ("E", "I", "S") else "F"


def render_dot(prefix, spec, form):
    """Dotted argv options for one position.  form E: .class_path / .init_args.k / .dict_kwargs.k;
    S: --p=Class --p.k=v; I: --p.init_args.k=v; F: --p.k=v."""
    out = []
    if spec is None:
        return [f"--{prefix}=null"]
    if "append" in spec:
        s = spec["append"]
        if form == "E":
            return [f"--{prefix}+={json.dumps(render_json(s, 'E'))}"]
        out.append(f"--{prefix}+={class_text(s)}")
        return out + _dot_args(prefix, s, "S")
    if "last" in spec:
        return _dot_args(prefix, spec["last"], form)
    if "key" in spec:
        k, s = spec["key"]
        if form in ("E", "I", "F"):  # one JSON value: explicit spec / init_args without class_path / flat init args
            return [f"--{prefix}.{k}={json.dumps(render_json(s, form))}"]
        assert not s.get("a") and not s.get("k")
        return [f"--{prefix}.{k}={class_text(s)}"]
    if "list" in spec or "dict" in spec:
        return [f"--{prefix}={json.dumps(render_json(spec, 'E'))}"]
    if spec.get("c"):
        assert form in ("E", "S")
        out.append(f"--{prefix}.class_path={class_text(spec)}" if form == "E" else f"--{prefix}={class_text(spec)}")
    else:
        assert form in ("I", "F")
    return out + _dot_args(prefix, spec, form)


def _dot_args(prefix, spec, form):
    out = []
    sub = f"{prefix}.init_args" if form in ("E", "I") else prefix
    dot = sub + "." if sub else ""  # empty prefix: the parameters are top-level arguments (style "top")
    for k, v in _args_in_written_order(spec):
        if is_spec(v):
            nested_form = form if (v.get("c") or "append" in v or "key" in v or "list" in v or "dict" in v) else ("I" if form in ("E", "I") else "F")
            if v.get("c") and form in ("I", "F"):
                nested_form = "E" if form == "I" else "S"
            out += render_dot(f"{dot}{k}", v, nested_form)
        else:
            out.append(f"--{dot}{k}={txt(v)}")
    for k, v in (spec.get("k") or {}).items():
        out.append(f"--{prefix}.dict_kwargs.{k}={txt(v)}")
    return out


def textify(spec, form):
    """The spec as the dotted-argv channel delivers it: scalars given as separate options are texts; parts that
    render_dot passes as one JSON value (lists, dicts, explicit appends) keep their JSON types."""
    if not isinstance(spec, dict) or "list" in spec or "dict" in spec:
        return copy.deepcopy(spec)
    if "append" in spec:
        return copy.deepcopy(spec) if form == "E" else {"append": textify(spec["append"], "S")}
    if "key" in spec:
        return copy.deepcopy(spec) if form in ("E", "I", "F") else {"key": [spec["key"][0], textify(spec["key"][1], "S")]}
    if "last" in spec:
        return {"last": textify(spec["last"], form)}
    out = dict(spec)
    if "a" in spec:
        out["a"] = {k: (textify(v, form) if isinstance(v, dict) else (v if v is None else txt(v))) for k, v in spec["a"].items()}
    if "k" in spec:
        out["k"] = {k: txt(v) for k, v in spec["k"].items()}
    return out


# =================================================================================================
# reading the implementation's results back


def ns_items(ns):
    """(key, value) pairs of a Namespace / dict without going through dotted-key logic."""
    d = vars(ns) if not isinstance(ns, dict) else ns
    return [((k[1:] if k[:1] == "\u200b" else k), v) for k, v in d.items()]


def effective_of(value, typ, J, problems, fixed_class=None):
    """Effective configuration (same shape as M.finalize) of what the implementation parsed."""
    Namespace = J.Namespace
    kind, payload = M.split_type(typ)
    if kind == "scalar":
        return value
    if value is None:
        return None
    if kind == "list":
        if not isinstance(value, list):
            problems.append(f"expected a list, got {type(value).__name__}")
            return ["?"]
        return [effective_of(v, payload, J, problems) for v in value]
    if kind == "dict":
        if not isinstance(value, dict):
            problems.append(f"expected a dict, got {type(value).__name__}")
            return {"?": None}
        return {k: effective_of(v, payload, J, problems) for k, v in value.items()}
    members = payload[0]
    if fixed_class is None and any(isinstance(value, m) for m in members):
        return {"inst": value}
    if not isinstance(value, (Namespace, dict)):
        problems.append(f"expected a class spec, got {type(value).__name__}: {value!r}")
        return {"?": repr(value)}
    items = dict(ns_items(value))
    if fixed_class is not None:
        obj, init_args, dk = fixed_class, items, {}
    else:
        extra = set(items) - {"class_path", "init_args", "dict_kwargs"}
        if extra or "class_path" not in items:
            problems.append(f"class spec with keys {sorted(items)}")
            return {"?": sorted(items)}
        try:
            obj = M.my_import(items["class_path"])
        except M.Reject as ex:
            problems.append(f"parsed class_path {items['class_path']!r} does not import: {ex}")
            return {"?": items["class_path"]}
        init_args = dict(ns_items(items.get("init_args") or {}))
        dk = items.get("dict_kwargs") or {}
        dk = dict(ns_items(dk)) if isinstance(dk, (Namespace, dict)) else {"?": dk}
    if not (callable(obj)):
        problems.append(f"parsed class_path imports to a non-callable {obj!r}")
        return {"?": repr(obj)}
    try:
        ps, _ = M.params(obj)
    except Exception as ex:
        problems.append(f"cannot read the signature of {obj!r}: {ex}")
        return {"?": repr(obj)}
    full = {}
    for name, (ann, default) in ps.items():
        if name in init_args:
            full[name] = effective_of(init_args[name], ann, J, problems)
        else:
            full[name] = "<REQUIRED-MISSING>" if default is M.REQUIRED else default
    for name in init_args:
        if name not in ps:
            full[name] = ["<NOT-A-PARAMETER>", repr(init_args[name])]
    return {"obj": obj, "args": full, "dk": dk}


def first_difference(a, b, path=""):
    """(aspect, path, a, b) of the first difference between two described configurations, or None."""
    if isinstance(a, dict) and isinstance(b, dict) and "class" in a and "class" in b:
        if a["class"] != b["class"]:
            return ("class", path, a["class"], b["class"])
        if set(a["args"]) != set(b["args"]):
            return ("init_args", path, sorted(a["args"]), sorted(b["args"]))
        for k in a["args"]:
            d = first_difference(a["args"][k], b["args"][k], f"{path}{k}.")
            if d:
                return d if d[0] != "value" else ("init_args", d[1], d[2], d[3])
        if a.get("dict_kwargs") != b.get("dict_kwargs"):
            return ("dict_kwargs", path, a.get("dict_kwargs"), b.get("dict_kwargs"))
        return None
    if isinstance(a, list) and isinstance(b, list) and len(a) == len(b) and not (a[:1] == ["v"] or b[:1] == ["v"]):
        for i, (x, y) in enumerate(zip(a, b)):
            d = first_difference(x, y, f"{path}[{i}].")
            if d:
                return d
        return None
    if isinstance(a, dict) and isinstance(b, dict) and "__dict__" in a and "__dict__" in b:
        if set(a["__dict__"]) != set(b["__dict__"]):
            return ("shape", path, sorted(a["__dict__"]), sorted(b["__dict__"]))
        for k in a["__dict__"]:
            d = first_difference(a["__dict__"][k], b["__dict__"][k], f"{path}[{k}].")
            if d:
                return d
        return None
    if a != b:
        both_values = isinstance(a, list) and isinstance(b, list) and a[:1] == ["v"] and b[:1] == ["v"]
        return ("value" if both_values else "shape", path, a, b)
    return None


# =================================================================================================
# constructor log


def token_of(obj):
    import sys

    # the late module must never be imported as a side effect of looking a token up
    late = M.LATE_TOKENS if M.FAM_LATE in sys.modules else []
    for tok in M.CLASS_TOKENS + M.FUNC_TOKENS + late:
        if M.my_import(M.TOKENS[tok]) is obj:
            return tok
    return "?"


def check_built(eff, actual, log, problems, path="x"):
    """Compare one built object with the effective configuration; returns the index of its log record
    (or -1) and accumulates the number of records accounted for in problems['count']."""
    import inspect

    if eff is None:
        if actual is not None:
            problems["list"].append(("wrong-type", f"{path}: expected None, got {type(actual).__name__}"))
        return -1
    if isinstance(eff, list):
        if not isinstance(actual, list) or len(actual) != len(eff):
            problems["list"].append(("wrong-type", f"{path}: expected a list of {len(eff)} objects, got {actual!r}"))
            return -1
        return max([check_built(e, a, log, problems, f"{path}[{i}]") for i, (e, a) in enumerate(zip(eff, actual))] + [-1])
    if isinstance(eff, dict) and "inst" in eff:
        if actual is not eff["inst"]:
            problems["list"].append(("wrong-type", f"{path}: expected the importable instance itself, got {actual!r}"))
        return -1
    if isinstance(eff, dict) and "obj" not in eff:
        if not isinstance(actual, dict) or set(actual) != set(eff):
            problems["list"].append(("wrong-type", f"{path}: expected a dict with keys {sorted(eff)}, got {actual!r}"))
            return -1
        return max([check_built(eff[k], actual[k], log, problems, f"{path}[{k}]") for k in eff] + [-1])
    obj = eff["obj"]
    tok = token_of(obj)
    if inspect.isclass(obj):
        if type(actual) is not obj:
            problems["list"].append(("wrong-type", f"{path}: expected exactly {obj.__name__}, got {type(actual).__name__}"))
            return -1
        recs = [i for i, r in enumerate(log) if r[1] is actual]
    else:
        ret = M.return_class(obj)
        if type(actual) is not ret:
            problems["list"].append(("wrong-type", f"{path}: expected the {ret.__name__} returned by {tok}, got {type(actual).__name__}"))
            return -1
        inner = [i for i, r in enumerate(log) if r[1] is actual]
        if len(inner) != 1:
            problems["list"].append(("ctor-count", f"{path}: object returned by {tok} has {len(inner)} constructor records"))
            return -1
        problems["count"] += 1
        recs = [i for i, r in enumerate(log) if r[0] == tok and r[1] is None and i < inner[0] and i not in problems["used"]]
        recs = recs[-1:]
    if len(recs) != 1:
        problems["list"].append(("ctor-count", f"{path}: {tok} constructed {len(recs)} times"))
        return -1
    idx = recs[0]
    problems["used"].add(idx)
    problems["count"] += 1
    name, _, kw = log[idx]
    if name != tok:
        problems["list"].append(("wrong-type", f"{path}: the constructor that ran is {name}, expected {tok}"))
    want = {**eff["args"], **eff["dk"]}
    if set(kw) != set(want):
        problems["list"].append(("ctor-args", f"{path}: {tok} received {sorted(kw)}, expected {sorted(want)}"))
        return idx
    for k, w in want.items():
        got = kw[k]
        if isinstance(w, (list, dict)) or (w is not None and not isinstance(w, (bool, int, str))):
            sub = check_built(w, got, log, problems, f"{path}.{k}")
            if sub > idx:
                problems["list"].append(("order", f"{path}.{k} was built after {path}"))
        elif type(got) is not type(w) or got != w:
            kind = "nested-not-object" if isinstance(got, (dict,)) or hasattr(got, "class_path") else "ctor-args"
            problems["list"].append((kind, f"{path}: {tok} received {k}={got!r}, expected {w!r}"))
    return idx


# =================================================================================================
# one case


def build_parser(case, J, default):
    p = J.ArgumentParser(exit_on_error=False, env_prefix="C14")  # env_prefix: only names the variable of parse_env
    p.add_argument("--config", action="config")
    T = decl_type(case["t"])
    st = case.get("st", "arg")
    kw = {} if default == _NONE else {"default": default}
    if st == "arg":
        p.add_argument("--x", type=T, **kw)
    elif st == "sub":
        kind, payload = M.split_type(T)
        base = tuple(payload[0]) if len(payload[0]) > 1 else payload[0][0]
        p.add_subclass_arguments(base, "x", **kw)
    elif st == "grp":
        p.add_class_arguments(T, "x")
    elif st == "top":
        # the parameters of the class declared one by one as sibling top-level arguments, in signature order
        for name, (ann, dflt) in M.params(T)[0].items():
            if dflt is M.REQUIRED:
                p.add_argument("--" + name, type=ann, required=True)
            else:
                p.add_argument("--" + name, type=ann, default=dflt)
    else:
        raise AssertionError(st)
    return p, T


_NONE = "<no default>"


def expected_of(case, T):
    """Run the reference model over the sources.  -> ("accept", effective, trace) | ("reject", reason, trace)."""
    trace = {}
    st = case.get("st", "arg")
    state = M.Node(T) if st in ("grp", "top") else None
    implicit = None
    try:
        for n, (ch, form, spec) in enumerate(case["srcs"]):
            trace["source"] = n
            seen = textify(spec, form) if ch == "dot" else copy.deepcopy(spec)
            state = M.assign(T, state, seen, trace, implicit)
            if ch == "default":
                M.fill_defaults(state)
                if isinstance(state, M.Node):
                    implicit = state.obj
        trace["source"] = "end"
        return "accept", M.finalize(state), trace
    except M.Reject as ex:
        trace["detail"] = str(ex)
        return "reject", ex.reason, trace


def invocation(case):
    """-> (default or _NONE, "parse_args" | "parse_object", argument)."""
    global _WRITTEN_REVERSED
    _WRITTEN_REVERSED = bool(case.get("rev"))
    try:
        return _invocation(case)
    finally:
        _WRITTEN_REVERSED = False


def _invocation(case):
    default, argv, obj = _NONE, [], None
    top = case.get("st") == "top"
    for ch, form, spec in case["srcs"]:
        if top:
            assert form == "F" and ch in ("obj", "cfg", "dot") and not spec.get("c") and not spec.get("k")
            if ch == "obj":
                obj = render_json(spec, form)
            elif ch == "cfg":
                argv += ["--config", json.dumps(render_json(spec, form))]
            else:
                argv += _dot_args("", spec, form)
        elif ch == "default":
            default = render_json(spec, form)
        elif ch == "obj":
            obj = {"x": render_json(spec, form)}
        elif ch == "cfg":
            argv += ["--config", json.dumps({"x": render_json(spec, form)})]
        elif ch == "json":
            v = render_json(spec, form)
            argv.append("--x=" + (v if isinstance(v, str) else json.dumps(v)))
        elif ch == "dot":
            argv += render_dot("x", spec, form)
        else:
            raise AssertionError(ch)
    if obj is not None:
        assert not argv
        return default, "parse_object", obj
    return default, "parse_args", argv


def parse_once(case, J):
    """Fresh parser, one parse.  -> (parser, declared type, outcome, text describing the call)."""
    from mc.util import outcome

    default, method, arg = invocation(case)
    p, T = build_parser(case, J, copy.deepcopy(default))
    before = ""
    if case.get("pre"):
        # operation history: an EARLIER call, on this parser object or on another parser built the same way; whatever
        # it returns or raises is ignored - the parse under test must mean what it means on an unused parser
        pre = case["pre"]
        q = p if pre.get("on", "same") == "same" else build_parser(case, J, copy.deepcopy(default))[0]
        pm, pargs, pkw = pre_invocation(pre)
        outcome(lambda: getattr(q, pm)(*copy.deepcopy(pargs), **pkw))
        before = f"after {pm}({', '.join([repr(a) for a in pargs] + [f'{k}={v}' for k, v in pkw.items()])}) on {'the same' if q is p else 'another'} parser"
    if case.get("late"):
        # the module of the class named below becomes available only now (a plugin imported after the first use)
        import importlib

        importlib.import_module(M.FAM_LATE)
        before += f", then import {M.FAM_LATE}"
    o = outcome(getattr(p, method), copy.deepcopy(arg))
    shown = f"{method}({arg!r})" + ("" if default == _NONE else f" with default={default!r}") + (f" [{before.strip(', ')}]" if before else "")
    return p, T, o, shown


def pre_invocation(pre):
    """The earlier call of a history.  how: env (parse_env), obj0 / args0 (parse_object / parse_args with
    defaults=False), str (parse_string) - the channels in which the value is judged before the configuration has an
    entry for the argument - and obj / json / dot (the ordinary ones).  -> (method name, args, kwargs)."""
    how, form, spec = pre["how"], pre["form"], pre["spec"]
    if how == "dot":
        return "parse_args", [render_dot("x", spec, form)], {}
    v = render_json(spec, form)
    text = v if isinstance(v, str) else json.dumps(v)
    if how == "env":
        return "parse_env", [{"C14_X": text}], {}
    if how == "obj0":
        return "parse_object", [{"x": v}], {"defaults": False}
    if how == "args0":
        return "parse_args", [["--x=" + text]], {"defaults": False}
    if how == "str":
        return "parse_string", [json.dumps({"x": v})], {}
    if how == "obj":
        return "parse_object", [{"x": v}], {}
    if how == "json":
        return "parse_args", [["--x=" + text]], {}
    raise AssertionError(how)


def read_config(o, case, T, J):
    """Effective configuration of an accepted parse, read back structurally.  -> (effective, problems)."""
    problems = []
    try:
        if case.get("st") == "top":
            value = {k: v for k, v in ns_items(o["value"]) if k != "config" and not k.startswith("__")}
        else:
            value = dict(ns_items(o["value"])).get("x")
    except Exception as ex:  # noqa: BLE001
        value = None
        problems.append(f"cannot read x from the result: {ex!r}")
    fixed = T if case.get("st") in ("grp", "top") else None
    return effective_of(value, T, J, problems, fixed_class=fixed), problems


def canonical(case):
    """The same logical history with every source in the explicit notation (--x=<json dict>)."""
    srcs = []
    for ch, form, spec in case["srcs"]:
        named = isinstance(spec, dict) and spec.get("c")
        srcs.append(["default" if ch == "default" else "json", "E" if named else "I", spec])
    return {**case, "srcs": srcs}


def named_specs(spec, out):
    """Every class spec inside a logical spec (containers, nested init args) that names its class by the bare name."""
    if isinstance(spec, list):
        for s in spec:
            named_specs(s, out)
    elif isinstance(spec, dict):
        if spec.get("c") and spec.get("by") == "name":
            out.append(spec)
        for key in ("list", "append", "last", "key", "dict", "a"):
            if key in spec:
                v = spec[key]
                named_specs(list(v.values()) if isinstance(v, dict) and key in ("dict", "a") else v, out)
    return out


def by_path(case):
    """The same history with every bare class name replaced by the full class path."""
    other = copy.deepcopy(case)
    for ch, form, spec in other["srcs"]:
        for s in named_specs(spec, []):
            s["by"] = "path"
    return other


def declared_classes(typ, seen):
    """Every class that is the declared class of some class-typed position at or below a position of type `typ`."""
    kind, payload = M.split_type(typ)
    if kind in ("list", "dict"):
        declared_classes(payload, seen)
    elif kind == "class":
        for m in payload[0]:
            if m not in seen:
                seen.append(m)
                for c in M.all_subclasses(m):
                    for ann, _ in M.params(c)[0].values():
                        declared_classes(ann, seen)
    return seen


def lineage(cls, declared):
    """How `cls` descends from the declared class: direct | via-concrete | via-abstract | via-private | diamond."""
    import inspect

    between = [k for k in cls.__mro__[1:] if k is not declared and issubclass(k, declared)]

    def lines(c):
        return 1 if c is declared else sum(lines(b) for b in c.__bases__ if issubclass(b, declared))

    if any(inspect.isabstract(k) for k in between):
        return "via-abstract"
    if any(k.__name__.startswith("_") for k in between):
        return "via-private"
    if lines(cls) > 1:
        return "diamond"
    return "via-concrete" if between else "direct"


def name_only_rejection(case, T, J):
    """A valid history that names classes by their bare name was rejected: is the same history with full class paths
    accepted?  Then the root cause is the resolution of the name, and the signature says through which kind of
    intermediate classes the named class descends from the declared one.  -> signature suffix or None."""
    named = [s for ch, form, spec in case["srcs"] for s in named_specs(spec, [])]
    if not named:
        return None
    _, _, o2, _ = parse_once(by_path(case), J)
    if o2["kind"] != "ok":
        return None
    labels = {lineage_of(case["t"], T, s["c"]) for s in named}
    for lab in ("via-abstract", "via-private", "diamond", "via-concrete", "direct"):
        if lab in labels:
            return lab
    return "unrelated"


_lin_cache = {}


def lineage_of(tname, T, tok):
    """Lineage label of class token `tok` relative to the first declared class below `T` it is a subclass of."""
    key = (tname, tok)
    if key not in _lin_cache:
        cls, lab = M.my_import(M.TOKENS[tok]), None
        for d in declared_classes(T, []):
            if isinstance(cls, type) and issubclass(cls, d):
                lab = lineage(cls, d)
                break
        _lin_cache[key] = lab
    return _lin_cache[key]


def check_instances(p, cfg, eff, shown, devs, stat, top=False):
    """instantiate_classes on an accepted configuration, judged by the constructor log."""
    from mc.util import outcome

    f = M.fam()
    if not M.instantiable(eff):
        stat("not_instantiable")
        return
    f.reset()
    oi = outcome(p.instantiate_classes, cfg)
    log = list(f.LOG)
    f.reset()
    if oi["kind"] != "ok":
        devs.append((f"instantiate:raises:{oi.get('type', oi['kind'])}", f"{shown} then instantiate_classes: {oi.get('message', '')}"))
        return
    stat("instantiated")
    pr = {"list": [], "count": 0, "used": set()}
    if top:
        # sibling top-level arguments: every class-typed one is built on its own, nothing holds them
        try:
            items = {k: v for k, v in ns_items(oi["value"]) if k != "config" and not k.startswith("__")}
        except Exception:  # noqa: BLE001
            items = {}
        if set(items) != set(eff["args"]):
            pr["list"].append(("wrong-type", f"result has the keys {sorted(items)}, expected {sorted(eff['args'])}"))
        else:
            for k, w in eff["args"].items():
                if isinstance(w, (list, dict)):
                    check_built(w, items[k], log, pr, k)
                elif type(items[k]) is not type(w) or items[k] != w:
                    pr["list"].append(("ctor-args", f"{k}={items[k]!r} after instantiate_classes, expected {w!r}"))
    else:
        try:
            actual = dict(ns_items(oi["value"])).get("x")
        except Exception:  # noqa: BLE001
            actual = None
        check_built(eff, actual, log, pr)
    if not pr["list"] and pr["count"] != len(log):
        pr["list"].append(("ctor-count", f"{len(log)} constructor/factory calls logged, {pr['count']} expected: {[r[0] for r in log]}"))
    if len(log) > 1:
        stat("nested_built")
    for kind, detail in pr["list"][:1]:
        devs.append((f"instantiate:{kind}", f"{shown}: {detail}; log {[(r[0], _kw(r[2])) for r in log]}"))


def evaluate(case):
    """-> (deviations [(signature, detail)], stats dict)."""
    devs, stats = _evaluate(case)
    if devs and case.get("pre") and not case.get("late"):
        # the parse ran on a used parser: if the same history on an unused parser is judged fine, the root cause is
        # that the earlier call left something behind - one signature per kind of symptom, whatever the type / notation
        plain = {k: v for k, v in case.items() if k != "pre"}
        if not _evaluate(plain)[0]:
            devs = [(f"used-parser-differs:{sig.split(':', 1)[0]}", f"{d}; the same on an unused parser is as the model says") for sig, d in devs]
    return devs, stats


def _evaluate(case):
    import jsonargparse as J

    M.ensure_loaded()
    stats = {}

    def stat(k):
        stats[k] = stats.get(k, 0) + 1

    devs = []
    p, T, o, shown = parse_once(case, J)
    verdict, exp, trace = expected_of(case, T)
    multi = ":class-change" if trace.get("class_change") else ""
    kind = type_kind(case)
    last_ch, last_form, _ = case["srcs"][-1]
    if o["kind"] in ("escape", "timeout", "exit"):
        devs.append((f"escape:{o.get('type', o['kind'])}:parse", f"{shown}: {o.get('message', '')}"))
        return devs, stats
    if trace.get("stale_dk"):
        # dict_kwargs of a previous class at a class change: neither the statement nor the documentation says what
        # becomes of them, so the model does not judge; what IS required is that every notation of the same history
        # means the same, so the case is compared with its own explicit-notation rendering.
        stat("differential_only")
        canon = canonical(case)
        mine = ("reject",) if o["kind"] != "ok" else ("accept",) + tuple(read_config(o, case, T, J))
        if canon != case:
            p2, _, o2, shown2 = parse_once(canon, J)
            other = ("reject",) if o2["kind"] != "ok" else ("accept",) + tuple(read_config(o2, canon, T, J))
            a = mine[0] if mine[0] == "reject" else M.describe(mine[1])
            b = other[0] if other[0] == "reject" else M.describe(other[1])
            if a != b:
                devs.append(("notation-differs:dict_kwargs-after-class-change", f"{shown} -> {a!r} but the explicit notation {shown2} -> {b!r}"))
                return devs, stats
        if mine[0] == "accept":
            stat("accepted")
            if mine[2]:
                devs.append((f"config-differs:shape:{kind}{multi}", f"{shown}: {mine[2][0]}; parsed {_show(o['value'], J)}"))
            else:
                check_instances(p, o["value"], mine[1], shown, devs, stat, top=case.get("st") == "top")
        else:
            stat("rejected")
        return devs, stats
    if verdict == "reject":
        stat("model_reject:" + exp)
        if o["kind"] == "ok":
            got = J.strip_meta(o["value"])
            devs.append((f"accept-invalid:{exp}{multi}", f"{shown} accepted as {_show(got, J)}; model: {trace.get('detail')}"))
        else:
            stat("rejected")
        return devs, stats
    stat("model_accept")
    # histories the MODEL accepts on a used parser / after a late import (counted here, before the implementation is
    # looked at, for the same reason: a tree that wrongly rejects them must end in VIOLATION, not in a vacuity error)
    if case.get("pre"):
        stat("used_parser_accepted" if case["pre"].get("on", "same") == "same" else "used_library_accepted")
    if case.get("late"):
        stat("late_class_accepted")
    # lineage of the classes given by their bare name in a history the MODEL accepts (counted whatever the
    # implementation does with it, so that the vacuity guards speak about the space, not about the tree under test)
    for lab in {lineage_of(case["t"], T, s["c"]) for ch, form, spec in case["srcs"] for s in named_specs(spec, [])}:
        stat(f"name_only_valid:{lab}")
    if o["kind"] == "ArgumentError":
        if trace.get("classless_in_resized"):
            # one root cause of its own: an element without class_path in a list / dict given again with another
            # length (or after an empty one) - named by that shape, whatever the notation and the declared type
            devs.append(("reject-valid:classless-element-in-resized-container", f"{shown} rejected: {o['message'][:300]}; model expects {M.describe(exp)}"))
            return devs, stats
        lin = name_only_rejection(case, T, J)
        if lin:
            # short form "class name only" refused where the full class path of the same class is accepted
            devs.append((f"reject-valid:name-only:{lin}", f"{shown} rejected: {o['message'][:300]}; the same with full class paths is accepted; model expects {M.describe(exp)}"))
            return devs, stats
        devs.append((f"reject-valid:form-{last_form}:{kind}{multi}", f"{shown} rejected: {o['message'][:300]}; model expects {M.describe(exp)}"))
        return devs, stats
    stat("accepted")
    if case.get("st") == "top":
        stat("toplevel_accepted")
    for k in ("kept", "dropped", "class_change", "regiven"):
        if trace.get(k):
            stat(k)
    cfg = o["value"]
    got_eff, problems = read_config(o, case, T, J)
    want_d, got_d = M.describe(exp), M.describe(got_eff)
    if problems:
        devs.append((f"config-differs:shape:{kind}{multi}", f"{shown}: {problems[0]}; parsed {_show(cfg, J)}"))
        return devs, stats
    diff = first_difference(want_d, got_d)
    if diff:
        aspect, where, w, g = diff
        if aspect == "dict_kwargs" and trace.get("elem_prev_dk") and not multi and isinstance(w, dict) and not g:
            # one root cause of its own: a container element that carries dict_kwargs is addressed again by a later
            # source (same class) and comes out without any - whatever the container and the notation (a result that
            # has SOME dict_kwargs but not the model's is reported by the general signature below)
            devs.append(("config-differs:dict_kwargs-of-container-element-lost", f"{shown}: at x.{where} model {w!r}, parsed {g!r}; parsed config {_show(cfg, J)}"))
            return devs, stats
        devs.append((f"config-differs:{aspect}:{kind}{multi}", f"{shown}: at x.{where} model {w!r}, parsed {g!r}; parsed config {_show(cfg, J)}"))
        return devs, stats
    if want_d is not None and not (isinstance(want_d, dict) and "instance" in want_d):
        stat("nontrivial")
    check_instances(p, cfg, exp, shown, devs, stat, top=case.get("st") == "top")
    return devs, stats


def type_kind(case):
    t = case["t"]
    kind = {"OptBase": "optional", "UnionBO": "union", "ListBase": "list", "DictBase": "dict", "ListKw": "list", "DictKw": "dict"}.get(t, "holder" if t.startswith("Hold") else "single")
    return kind + {"grp": "-group", "top": "-toplevel"}.get(case.get("st"), "")


def _kw(kw):
    return {k: (v if isinstance(v, (int, str, bool, type(None))) else type(v).__name__) for k, v in kw.items()}


def _show(cfg, J):
    try:
        return json.dumps(J.namespace_to_dict(cfg) if isinstance(cfg, J.Namespace) else cfg, default=repr, sort_keys=True)[:400]
    except Exception:  # noqa: BLE001
        return repr(cfg)[:400]


def run_case(case):
    devs, _ = evaluate(case)
    return [{"signature": s, "detail": d} for s, d in devs]


def worker(batch):
    out = {"devs": [], "stats": {}, "n": 0}
    for case in batch:
        devs, stats = evaluate(case)
        out["n"] += 1
        for s, d in devs:
            out["devs"].append((s, case, d))
        for k, v in stats.items():
            out["stats"][k] = out["stats"].get(k, 0) + v
    return out


# =================================================================================================
# exploration


def _chunks(it, n):
    buf = []
    for x in it:
        buf.append(x)
        if len(buf) == n:
            yield buf
            buf = []
    if buf:
        yield buf


def _renderable(case):
    try:
        invocation(case)
        if case.get("pre"):
            pre_invocation(case["pre"])
        return True
    except AssertionError:
        return False


def explore(ctx):
    from mc.checks import c14_space as S
    from mc.core import case_id

    import os

    quick = ctx.quick
    M.ensure_loaded()
    totals, fam_counts, seen = {}, {}, set()
    n_cases = dropped = 0
    only = [f for f in os.environ.get("C14_FAMILIES", "").split(",") if f]  # developer knob; the run is then not exhaustive
    for name, gen in S.FAMILIES:
        if only and name not in only:
            continue
        cases = []
        for c in gen(quick):
            cid = case_id(c)
            if cid in seen:
                continue
            seen.add(cid)
            if not _renderable(c):
                dropped += 1
                continue
            cases.append(c)
        fam_counts[name] = len(cases)
        for k in (0, len(cases) // 2):
            if cases:
                ctx.sample(cases[k], limit=20)
        for out in ctx.pmap(worker, list(_chunks(cases, 50)), chunk=1):
            n_cases += out["n"]
            for s, case, d in out["devs"]:
                ctx.deviation(s, case, d)
            for k, v in out["stats"].items():
                totals[k] = totals.get(k, 0) + v
                totals[name + "/" + k] = totals.get(name + "/" + k, 0) + v if k in ("accepted", "rejected", "instantiated") else 0
    for k, v in sorted(totals.items()):
        if v:
            ctx.count(k, v)
    for k, v in fam_counts.items():
        ctx.count("cases_" + k, v)
    ctx.count("not_renderable_dropped", dropped)
    rejected_reasons = {k.split(":", 1)[1]: v for k, v in totals.items() if k.startswith("model_reject:")}
    ctx.cover(
        states=n_cases,
        transitions=n_cases + totals.get("instantiated", 0),
        traces_validated_against_impl=n_cases,
        evaluations=n_cases,
        distinct_nontrivial=totals.get("nontrivial", 0) + sum(rejected_reasons.values()),
        rule="one evaluation = one fresh parser + one parse (+ instantiate_classes when accepted) compared with the "
        "reference model; cases are distinct by construction (deduplicated by case id); non-trivial = the model "
        "rejects the input, or it is accepted with a class spec (not null / importable instance) whose parsed "
        "configuration was compared field by field",
        exhaustive=not only,
        caps_hit=[f"C14_FAMILIES={','.join(only)}: only these families were enumerated"] if only else [],
        bounds={
            "families": fam_counts,
            "declared_types": TYPE_NAMES,
            "class_tokens": len(M.TOKENS),
            "sources_per_case": "1-3",
            "list_length": 2 if quick else 3,
            "lineage": "named class below the declared one: directly, via a concrete / one or two abstract / a private intermediate class, along two lines (diamond); abstract intermediate below an abstract and below a concrete root",
            "sibling_positions": "HoldPair(inner, inner2) / HoldPairR(inner2, inner): nested class, class group, top-level arguments",
            "regiven_containers": "List/Dict of 0-3 elements given again: elements x {own, shared, foreign init arg without class_path, same class, other class}"
            + (" (3 elements: single-position mutations + uniform; first containers: rotations)" if quick else " (full product, all permutations)")
            + ", shrunk / grown / from empty / to empty, --x.<key>=<json>, --x.<param>=v on the last element",
            "used_parser": "an earlier call on the same parser object (result ignored) giving another class / the same class / init args only / an invalid class / null, via parse_env, parse_object and parse_args with defaults=False, parse_string, parse_object, --x=<json>, dotted options; then a history of default + 0-1 sources",
            "late_classes": "module mc.fixtures.c14.late imported between an earlier parse (same / another parser; class named by bare name / by path) and the parse under test, its classes (direct, via concrete, via abstract, below an abstract root) named by bare name and by path; also nested, as list / dict element, add_subclass_arguments, after a class change",
            "element_dict_kwargs": "List[Kw] / Dict[str,Kw] elements with dict_kwargs addressed again: last-element options, single-key sources, whole container again (class-less / same class, with / without own dict_kwargs)",
            "value_alphabet": {"valid": S.VALID, "invalid": S.INVALID},
        },
        model_reject_reasons=rejected_reasons,
    )
    ctx.assume("a str given for a non-str parameter is read as JSON/YAML before it is judged (all channels)")
    ctx.assume("class change between sources keeps the init args that are valid for the new class and drops the others")
    ctx.assume("the argument default is a source that carries the class' own parameter defaults explicitly")
    ctx.assume("a whole list / dict given again replaces the previous one; its elements correspond to the previous ones by index "
               "(list of unchanged length) / by key, otherwise an element has no previous class")  # fmt: skip
    if only:
        ctx.require(n_cases > 0, "the selected families are not empty")
        return
    ctx.require(totals.get("accepted", 0) >= 2000, ">= 2000 accepted cases")
    ctx.require(totals.get("rejected", 0) >= 2000, ">= 2000 rejected cases")
    ctx.require(totals.get("instantiated", 0) >= 1500, ">= 1500 instantiated configurations")
    ctx.require(totals.get("nested_built", 0) >= 300, ">= 300 configurations with nested / factory-built objects")
    ctx.require(totals.get("kept", 0) >= 100 and totals.get("dropped", 0) >= 100, "class changes both keep and drop init args (>= 100 each)")
    ctx.require(totals.get("not_instantiable", 0) >= 20, "abstract / unbindable configurations occur")
    ctx.require(totals.get("differential_only", 0) >= 100, ">= 100 dict_kwargs-after-class-change histories judged by the notation differential")
    ctx.require(totals.get("regiven", 0) >= 300, ">= 300 accepted histories in which a whole list / dict of classes is given again")
    ctx.require(totals.get("toplevel_accepted", 0) >= 60, ">= 60 accepted cases with sibling class-typed top-level arguments")
    ctx.require(totals.get("siblings/instantiated", 0) >= 200 and totals.get("recontainer/instantiated", 0) >= 200, "siblings and recontainer families: >= 200 instantiated configurations each")
    ctx.require(totals.get("used_parser_accepted", 0) >= 300, ">= 300 model-valid histories on a parser that was used before")
    ctx.require(totals.get("used_library_accepted", 0) >= 50, ">= 50 model-valid histories after an earlier parse on another parser")
    ctx.require(totals.get("late_class_accepted", 0) >= 150, ">= 150 model-valid histories naming a class of a module imported after an earlier parse")
    ctx.require(totals.get("elem_kwargs/instantiated", 0) >= 50, "elem_kwargs family: >= 50 instantiated configurations")
    for lab in ("direct", "via-concrete", "via-abstract", "via-private", "diamond"):
        ctx.require(totals.get("name_only_valid:" + lab, 0) >= 10, f">= 10 valid histories name a class by its bare name that descends from the declared class {lab}")
    for reason in ("wrong-class", "callable-return-not-subclass", "not-a-class:module", "not-a-class:object", "not-importable",
                   "unknown-init-arg", "ill-typed-init-arg", "missing-required", "ambiguous-name", "unresolvable-name", "no-implicit-class"):  # fmt: skip
        ctx.require(rejected_reasons.get(reason, 0) >= 10, f"model rejection reason {reason} occurs >= 10 times")
    for name in fam_counts:
        ctx.require(totals.get(name + "/accepted", 0) > 0 and totals.get(name + "/rejected", 0) > 0, f"family {name} has accepted and rejected cases")
