"""C19 environment (1): the virtual file system.

`os.stat`, `os.lstat`, `os.access` (and `os.readlink`) are answered from an abstract file state for every path below a
prefix that does not exist on the real file system; `os.path.isdir / isfile / exists / realpath` are Python code on POSIX
and follow.  Calls that the model does not answer (open, listdir, chdir, mkdir ... on a virtual path) raise
`VfsUnmodelled`, so that a tree under test which consults the file system in another way is noticed instead of silently
seeing "no such file".

The abstract state is the chain   PREFIX (always a searchable directory; its W bit is part of the state)
                                  PREFIX/g      grandparent   missing | regular file | directory x (R, W, X)
                                  PREFIX/g/p    parent        missing | regular file | directory x (R, W, X)
                                  PREFIX/g/p/leaf             missing | {file, dir, fifo} x (R, W, X)
restricted to the mutually consistent combinations: a node exists only below a directory; below a directory
without the X (search) bit every lookup fails with EACCES, so nothing is distinguishable there (one state).
"""
from __future__ import annotations

import builtins
import contextlib
import errno
import itertools
import os
import stat

PREFIX = "/c19vfs"
G, P, LEAF = PREFIX + "/g", PREFIX + "/g/p", PREFIX + "/g/p/leaf"

KINDBITS = {"dir": stat.S_IFDIR, "file": stat.S_IFREG, "fifo": stat.S_IFIFO}


class VfsUnmodelled(Exception):
    """The code under test asked the file system something the abstract state does not answer."""


# -----------------------------------------------------------------------------------------------------
# the abstract states


def _perms():
    return [list(t) for t in itertools.product([True, False], repeat=3)]


def all_states(full_ancestor_perms=True):
    """Every mutually consistent abstract state, simplest first (JSON values).

    state = {"vw": bool, "g": node, "p": node, "leaf": node}; node = None (no such entry) or [kind, R, W, X].
    With full_ancestor_perms=False the R answer of the two ancestor directories is fixed to True (W and X stay free)."""
    ancestors = [None, ["file", True, True, False]] + [["dir"] + p for p in _perms() if full_ancestor_perms or p[0]]
    leaves = [None] + [[k] + p for k in ("file", "dir", "fifo") for p in _perms()]
    out = []
    for vw in (True, False):
        for g in ancestors:
            g_open = g is not None and g[0] == "dir" and g[3]
            for p in ancestors if g_open else [None]:
                p_open = p is not None and p[0] == "dir" and p[3]
                for leaf in leaves if p_open else [None]:
                    out.append({"vw": vw, "g": g, "p": p, "leaf": leaf})
    out.sort(key=lambda s: (sum(x is not None for x in (s["g"], s["p"], s["leaf"])), repr(s)))
    return out


def nodes_of(state):
    nodes = {PREFIX: ["dir", True, bool(state["vw"]), True]}
    for key, path in (("g", G), ("p", P), ("leaf", LEAF)):
        if state.get(key) is not None:
            nodes[path] = list(state[key])
    return nodes


# -----------------------------------------------------------------------------------------------------
# the kernel's path walk over the abstract state (no symbolic links in the model)


def lookup(nodes, path):
    """Return the node `path` names or raise the OSError the kernel would raise."""
    path = os.fspath(path)
    parts = path.split("/")
    trailing = path.endswith("/") or parts[-1] in (".", "..")
    parts = [p for p in parts if p]
    stack = []
    node = ["dir", True, True, True]  # "/" (only PREFIX lives in it)
    for i, part in enumerate(parts):
        # stepping through `node` requires it to be a searchable directory
        if node[0] != "dir":
            raise NotADirectoryError(errno.ENOTDIR, os.strerror(errno.ENOTDIR), path)
        if not node[3]:
            raise PermissionError(errno.EACCES, os.strerror(errno.EACCES), path)
        if part == ".":
            continue
        if part == "..":
            if stack:
                stack.pop()
        else:
            stack.append(part)
        key = "/" + "/".join(stack)
        node = ["dir", True, True, True] if not stack else nodes.get(key)
        if node is None:
            raise FileNotFoundError(errno.ENOENT, os.strerror(errno.ENOENT), path)
    if trailing and node[0] != "dir":
        raise NotADirectoryError(errno.ENOTDIR, os.strerror(errno.ENOTDIR), path)
    return node


def _errclass(ex):
    return {errno.ENOENT: "missing", errno.ENOTDIR: "notdir", errno.EACCES: "noaccess"}.get(ex.errno, "oserror")


def _node_fact(nodes, path):
    try:
        node = lookup(nodes, path)
    except OSError as ex:
        return {"kind": _errclass(ex), "W": False}, None
    return {"kind": node[0], "W": bool(node[2])}, node


def facts_for(nodes, abs_path):
    """Facts (see c19_oracle) about a normalised absolute virtual path, read off the abstract state."""
    fact, node = _node_fact(nodes, abs_path)
    facts = {
        "kind": fact["kind"],
        "R": bool(node and node[1]),
        "W": bool(node and node[2]),
        "X": bool(node and node[3]),
    }
    parent = os.path.dirname(abs_path)
    facts["parent"], _ = _node_fact(nodes, parent)
    cur = parent
    while True:
        fact, node = _node_fact(nodes, cur)
        if node is not None or cur == "/":
            facts["nearest"] = fact
            break
        cur = os.path.dirname(cur)
    return facts


# -----------------------------------------------------------------------------------------------------
# interposition on the stdlib seams


class Vfs:
    def __init__(self):
        self._nodes = {}
        self.cache = {}  # path -> os.stat_result | OSError (answers are a pure function of the state)
        self.calls = 0
        self.asked = set()

    @property
    def nodes(self):
        return self._nodes

    @nodes.setter
    def nodes(self, value):
        self._nodes = value
        self.cache = {}

    def answer(self, path):
        """(node, stat_result) for a virtual path, or raises the kernel's OSError; memoised per state."""
        hit = self.cache.get(path)
        if hit is None:
            try:
                node = lookup(self._nodes, path)
            except OSError as ex:
                hit = ex
            else:
                kind, r, w, x = node
                mode = KINDBITS[kind] | (0o400 if r else 0) | (0o200 if w else 0) | (0o100 if x else 0)
                hit = (node, os.stat_result((mode, 1, 1, 1, 0, 0, 0, 0, 0, 0)))
            self.cache[path] = hit
        if type(hit) is tuple:
            return hit
        raise type(hit)(hit.errno, hit.strerror, hit.filename)


_PREFIX_SLASH = PREFIX + "/"


def _is_virtual(path):
    if type(path) is str:
        return path.startswith(_PREFIX_SLASH) or path == PREFIX
    if isinstance(path, bytes):
        path = os.fsdecode(path)
    elif not isinstance(path, str):
        if isinstance(path, int):
            return False
        try:
            path = os.fspath(path)
        except TypeError:
            return False
    return path == PREFIX or path.startswith(PREFIX + "/")


@contextlib.contextmanager
def installed():
    """Replace the stdlib seams for the duration; yields the Vfs whose `.nodes` the caller sets per state."""
    if os.path.lexists(PREFIX):
        raise RuntimeError(f"{PREFIX} exists on the real file system")
    vfs = Vfs()
    real = {n: getattr(os, n) for n in ("stat", "lstat", "access", "readlink", "listdir", "scandir", "open", "chdir", "mkdir", "makedirs")}
    real_open = builtins.open

    def v_stat(path, *a, **k):
        if _is_virtual(path):
            vfs.calls += 1
            vfs.asked.add("stat")
            return vfs.answer(os.fspath(path))[1]
        return real["stat"](path, *a, **k)

    def v_lstat(path, *a, **k):
        if _is_virtual(path):
            return v_stat(path)
        return real["lstat"](path, *a, **k)

    def v_access(path, mode, *a, **k):
        if _is_virtual(path):
            vfs.calls += 1
            vfs.asked.add("access")
            try:
                node = vfs.answer(os.fspath(path))[0]
            except OSError:
                return False
            if mode & os.R_OK and not node[1]:
                return False
            if mode & os.W_OK and not node[2]:
                return False
            if mode & os.X_OK and not node[3]:
                return False
            return True
        return real["access"](path, mode, *a, **k)

    def v_readlink(path, *a, **k):
        if _is_virtual(path):
            vfs.answer(os.fspath(path))
            raise OSError(errno.EINVAL, os.strerror(errno.EINVAL), os.fspath(path))
        return real["readlink"](path, *a, **k)

    def unmodelled(name, fn):
        def wrapper(path, *a, **k):
            if _is_virtual(path):
                raise VfsUnmodelled(f"os.{name}({os.fspath(path)!r}) is not answered by the virtual file system")
            return fn(path, *a, **k)

        return wrapper

    def v_open(file, *a, **k):
        if _is_virtual(file):
            raise VfsUnmodelled(f"open({os.fspath(file)!r}) is not answered by the virtual file system")
        return real_open(file, *a, **k)

    os.stat, os.lstat, os.access, os.readlink = v_stat, v_lstat, v_access, v_readlink
    for name in ("listdir", "scandir", "open", "chdir", "mkdir", "makedirs"):
        setattr(os, name, unmodelled(name, real[name]))
    builtins.open = v_open
    try:
        yield vfs
    finally:
        for name, fn in real.items():
            setattr(os, name, fn)
        builtins.open = real_open
