"""C20 part D - secret strings never appear in anything the parser produces.

Product: secret text x secret type (jsonargparse.typing.SecretStr, pydantic.SecretStr) x type wrapper x way of
supplying the secret x parser mode; per case every output is produced on the real code and searched for the secret
(whole text, its whitespace-separated fragments, JSON-escaped forms).
"""
from __future__ import annotations

import copy
import json
import os

SECRET_TYPES = ["jsa", "pyd"]
WRAPPERS = ["plain", "optional", "list", "dict", "dataclass", "optional-dataclass"]
SUPPLIES = ["argv", "object", "cfgstring", "cfgfile", "default", "env", "default_config_file"]
MODES = ["yaml", "json"]
SECRETS = [
    "Zq7wsEcReTy",
    "7391846205",
    "73918e462",
    "Zq7w sEcx ReTy",
    "Zq7w:sEcx#ReTy",
    "Zq7wséçReTy",
    "Zq7w\nReTy",
    "[Zq7w, ReTy]",
]
SECRETS_THOROUGH = ["{Zq7w: ReTy}", "Zq7w'ReTy\"Xk9", "-Zq7wReTy", "Zq7w\\ReTy", "  Zq7wReTy  ", "0x7391AbCd", "Zq7w%ReTy&Xk9v"]
DUMP_FORMATS = ["yaml", "json", "json_indented", "yaml_comments", "toml"]


def secrets(tier):
    return SECRETS if tier == "quick" else SECRETS + SECRETS_THOROUGH


def needles(secret):
    out = {secret}
    out |= {frag for frag in secret.replace("\n", " ").split() if len(frag) >= 4}
    for n in list(out):
        out.add(json.dumps(n)[1:-1])
        out.add(json.dumps(n, ensure_ascii=False)[1:-1])
    # fragments between punctuation (a leak may be re-quoted / escaped by an output format)
    import re

    out |= {frag for frag in re.split(r"[^0-9A-Za-z]+", secret) if len(frag) >= 4}
    return sorted(out)


def leaks(secret, text):
    if not isinstance(text, str):
        text = repr(text)
    return [n for n in needles(secret) if n in text]


def _types(stype, wrapper):
    from typing import Dict, List, Optional

    from mc.fixtures.c20 import accounts

    if stype == "jsa":
        from jsonargparse.typing import SecretStr as S

        Account = accounts.AccountJsa
    else:
        from pydantic import SecretStr as S

        Account = accounts.AccountPyd
    T = {
        "plain": S, "optional": Optional[S], "list": List[S], "dict": Dict[str, S],
        "dataclass": Account, "optional-dataclass": Optional[Account],
    }[wrapper]  # fmt: skip
    return S, Account, T


def _value(wrapper, secret):
    if wrapper in ("plain", "optional"):
        return secret
    if wrapper == "list":
        return [secret]
    if wrapper == "dict":
        return {"k": secret}
    return {"token": secret, "n": 2}


def _instance(wrapper, secret, S, Account):
    if wrapper in ("plain", "optional"):
        return S(secret)
    if wrapper == "list":
        return [S(secret)]
    if wrapper == "dict":
        return {"k": S(secret)}
    return Account(token=S(secret), n=2)


def _text(wrapper, secret):
    v = _value(wrapper, secret)
    return v if isinstance(v, str) else json.dumps(v)


def run_one(case):
    """-> {"outputs": {name: leaked needles}, "ops": n, "produced": [names], "skipped": reason or None}"""
    import jsonargparse as J
    from mc.util import outcome, restored_process_state, scratch_dir

    stype, wrapper, supply, mode, secret = (case[k] for k in ("stype", "wrapper", "supply", "mode", "secret"))
    S, Account, T = _types(stype, wrapper)
    found, produced = {}, []
    ops = 0

    def see(name, text):
        produced.append(name)
        hit = leaks(secret, text)
        if hit:
            found[name] = (hit, text if isinstance(text, str) else repr(text))

    def see_outcome(name, o):
        # everything observable of one call: returned text, stdout, stderr, error message
        parts = [str(o.get(k, "")) for k in ("stdout", "stderr", "message")]
        if o["kind"] == "ok" and isinstance(o["value"], str):
            parts.append(o["value"])
        see(name, "\n".join(parts))

    with restored_process_state(), scratch_dir(chdir=True) as d:
        cfg_text = json.dumps({"s": _value(wrapper, secret)})
        cfg_path = os.path.join(d, "in.json")
        with open(cfg_path, "w") as f:
            f.write(cfg_text)

        def build(exit_on_error=False):
            kw = {}
            if supply == "env":
                kw.update(default_env=True, env_prefix="C20APP")
            if supply == "default_config_file":
                kw.update(default_config_files=[cfg_path])
            p = J.ArgumentParser(exit_on_error=exit_on_error, parser_mode=mode, prog="app", **kw)
            p.add_argument("--cfg", action=J.ActionConfigFile)
            akw = {}
            if supply == "default":
                akw["default"] = _instance(wrapper, secret, S, Account)
            p.add_argument("--s", type=T, **akw)
            p.add_argument("--n", type=int, default=0)
            return p

        if supply == "env":
            os.environ["C20APP_S"] = _text(wrapper, secret)
        argv = {"argv": ["--s=" + _text(wrapper, secret)], "cfgfile": ["--cfg", cfg_path]}.get(supply, [])

        def parse(p, bad_n=False, extra=None):
            if supply == "object":
                obj = {"s": copy.deepcopy(_value(wrapper, secret))}
                if bad_n:
                    obj["n"] = "bad"
                if extra:
                    obj.update(extra)
                return outcome(p.parse_object, obj)
            if supply == "cfgstring":
                obj = {"s": _value(wrapper, secret)}
                if bad_n:
                    obj["n"] = "bad"
                if extra:
                    obj.update(extra)
                return outcome(p.parse_string, json.dumps(obj))
            return outcome(p.parse_args, argv + (["--n=bad"] if bad_n else []) + (extra or []))

        parser = build()
        o = parse(parser)
        ops += 1
        if o["kind"] != "ok":
            # (an error message about the secret argument's own invalid value is not judged: it echoes the input)
            return {"outputs": {}, "ops": ops, "produced": [], "skipped": "%s: %s" % (o["kind"], o.get("type", ""))}
        cfg = o["value"]
        # the secret really is in the configuration (otherwise nothing below means anything)
        holder = cfg.s
        if wrapper == "list":
            holder = holder[0]
        elif wrapper == "dict":
            holder = holder["k"]
        elif wrapper in ("dataclass", "optional-dataclass"):
            holder = holder["token"] if isinstance(holder, dict) else getattr(holder, "token", holder)
        held = holder.get_secret_value() if hasattr(holder, "get_secret_value") else None
        if not isinstance(holder, S) or (isinstance(held, str) and held != secret):
            return {"outputs": {}, "ops": ops, "produced": [], "skipped": "secret not held: %r" % (holder,)}

        for fmt in DUMP_FORMATS:
            o = outcome(parser.dump, cfg, format=fmt)
            ops += 1
            see_outcome("dump:" + fmt, o)
        for kw_name, kw in (("skip_none", {"skip_none": False}), ("skip_default", {"skip_default": True}),
                            ("no_check", {"skip_validation": True})):
            o = outcome(parser.dump, cfg, **kw)
            ops += 1
            see_outcome("dump:" + kw_name, o)
        for fmt, name in (("parser_mode", "out.cfg"), ("json_indented", "out.json")):
            path = os.path.join(d, name)
            o = outcome(parser.save, cfg, path, format=fmt, overwrite=True)
            ops += 1
            see_outcome("save:" + fmt, o)
            if os.path.exists(path):
                with open(path) as f:
                    see("save:" + fmt + ":file", f.read())
        see("repr:cfg", repr(cfg))
        see("repr:str", str(cfg))
        see("repr:value", repr(cfg.s) + str(cfg.s) + format(cfg.s))
        see("repr:as_dict", repr(cfg.as_dict()) + str(J.namespace_to_dict(cfg)))
        see("repr:clone", repr(cfg.clone()))
        ops += 5
        if supply in ("argv", "cfgfile", "default", "env", "default_config_file"):
            for flag in ("--print_config", "--print_config=comments", "--print_config=skip_null"):
                o = outcome(build(exit_on_error=True).parse_args, argv + [flag])
                ops += 1
                see_outcome("print_config:" + flag[15:].lstrip("="), o)
            o = outcome(build(exit_on_error=True).parse_args, argv + ["--help"])
            ops += 1
            see_outcome("help", o)
            # neighbouring invalid key, default error mode: usage + message on stderr, exit status 2
            o = outcome(build(exit_on_error=True).parse_args, argv + ["--n=bad"])
            ops += 1
            see_outcome("error-neighbour:exit", o)
        o = parse(build(), bad_n=True)
        ops += 1
        see_outcome("error-neighbour", o)
        if supply in ("object", "cfgstring"):
            o = parse(build(), extra={"zzz": 1})
            ops += 1
            see_outcome("error-unknown-key", o)
        else:
            o = parse(build(), extra=["--zzz=1"])
            ops += 1
            see_outcome("error-unknown-key", o)
        if wrapper in ("dataclass", "optional-dataclass") and supply in ("argv", "object", "cfgstring"):
            bad = {"token": secret, "n": "bad"}
            p = build()
            if supply == "argv":
                o = outcome(p.parse_args, ["--s=" + json.dumps(bad)])
            elif supply == "object":
                o = outcome(p.parse_object, {"s": bad})
            else:
                o = outcome(p.parse_string, json.dumps({"s": bad}))
            ops += 1
            see_outcome("error-sibling-field", o)
        if supply == "env":
            os.environ["C20APP_N"] = "bad"
            o = outcome(build().parse_args, [])
            ops += 1
            see_outcome("error-neighbour:env", o)
    return {"outputs": found, "ops": ops, "produced": produced, "skipped": None}


def signatures(case, found):
    devs = []
    for name, (hit, text) in sorted(found.items()):
        cls = name.split(":")[0]
        sig = "secret-leak:" + cls
        if cls.startswith("error"):
            # Error messages are not dumps: the statement only says that secrets never appear in any *dump*.
            # An error that echoes the user's own input (incl. a secret sibling field) is recorded by the
            # coordinator as an observation outside the property (DESIGN.md section 10), never as a deviation.
            continue
        devs.append((sig, "%s contains %r: %s" % (name, hit[0], text[-300:])))
    return devs


def cases(tier):
    out = []
    for secret in secrets(tier):
        for stype in SECRET_TYPES:
            for wrapper in WRAPPERS:
                for supply in SUPPLIES:
                    for mode in MODES:
                        out.append({"part": "secret", "stype": stype, "wrapper": wrapper, "supply": supply,
                                    "mode": mode, "secret": secret})
    return out


def run_batch(batch):
    res = {"devs": [], "evals": 0, "ops": 0, "inputs": 0, "skipped": {}, "produced": set(), "held": 0}
    for case in batch:
        r = run_one(case)
        res["inputs"] += 1
        res["ops"] += r["ops"]
        if r["skipped"]:
            key = "%s/%s/%s" % (case["stype"], case["wrapper"], case["supply"])
            res["skipped"][key] = r["skipped"]
            continue
        res["held"] += 1
        res["evals"] += len(r["produced"])
        res["produced"] |= {p.split(":")[0] for p in r["produced"]}
        for sig, detail in signatures(case, r["outputs"]):
            res["devs"].append((sig, case, detail))
    return res


def run_case(case):
    r = run_one(case)
    if r["skipped"]:
        return []
    return [{"signature": s, "detail": d} for s, d in signatures(case, r["outputs"])]
