"""C06 helper: delivering one configuration (valid or mutated) to a fresh real parser through one channel.

Channels (`deliver(shape_name, cfg, channel)`):
  object        parse_object(nested dict)
  object-dotted parse_object(dict with dotted keys for group-like levels)                          [thorough]
  string        parse_string(JSON text)
  string-yaml   parse_string(YAML block text)                                                      [thorough]
  config-arg    parse_args(["--config", JSON text])
  config-file   parse_args(["--config", FILE])                                                     [thorough]
  path          parse_path(FILE)                                                                   [thorough]
  sub-config    every subcommand section through that subcommand's own --config option (shapes with subcommands)
  argv-json     parse_args: one option per parser argument, value as JSON text; subcommands as positionals
  argv-flat     parse_args: every leaf as its own dotted option (--g.u=, --pt.x=, --obj=<class> --obj.init_args.r=,
                --dd.k=<json>); lists stay JSON values
  argv-short    like argv-flat but init_args addressed without the "init_args." segment (--obj.r=)  [thorough]
  argv-append   like argv-flat but list items appended one by one (--ld+=<json>)                   [thorough]
  env-json      os.environ + parse_env(): one variable per parser argument, JSON values
  env-flat      os.environ + parse_env(): group leaves as their own variables (APP_PT__X)
  env-args      like env-json but parse_args([]) on a default_env=True parser                      [thorough]
  env-config    the whole configuration as JSON text in APP_CONFIG, parse_args([]), default_env    [thorough]
  default-config-file  the configuration in a file named by default_config_files, parse_args([])
  object-namespace     parse_object(Namespace built with dict_to_namespace)                        [thorough]

A renderer returns None when the mutated configuration cannot be expressed in the channel (e.g. a null subcommand
selector on argv, a foreign key that would be an unknown environment variable NAME - not judged, see notes).
"""
from __future__ import annotations

import copy
import json
import os

from mc.checks import c06_schema as S

GROUP_LABELS = S.GROUP_LIKE


def text(v):
    if isinstance(v, str):
        return v
    return json.dumps(v)


# ------------------------------------------------------------------------------------------------
# argv


class Inexpressible(Exception):
    pass


LEFTOVER_VALUE = "zzv"
LEFTOVER_FORMS = {
    "positional": [S.FOREIGN],
    "flag": ["--" + S.FOREIGN],
    "option-value": ["--" + S.FOREIGN, LEFTOVER_VALUE],
}


def _no_abbreviation(node, key):
    """A foreign key that is a proper textual prefix of a key the node defines cannot be written as an option NAME:
    argparse reads `--ya=1` as an abbreviation of the defined option `--yaw` (or reports it as ambiguous).  That is
    a different input, not a foreign key; inside JSON values the same key is expressible."""
    if node["label"] == "init_args":
        return  # --obj.init_args.<key>= is not an option of any parser: the key is looked up literally
    if any(name != key and name.startswith(key) for name in node["fields"]):
        raise Inexpressible("a truncated key written as an option name is an abbreviation of the defined option")


def argv_tokens(rec, value, style, leftover=None, _depth=0):
    """Tokens for one parser level (and, recursively, the selected subcommand levels).

    `leftover` = [depth, form]: extra tokens no parser defines, placed after the own options of the parser at that
    subcommand depth (before the name of the next subcommand, if any)."""
    toks = []
    subs = rec.get("subs")
    reserved = set()
    if subs:
        reserved = {subs["dest"], *subs["choices"]}
    for key, v in value.items():
        if key in reserved:
            continue
        field = rec["fields"].get(key)
        if field is None:
            _no_abbreviation(rec, key)
            toks.append(f"--{key}={text(v)}")
        elif style == "json":
            _argv_json(field[0], v, key, toks)
        else:
            _argv_flat(field[0], v, key, toks, style)
    if leftover and leftover[0] == _depth:
        toks += LEFTOVER_FORMS[leftover[1]]
    if subs:
        dest = subs["dest"]
        if dest in value and value[dest] is None:
            raise Inexpressible("null subcommand selector on argv")
        sel = value.get(dest)
        if sel is not None:
            toks.append(sel)
            if sel in subs["choices"]:
                toks += argv_tokens(subs["choices"][sel], value.get(sel) or {}, style, leftover, _depth + 1)
    return toks


def _argv_json(node, v, name, toks):
    if node["k"] == "rec" and node["label"] in S.NO_OWN_OPTION:
        # a dotted group has no option of its own: its members are the options
        if v is None:
            raise Inexpressible("null dotted group on argv")
        for key, sub in v.items():
            field = node["fields"].get(key)
            if field is None:
                _no_abbreviation(node, key)
                toks.append(f"--{name}.{key}={text(sub)}")
            else:
                _argv_json(field[0], sub, f"{name}.{key}", toks)
        return
    toks.append(f"--{name}={text(v)}")


def _argv_flat(node, v, name, toks, style):
    k = node["k"]
    if v is None:
        if k == "rec" and node["label"] in S.NO_OWN_OPTION:
            raise Inexpressible("null dotted group on argv")
        toks.append(f"--{name}=null")
    elif k == "leaf" or (k == "rec" and node["label"] == "typed-dict"):
        toks.append(f"--{name}={text(v)}")
    elif k == "rec":
        for key, sub in v.items():
            field = node["fields"].get(key)
            if field is None:
                if key == "init_args" and node["label"] == "init_args":
                    # --obj.init_args.init_args=1 is read as "--obj.init_args=1" (assign the whole init_args), not as
                    # a key named init_args inside init_args; the JSON spellings express that key
                    raise Inexpressible("a key named init_args inside init_args cannot be addressed by a dotted option")
                _no_abbreviation(node, key)
                toks.append(f"--{name}.{key}={text(sub)}")
            else:
                _argv_flat(field[0], sub, f"{name}.{key}", toks, style)
    elif k == "spec":
        if set(v) - {"class_path", "init_args"}:
            toks.append(f"--{name}={text(v)}")  # a key next to class_path can only be written inside a JSON value
            return
        toks.append(f"--{name}={v['class_path']}")
        cls = v["class_path"].rsplit(".", 1)[1]
        prefix = name if style == "short" else f"{name}.init_args"
        _argv_flat(S.init_args_rec(cls, node.get("linked", ())), v.get("init_args", {}), prefix, toks, style)
    elif k == "list":
        if style == "append" and "." not in name and all(_plain_item(node["of"], item) for item in v):
            for item in v:
                toks.append(f"--{name}+={text(item)}")
        else:
            toks.append(f"--{name}={text(v)}")
    elif k == "dict":
        for key, item in v.items():
            toks.append(f"--{name}.{key}={text(item)}")
    elif k == "opt":
        if node["ctx"] == "union":
            toks.append(f"--{name}={text(v)}")  # members of a Union are not addressable by dotted options
        else:
            _argv_flat(node["of"], v, name, toks, style)
    else:
        raise AssertionError(node)


def _plain_item(node, item):
    return isinstance(item, dict)


# ------------------------------------------------------------------------------------------------
# environment


def env_vars(rec, value, style, prefix="APP_"):
    """{VARIABLE: text} for one parser level and the selected subcommand levels."""
    out = {}
    subs = rec.get("subs")
    reserved = set()
    if subs:
        reserved = {subs["dest"], *subs["choices"]}
    for key, v in value.items():
        if key in reserved:
            continue
        field = rec["fields"].get(key)
        if field is None:
            raise Inexpressible("a foreign key at parser level would be an unknown environment variable name")
        _env_node(field[0], v, prefix + key, out, style)
    if subs:
        dest = subs["dest"]
        sel = value.get(dest)
        if dest in value:
            out[(prefix + dest).upper()] = "null" if sel is None else sel
        if sel is not None and sel in subs["choices"]:
            out.update(env_vars(subs["choices"][sel], value.get(sel) or {}, style, prefix + sel + "__"))
    return out


def _env_node(node, v, name, out, style):
    k = node["k"]
    var = name.replace(".", "__").upper()
    if k == "rec" and node["label"] in S.NO_OWN_OPTION:
        if v is None:
            raise Inexpressible("null dotted group in the environment")
        for key, sub in v.items():
            field = node["fields"].get(key)
            if field is None:
                raise Inexpressible("a foreign key in a dotted group would be an unknown environment variable name")
            _env_node(field[0], sub, f"{name}__{key}", out, style)
    elif k == "rec" and node["label"] in GROUP_LABELS and style == "flat" and _flat_ok(node, v):
        for key, sub in v.items():
            _env_node(node["fields"][key][0], sub, f"{name}__{key}", out, style)
    else:
        out[var] = text(v)


def _flat_ok(node, v):
    """A group can be spread over per-leaf variables iff it is a dict with schema keys only at this level."""
    return isinstance(v, dict) and all(key in node["fields"] for key in v) and all(
        _flat_ok(node["fields"][key][0], sub)
        for key, sub in v.items()
        if node["fields"][key][0]["k"] == "rec" and node["fields"][key][0]["label"] in GROUP_LABELS
    )


# ------------------------------------------------------------------------------------------------
# sub-config: every parser level gets its own part of the configuration through its own --config


def subconfig_tokens(rec, value):
    subs = rec.get("subs")
    own = dict(value)
    toks = []
    tail = []
    if subs:
        dest = subs["dest"]
        if dest in value and value[dest] is None:
            raise Inexpressible("null subcommand selector on argv")
        sel = value.get(dest)
        own.pop(dest, None)
        for name in subs["choices"]:
            own.pop(name, None)
        if sel is not None:
            tail.append(sel)
            if sel in subs["choices"]:
                tail += subconfig_tokens(subs["choices"][sel], value.get(sel) or {})
    toks += ["--config", json.dumps(own)]
    return toks + tail


# ------------------------------------------------------------------------------------------------
# object with dotted keys


def dotted_object(rec, value):
    """Flat dict: group-like levels (and subcommand sections) spelled as dotted keys."""
    out = {}

    def put(node, v, name):
        if node is not None and node["k"] == "rec" and node["label"] in GROUP_LABELS and isinstance(v, dict):
            for key, sub in v.items():
                field = node["fields"].get(key)
                put(field[0] if field else None, sub, f"{name}.{key}")
        else:
            out[name] = copy.deepcopy(v)

    def level(rec, value, prefix):
        subs = rec.get("subs")
        for key, v in value.items():
            if subs and key in subs["choices"] and isinstance(v, dict):
                level(subs["choices"][key], v, f"{prefix}{key}.")
            else:
                field = rec["fields"].get(key)
                put(field[0] if field else None, v, prefix + key)

    level(rec, value, "")
    return out


def as_namespace(rec, value):
    """Namespace for parser levels, subcommand sections and group-like nodes; the values of typed arguments
    (class specs, lists, dicts, TypedDict / Optional / Union values) stay plain containers."""
    import jsonargparse

    ns = jsonargparse.Namespace()
    subs = rec.get("subs")
    for key, v in value.items():
        field = rec["fields"].get(key)
        if subs and key in subs["choices"] and isinstance(v, dict):
            ns[key] = as_namespace(subs["choices"][key], v)
        elif field and field[0]["k"] == "rec" and field[0]["label"] in GROUP_LABELS and isinstance(v, dict):
            ns[key] = as_namespace(field[0], v)
        else:
            ns[key] = copy.deepcopy(v)
    return ns


# ------------------------------------------------------------------------------------------------
# delivery

CHANNEL_CLASS = {
    "object": "config",
    "object-dotted": "config",
    "object-namespace": "config",
    "default-config-file": "config",
    "env-config": "env",
    "string": "config",
    "string-yaml": "config",
    "config-arg": "config",
    "config-file": "config",
    "path": "config",
    "sub-config": "config",
    "validate": "validate",
    "argv-json": "argv",
    "argv-flat": "argv",
    "argv-short": "argv",
    "argv-append": "argv",
    "env-json": "env",
    "env-flat": "env",
    "env-args": "env",
}


def outcome(fn, *args, **kwargs):
    """mc.util.outcome without the truncation of escaping exceptions' messages (the oracle searches the text)."""
    import io
    import sys

    import jsonargparse

    from mc.core import Horizon, horizon

    out, err = io.StringIO(), io.StringIO()
    saved = sys.stdout, sys.stderr, sys.stdin
    sys.stdout, sys.stderr, sys.stdin = out, err, io.StringIO("")
    try:
        try:
            with horizon(20):
                value = fn(*args, **kwargs)
            return {"kind": "ok", "value": value, "stdout": out.getvalue(), "stderr": err.getvalue()}
        except Horizon:
            return {"kind": "timeout"}
        except jsonargparse.ArgumentError as ex:
            return {"kind": "ArgumentError", "message": str(ex)}
        except SystemExit as ex:
            return {"kind": "exit", "code": ex.code, "stdout": out.getvalue(), "stderr": err.getvalue()}
        except KeyboardInterrupt:
            raise
        except BaseException as ex:  # noqa: BLE001
            text = str(ex.args[0]) if isinstance(ex, KeyError) and ex.args else str(ex)
            return {"kind": "escape", "type": f"{type(ex).__module__}.{type(ex).__qualname__}", "message": text}
    finally:
        sys.stdout, sys.stderr, sys.stdin = saved


def channel_class(channel):
    return CHANNEL_CLASS[channel.split(":")[0]]


def render(shape_name, cfg, channel, leftover=None):
    """What the channel hands to the library: ("object", dict) / ("text", str) / ("argv", [tokens]) /
    ("env", {VAR: text}).  Raises Inexpressible."""
    schema = S.parser_schema(S.SHAPES[shape_name])
    base = channel.split(":")[0]
    if leftover and not base.startswith("argv-"):
        raise Inexpressible("leftover tokens exist on argv only")
    if base == "object":
        return "object", copy.deepcopy(cfg)
    if base == "object-dotted":
        return "object", dotted_object(schema, cfg)
    if base == "object-namespace":
        return "object", copy.deepcopy(cfg)
    if base == "env-config":
        return "env", {"APP_CONFIG": json.dumps(cfg)}
    if base in ("string", "config-arg", "config-file", "path", "default-config-file"):
        return "text", json.dumps(cfg)
    if base == "string-yaml":
        import yaml

        return "text", yaml.safe_dump(cfg, default_flow_style=False, sort_keys=False)
    if base == "sub-config":
        return "argv", subconfig_tokens(schema, cfg)
    if base.startswith("argv-"):
        return "argv", argv_tokens(schema, cfg, base[5:], leftover)
    if base.startswith("env-"):
        return "env", env_vars(schema, cfg, "flat" if base == "env-flat" else "json")
    raise AssertionError(channel)


REUSABLE = ("object", "object-dotted", "string", "string-yaml", "config-arg", "config-file", "path", "sub-config",
            "argv-json", "argv-flat", "argv-short", "argv-append", "env-json", "env-flat")


def deliver(shape_name, cfg, channel, leftover=None, parser=None):
    """Build a FRESH parser for the shape and parse `cfg` through `channel` ("name[:exit][:nodefaults]").
    `parser`: deliver to this already built (used) parser instead of a fresh one (channels in REUSABLE only).

    Returns (outcome dict of mc.util.outcome or {"kind": "inexpressible", "why": ...}, rendering)."""
    from mc.util import restored_process_state, scratch_dir

    shape = S.SHAPES[shape_name]
    base, *flags = channel.split(":")
    exit_on_error = "exit" in flags
    if parser is not None:
        assert base in REUSABLE and not exit_on_error, channel
        given = parser
        S_build = lambda *a, **k: given  # noqa: E731
    else:
        S_build = S.build_parser
    kw = {"defaults": False} if "nodefaults" in flags else {}
    try:
        kind, data = render(shape_name, cfg, channel, leftover)
    except Inexpressible as ex:
        return {"kind": "inexpressible", "why": str(ex)}, None
    if "nodefaults" in flags and not all(S.has_key(cfg, src) for src in S.link_sources(shape)):
        # a link takes the value of its source; with defaults=False a source that is not given has none
        # ('Key "src.size" not found in namespace') - how links behave without defaults is C15's, not a key check
        return {"kind": "inexpressible", "why": "defaults=False and a link source without a given value"}, None
    shown = copy.deepcopy(data)
    if base in ("object", "object-dotted"):
        parser = S_build(shape, exit_on_error=exit_on_error)
        return outcome(parser.parse_object, data, **kw), shown
    if base == "object-namespace":
        parser = S_build(shape, exit_on_error=exit_on_error)
        return outcome(parser.parse_object, as_namespace(S.parser_schema(shape), data), **kw), shown
    if base == "default-config-file":
        with scratch_dir() as d:
            path = os.path.join(d, "defaults.json")
            with open(path, "w") as f:
                f.write(data)
            parser = S_build(shape, exit_on_error=exit_on_error, default_config_files=[path])
            return outcome(parser.parse_args, [], **kw), shown
    if base in ("string", "string-yaml"):
        parser = S_build(shape, exit_on_error=exit_on_error)
        return outcome(parser.parse_string, data, **kw), shown
    if base == "config-arg":
        parser = S_build(shape, exit_on_error=exit_on_error)
        return outcome(parser.parse_args, ["--config", data], **kw), shown
    if base in ("config-file", "path"):
        with scratch_dir() as d:
            path = os.path.join(d, "cfg.json")
            with open(path, "w") as f:
                f.write(data)
            parser = S_build(shape, exit_on_error=exit_on_error)
            if base == "path":
                return outcome(parser.parse_path, path, **kw), shown
            return outcome(parser.parse_args, ["--config", path], **kw), shown
    if kind == "argv":
        parser = S_build(shape, exit_on_error=exit_on_error)
        return outcome(parser.parse_args, data, **kw), shown
    if kind == "env":
        with restored_process_state():
            for key in [k for k in os.environ if k.startswith("APP_")]:
                del os.environ[key]
            os.environ.update(data)
            if base in ("env-args", "env-config"):
                parser = S_build(shape, default_env=True, exit_on_error=exit_on_error)
                return outcome(parser.parse_args, [], **kw), shown
            parser = S_build(shape, exit_on_error=exit_on_error)
            return outcome(parser.parse_env, **kw), shown
    raise AssertionError(channel)


def deliver_validate(shape_name, base_cfg, mut, fname, fvalue):
    """Channel "validate": parse the valid base configuration, apply the mutation to the PARSED Namespace and hand
    it to the public `parser.validate()`.  Returns (outcome, rendering)."""
    import jsonargparse

    shape = S.SHAPES[shape_name]
    schema = S.parser_schema(shape)
    parser = S.build_parser(shape)
    first = outcome(parser.parse_object, copy.deepcopy(base_cfg))
    if first["kind"] != "ok":
        return {"kind": "inexpressible", "why": "base configuration does not parse"}, None
    ns = jsonargparse.strip_meta(first["value"])
    kind, path = mut[0], mut[1]
    if kind == "leftover":
        return {"kind": "inexpressible", "why": "leftover tokens exist on argv only"}, None
    if kind != "base":
        target = ns
        steps = path if kind == "foreign" else path[:-1]
        for p in steps:
            target = target[p]
        if kind == "foreign":
            target[fname] = copy.deepcopy(fvalue)
        else:
            key = path[-1]
            node, _ = S.schema_at(schema, base_cfg, path[:-1])
            if node["k"] == "rec" and node.get("subs") and node["subs"]["dest"] == key:
                for name in node["subs"]["choices"]:
                    if name in target:
                        del target[name]
            if kind == "remove":
                del target[key]
            else:
                target[key] = None
    shown = repr(ns)
    return outcome(parser.validate, ns), shown


# ------------------------------------------------------------------------------------------------
# used parsers: calls made on a parser BEFORE the judged call


def selected_path(rec, value):
    """Names of the selected subcommands of a configuration, root to leaf."""
    subs = rec.get("subs")
    if subs and value.get(subs["dest"]) in subs["choices"] and isinstance(value.get(value[subs["dest"]]), dict):
        name = value[subs["dest"]]
        return [name] + selected_path(subs["choices"][name], value[name])
    return []


def spoil_last_int(value):
    """Replace the last int leaf (depth-first order) of a JSON value by the text LEFTOVER_VALUE - a value of the
    wrong type.  Returns True when a leaf was replaced."""
    items = list(value.items()) if isinstance(value, dict) else list(enumerate(value)) if isinstance(value, list) else []
    for key, v in reversed(items):
        if isinstance(v, int) and not isinstance(v, bool):
            value[key] = LEFTOVER_VALUE
            return True
        if isinstance(v, (dict, list)) and spoil_last_int(v):
            return True
    return False


PRIORS = {
    # every value on the command line, then the --config option of the innermost selected parser with a document
    # that cannot be applied (a wrongly typed leaf): the parse fails WHILE a configuration source is being merged
    # into the values parsed so far
    "argv+config-fails": "fails",
    # the same with the valid document: a complete successful parse
    "argv+config-ok": "ok",
    # the whole configuration with a wrongly typed leaf as text: fails while the text is loaded
    "string-fails": "fails",
}


def priors_applicable(shape_name, cfg):
    """The failing priors need an int leaf to spoil in the section of the innermost selected parser."""
    schema = S.parser_schema(S.SHAPES[shape_name])
    section = copy.deepcopy(cfg)
    for name in selected_path(schema, cfg):
        section = section[name]
    return spoil_last_int(section)


def prior_call(parser, shape_name, cfg, prior):
    """Perform one call of the family PRIORS on `parser` with the (valid) configuration `cfg`; returns its outcome."""
    schema = S.parser_schema(S.SHAPES[shape_name])
    cfg = copy.deepcopy(cfg)
    if prior == "string-fails":
        assert spoil_last_int(cfg)
        return outcome(parser.parse_string, json.dumps(cfg))
    assert prior in ("argv+config-fails", "argv+config-ok"), prior
    tokens = argv_tokens(schema, cfg, "json")
    section, rec = cfg, schema
    for name in selected_path(schema, cfg):
        section, rec = section[name], rec["subs"]["choices"][name]
    section = {k: v for k, v in section.items() if not (rec.get("subs") and k in (rec["subs"]["dest"], *rec["subs"]["choices"]))}
    if prior == "argv+config-fails":
        assert spoil_last_int(section)
    return outcome(parser.parse_args, tokens + ["--config", json.dumps(section)])
