"""C11 - Namespace behaves as a nested mapping addressed by dotted keys.

Explicit-state breadth-first search over the reachable states of ONE real `Namespace` object under an
operation alphabet (set / setattr / del / pop / update / update(only_unset) / clone / conversions), with
state hashing on the complete canonical structure.  Every transition is executed on the real class and on
a nested-dict reference model; after every transition the structure read from `vars()` must equal the
model's, the returned value must equal the model's, and on every new state every observer (getitem dotted
and step by step, `in`, get, items/keys/values with and without branches, as_dict, clone + independence,
==, conversions from and to dicts) is compared with the model.

Conversion from a caller-owned dictionary (`check_conversion`): on the dictionary every state stands for and on
every dictionary of a small grammar (`conv` run: dicts in lists, behind scalars, in nested lists, in tuples,
non-string keys, empty containers) dict_to_namespace must give the model's expansion, leave the source
untouched, share nothing with it, round-trip through as_dict(), and a repeated conversion of the same object
must be equal to and independent of the first.
"""
from __future__ import annotations

import copy
import itertools

META = {
    "id": "C11",
    "level": "model_checking",
    "engine": "explicit-state BFS on the real Namespace class (mc/checks/c11.py)",
    "technique": "explicit-state BFS with canonical state hashing over the real Namespace; nested-dict reference "
    "model compared on every transition and by every observer on every state",
    "level_text": "All Namespace states reachable within the stated depth from the empty namespace under the full "
    "operation alphabet are enumerated (deduplicated on the complete ordered structure, nothing projected away); "
    "each transition runs on the real class and is compared with a nested-dict model, and every reachable state is "
    "read back through every public observer. The verdict is exhaustive for all operation sequences up to the "
    "completed depth over the stated key/value alphabet.",
    "level_note": "Trusted: the 120-line reference model in this file (opaque dict-valued leaves; leaf->branch "
    "replacement on assignment below a leaf), vars() as the structural read-out, the key/value alphabet. Histories "
    "longer than the completed depth are covered only through state merging (states are complete, so merged states "
    "have equal futures).",
    "design_ref": "DESIGN.md §5 C11",
}

MARK = "\u200b"


class B(dict):
    """Model branch (an insertion-ordered mapping).  Plain `dict` objects are dict-valued *leaves*."""


# ------------------------------------------------------------------------------------------------
# alphabets


def _small(alpha):
    """`alpha` names the key alphabet: "small"/"quick" (2 segments, key depth 2) or "large"/"thorough"."""
    return alpha in ("quick", "small")


def segments(tier):
    if tier == "clash":
        return ["a"] + CLASH_NAMES
    return ["a", "items"] if _small(tier) else ["a", "b", "items", "get"]


CLASH_NAMES = ["keys", "update", "pop", "clone", "values", "as_dict"]  # "items" and "get" are in the other alphabets


def key_universe(tier):
    if tier == "clash":
        # every remaining method-name clash as a top-level key, below an ordinary branch and above an ordinary leaf
        return ["a"] + CLASH_NAMES + ["a." + c for c in CLASH_NAMES] + [c + ".a" for c in CLASH_NAMES]
    segs = segments(tier)
    depth = 2 if _small(tier) else 3
    keys = []
    for d in range(1, depth + 1):
        keys += [".".join(p) for p in itertools.product(segs, repeat=d)]
    return keys


def op_keys(tier):
    if _small(tier) or tier == "clash":
        return key_universe(tier)
    # thorough: all keys of depth <= 2 over 4 segments plus the depth-3 keys over the two quick segments
    segs = segments(tier)
    keys = [".".join(p) for d in (1, 2) for p in itertools.product(segs, repeat=d)]
    keys += [".".join(p) for p in itertools.product(["a", "items"], repeat=3)]
    return keys


# value specs are JSON; ("ns", {...}) marks a Namespace value
VALUES = [
    1,
    None,
    [1],
    {"__tuple__": [1]},
    {"__dict__": {"x": 1}},
    {"__dict__": {"items": 1}},
    {"__ns__": {"a": 2}},
    {"__ns__": {"items": {"__ns__": {"a": 3}}}},
    [[1]],
    [{"__ns__": {"a": 1}}],
    {"__ns__": {}},
    [None, {"__ns__": {"a": 1}}],  # heterogeneous list: a namespace that is not the first element
    {"__dict__": {"x": 1, "y": {"__ns__": {"a": 1}}}},  # dict value with one namespace among plain values
]
NS_VALUES = [i for i, v in enumerate(VALUES) if isinstance(v, dict) and "__ns__" in v]
SETATTR_VALUES = [0, 4, 6]
UPDATE_PLAIN_VALUES = [0, 2, 5]


def build_value(spec, Namespace):
    """Fresh implementation-side value."""
    if isinstance(spec, list):
        return [build_value(x, Namespace) for x in spec]
    if isinstance(spec, dict):
        if "__tuple__" in spec:
            return tuple(build_value(x, Namespace) for x in spec["__tuple__"])
        if "__dict__" in spec:
            return {k: build_value(x, Namespace) for k, x in spec["__dict__"].items()}
        if "__idict__" in spec:  # a dict with non-string keys (JSON cannot hold them as an object)
            return {k: build_value(x, Namespace) for k, x in spec["__idict__"]}
        if "__ns__" in spec:
            ns = Namespace()
            for k, x in spec["__ns__"].items():
                # direct structural construction, independent of __setitem__'s dotted logic
                object.__setattr__(ns, (MARK + k) if k in _clash(Namespace) else k, build_value(x, Namespace))
            return ns
    return spec


_clash_cache = {}


def _clash(Namespace):
    if Namespace not in _clash_cache:
        _clash_cache[Namespace] = set(dir(Namespace))
    return _clash_cache[Namespace]


def model_value(spec):
    if isinstance(spec, list):
        return [model_value(x) for x in spec]
    if isinstance(spec, dict):
        if "__tuple__" in spec:
            return tuple(model_value(x) for x in spec["__tuple__"])
        if "__dict__" in spec:
            return {k: model_value(x) for k, x in spec["__dict__"].items()}
        if "__idict__" in spec:
            return {k: model_value(x) for k, x in spec["__idict__"]}
        if "__ns__" in spec:
            return B((k, model_value(x)) for k, x in spec["__ns__"].items())
    return spec


def operations(tier):
    keys = op_keys(tier)
    ops = []
    for k in keys:
        for vi in range(len(VALUES)):
            ops.append(["set", k, vi])
    for k in keys:
        for vi in SETATTR_VALUES:
            ops.append(["setattr", k, vi])
    for k in keys:
        ops.append(["del", k])
        ops.append(["pop", k])
    for only_unset in (False, True):
        for vi in NS_VALUES:
            for k in [None] + keys:
                ops.append(["update_ns", k, vi, only_unset])
        for vi in UPDATE_PLAIN_VALUES:
            for k in [None] + keys:
                ops.append(["update_val", k, vi, only_unset])
    ops += [["clone"], ["from_as_dict"], ["dict_to_namespace"], ["roundtrip_namespace_to_dict"]]
    return ops


# ------------------------------------------------------------------------------------------------
# canonical forms


def canon_impl(x, Namespace):
    """Complete structural read-out of an implementation object (via vars(), not via the API under test)."""
    if isinstance(x, Namespace):
        out = []
        for k, v in vars(x).items():
            out.append([k[1:] if k[:1] == MARK else k, canon_impl(v, Namespace)])
        return ["B", out]
    if isinstance(x, dict):
        return ["D", [[k, canon_impl(v, Namespace)] for k, v in x.items()]]
    if isinstance(x, list):
        return ["L", [canon_impl(v, Namespace) for v in x]]
    if isinstance(x, tuple):
        return ["T", [canon_impl(v, Namespace) for v in x]]
    return ["S", type(x).__name__, repr(x)]


def canon_model(x):
    if isinstance(x, B):
        return ["B", [[k, canon_model(v)] for k, v in x.items()]]
    if isinstance(x, dict):
        return ["D", [[k, canon_model(v)] for k, v in x.items()]]
    if isinstance(x, list):
        return ["L", [canon_model(v) for v in x]]
    if isinstance(x, tuple):
        return ["T", [canon_model(v) for v in x]]
    return ["S", type(x).__name__, repr(x)]


# ------------------------------------------------------------------------------------------------
# the reference model: a nested insertion-ordered dict; dict values are opaque leaves

_MISSING = object()


class Undefined(Exception):
    """The model leaves this operation undefined: the implementation must raise and change nothing."""


def m_lookup(state, key):
    node = state
    for s in key.split("."):
        if not isinstance(node, B) or s not in node:
            return _MISSING
        node = node[s]
    return node


def m_through_dict_leaf(state, key):
    """True iff a proper prefix of `key` resolves to a dict-valued leaf (the known-finding family)."""
    node = state
    for s in key.split(".")[:-1]:
        if not isinstance(node, B) or s not in node:
            return False
        node = node[s]
        if isinstance(node, dict) and not isinstance(node, B):
            return True
    return False


def m_set(state, key, value):
    segs = key.split(".")
    node = state
    for s in segs[:-1]:
        child = node.get(s, _MISSING)
        if not isinstance(child, B):
            child = B()
            node[s] = child  # a leaf on the path is replaced by a branch (keeps its position)
        node = child
    node[segs[-1]] = value


def m_parent(state, key):
    segs = key.split(".")
    parent = m_lookup(state, ".".join(segs[:-1])) if len(segs) > 1 else state
    return parent, segs[-1]


def m_leaves(node, prefix=""):
    for k, v in node.items():
        if isinstance(v, B):
            yield from m_leaves(v, prefix + k + ".")
        else:
            yield prefix + k, v


def m_items(node, branches, prefix=""):
    for k, v in node.items():
        if isinstance(v, B):
            if branches:
                yield prefix + k, v
            yield from m_items(v, branches, prefix + k + ".")
        else:
            yield prefix + k, v


def m_as_dict(x):
    """B -> dict at every level (inside lists and dict leaves too)."""
    if isinstance(x, B):
        return {k: m_as_dict(v) for k, v in x.items()}
    if isinstance(x, dict):
        return {k: m_as_dict(v) for k, v in x.items()}
    if isinstance(x, list):
        return [m_as_dict(v) for v in x]
    return x


def m_expand(x):
    """dict_to_namespace: every str-keyed dict (also directly inside lists) becomes a branch."""
    if isinstance(x, dict):
        if all(isinstance(k, str) for k in x):
            out = B()
            for k, v in x.items():
                out[k] = m_expand_value(v)
            return out
        return x
    return x


def m_expand_value(v):
    if isinstance(v, dict):
        return m_expand(v)
    if isinstance(v, list):
        return [m_expand(i) if isinstance(i, dict) else i for i in v]
    return v


def m_apply(state, op):
    """Apply op to the model state in place.  Returns the model's return value (or None).

    Raises Undefined when the nested-dict model gives the operation no meaning."""
    kind = op[0]
    if kind in ("set", "setattr"):
        m_set(state, op[1], model_value(VALUES[op[2]]))
        return None
    if kind == "del":
        if m_lookup(state, op[1]) is _MISSING:
            raise Undefined("delete of a missing key")
        parent, leaf = m_parent(state, op[1])
        del parent[leaf]
        return None
    if kind == "pop":
        if m_lookup(state, op[1]) is _MISSING:
            return "DEFAULT"
        parent, leaf = m_parent(state, op[1])
        return parent.pop(leaf)
    if kind == "update_ns":
        _, key, vi, only_unset = op
        value = model_value(VALUES[vi])
        prefix = key + "." if key else ""
        for k, v in list(m_leaves(value)):
            if not only_unset or m_lookup(state, prefix + k) is _MISSING:
                m_set(state, prefix + k, v)
        return "SELF"
    if kind == "update_val":
        _, key, vi, only_unset = op
        if not key:
            raise Undefined("update with a non-namespace value needs a key")
        if not only_unset or m_lookup(state, key) is _MISSING:
            m_set(state, key, model_value(VALUES[vi]))
        return "SELF"
    if kind == "clone":
        return None  # state := clone(state): identical
    if kind == "from_as_dict":
        # Namespace(ns.as_dict()): top-level keys are set one by one; nested dicts stay dict-valued leaves
        d = m_as_dict(state)
        state.clear()
        for k, v in d.items():
            state[k] = v
        return None
    if kind in ("dict_to_namespace", "roundtrip_namespace_to_dict"):
        d = m_expand(m_as_dict(state))
        state.clear()
        state.update(d)
        return None
    raise AssertionError(op)


def op_addresses_through_dict_leaf(state, op):
    kind = op[0]
    if kind in ("set", "setattr", "del", "pop", "update_val"):
        return bool(op[1]) and m_through_dict_leaf(state, op[1])
    if kind == "update_ns":
        prefix = op[1] + "." if op[1] else ""
        return any(m_through_dict_leaf(state, prefix + k) for k, _ in m_leaves(model_value(VALUES[op[2]])))
    return False


# ------------------------------------------------------------------------------------------------
# the implementation side


def i_apply(ns, op, J):
    """Apply op to the real Namespace.  Returns (new_ns, returned) or raises what the implementation raises."""
    Namespace = J.Namespace
    kind = op[0]
    if kind == "set":
        ns[op[1]] = build_value(VALUES[op[2]], Namespace)
        return ns, None
    if kind == "setattr":
        setattr(ns, op[1], build_value(VALUES[op[2]], Namespace))
        return ns, None
    if kind == "del":
        del ns[op[1]]
        return ns, None
    if kind == "pop":
        return ns, ns.pop(op[1], "DEFAULT")
    if kind == "update_ns" or kind == "update_val":
        _, key, vi, only_unset = op
        ret = ns.update(build_value(VALUES[vi], Namespace), key, only_unset=only_unset)
        return ns, ("SELF" if ret is ns else ret)
    if kind == "clone":
        return ns.clone(), None
    if kind == "from_as_dict":
        return Namespace(ns.as_dict()), None
    if kind == "dict_to_namespace":
        return J.dict_to_namespace(ns.as_dict()), None
    if kind == "roundtrip_namespace_to_dict":
        return J.dict_to_namespace(J.namespace_to_dict(ns)), None
    raise AssertionError(op)


def replay(history, J):
    """Rebuild (impl state, model state) by replaying a history of operations on fresh objects."""
    ns, model = J.Namespace(), B()
    for op in history:
        try:
            m_apply(model, op)
        except Undefined:
            pass
        try:
            ns, _ = i_apply(ns, op, J)
        except Exception:
            pass
    return ns, model


def containers(x, Namespace, out):
    if isinstance(x, Namespace):
        out.append(x)
        for v in vars(x).values():
            containers(v, Namespace, out)
    elif isinstance(x, dict):
        out.append(x)
        for v in x.values():
            containers(v, Namespace, out)
    elif isinstance(x, list):
        out.append(x)
        for v in x:
            containers(v, Namespace, out)
    elif isinstance(x, tuple):
        for v in x:
            containers(v, Namespace, out)
    return out


def _has_dict_leaf(node):
    return any(isinstance(v, dict) and not isinstance(v, B) for _, v in m_items(node, True))


def observe(ns, model, tier, J):
    """All observers on one state; returns a list of (signature, detail)."""
    Namespace = J.Namespace
    devs = []
    cm = canon_model(model)

    def dev(sig, detail):
        devs.append((sig, detail))

    def guarded(name, fn):
        try:
            return fn()
        except Exception as ex:  # an observer must never raise on a reachable state
            dev(f"observer-raises:{name}:{type(ex).__name__}", repr(ex))
            return _MISSING

    for key in key_universe(tier):
        expect = m_lookup(model, key)
        through = m_through_dict_leaf(model, key)
        tag = ":through-dict-leaf" if through else ""
        # `in`
        got = guarded("contains", lambda: key in ns)
        if got is not _MISSING and got != (expect is not _MISSING):
            dev("contains" + tag, f"{key!r} in ns -> {got}, model {(expect is not _MISSING)}")
        # get with default
        got = guarded("get", lambda: ns.get(key, "DEFAULT"))
        if got is not _MISSING:
            want = "DEFAULT" if expect is _MISSING else expect
            if canon_impl(got, Namespace) != canon_model(want):
                dev("get" + tag, f"ns.get({key!r}) -> {got!r}, model {want!r}")
        # dotted subscript
        try:
            got = ns[key]
            if expect is _MISSING:
                dev("getitem-missing-key-returns" + tag, f"ns[{key!r}] -> {got!r}, model: missing")
            elif canon_impl(got, Namespace) != canon_model(expect):
                dev("getitem" + tag, f"ns[{key!r}] -> {got!r}, model {expect!r}")
        except KeyError:
            if expect is not _MISSING:
                dev("getitem-keyerror-for-present-key" + tag, f"ns[{key!r}] raises KeyError, model {expect!r}")
        except Exception as ex:
            dev(f"getitem-raises-{type(ex).__name__}" + tag, f"ns[{key!r}]: {ex!r}")
        # step by step (only while every intermediate is a branch in the model)
        segs = key.split(".")
        if len(segs) > 1 and expect is not _MISSING and not through:
            try:
                cur = ns
                for s in segs:
                    cur = cur[s]
                if canon_impl(cur, Namespace) != canon_model(expect):
                    dev("getitem-stepwise", f"step by step {segs} -> {cur!r}, model {expect!r}")
            except Exception as ex:
                dev("getitem-stepwise", f"step by step {segs} raises {ex!r}, model {expect!r}")

    for branches in (False, True):
        want = [[k, canon_model(v)] for k, v in m_items(model, branches)]
        got = guarded("items", lambda: [[k, canon_impl(v, Namespace)] for k, v in ns.items(branches)])
        if got is not _MISSING and got != want:
            dev(f"items(branches={branches})", f"{got} != model {want}")
        got = guarded("keys", lambda: list(ns.keys(branches)))
        if got is not _MISSING and got != [k for k, _ in want]:
            dev(f"keys(branches={branches})", f"{got} != model {[k for k, _ in want]}")
        got = guarded("values", lambda: [canon_impl(v, Namespace) for v in ns.values(branches)])
        if got is not _MISSING and got != [v for _, v in want]:
            dev(f"values(branches={branches})", f"{got} != model {[v for _, v in want]}")

    # as_dict / namespace_to_dict
    want_d = canon_model(m_as_dict(model))
    got = guarded("as_dict", lambda: ns.as_dict())
    if got is not _MISSING:
        if canon_impl(got, Namespace) != want_d:
            dev("as_dict", f"{got!r} != model {m_as_dict(model)!r}")
    got = guarded("namespace_to_dict", lambda: J.namespace_to_dict(ns))
    if got is not _MISSING:
        if canon_impl(got, Namespace) != want_d:
            dev("namespace_to_dict", f"{got!r} != model {m_as_dict(model)!r}")
        mine = {id(c) for c in containers(ns, Namespace, [])}
        if any(id(c) in mine for c in containers(got, Namespace, [])):
            dev("namespace_to_dict-shares-containers", "result shares a mutable container with the namespace")
    if canon_impl(ns, Namespace) != cm:
        dev("observer-mutated-state", "an observer changed the namespace")

    # clone: equal, fresh containers, independent
    c = guarded("clone", lambda: ns.clone())
    if c is not _MISSING:
        if canon_impl(c, Namespace) != cm:
            dev("clone-differs", f"{c!r}")
        if guarded("eq", lambda: (c == ns)) is False:
            dev("clone-not-equal", f"{c!r} != {ns!r}")
        mine = {id(x) for x in containers(ns, Namespace, [])}
        shared = [x for x in containers(c, Namespace, []) if id(x) in mine]
        if shared:
            dev("clone-shares-containers", f"shared: {shared!r}")
        for key in key_universe(tier)[:6]:
            try:
                c[key] = 99
            except Exception:
                pass
        for x in containers(c, Namespace, []):
            if isinstance(x, list):
                x.append("mut")
            elif isinstance(x, dict):
                x["mut"] = 1
        if canon_impl(ns, Namespace) != cm:
            dev("clone-not-independent", "mutating the clone changed the original")

    # equality with an independently built namespace of the same structure, and conversion from dicts
    rebuilt = build_value(_spec_of(model), Namespace)
    if guarded("eq", lambda: ns == rebuilt) is False:
        dev("eq-structurally-equal-is-unequal", f"{ns!r} != {rebuilt!r}")
    if not _has_dict_leaf(model):
        got = guarded("dict_to_namespace", lambda: J.dict_to_namespace(ns.as_dict()))
        want = canon_model(m_expand(m_as_dict(model)))
        if got is not _MISSING and canon_impl(got, Namespace) != want:
            dev("dict_to_namespace(as_dict)", f"{got!r}")
    # conversion from a caller-owned dictionary: the dictionary this state stands for, built independently of
    # as_dict(); judged on every state (dict-valued leaves included)
    devs += check_conversion(_spec_of(m_as_dict(model)), J)
    if canon_impl(ns, Namespace) != cm:
        dev("observer-mutated-state", "an observer changed the namespace")
    return devs


def _mutate_all(x, Namespace):
    """Write into every mutable container reachable from x (through the public API for namespaces)."""
    for c in containers(x, Namespace, []):
        try:
            if isinstance(c, list):
                c.append("mut")
            else:
                c["mut"] = 1
        except Exception:
            pass


def check_conversion(src_spec, J):
    """dict_to_namespace on one caller-owned dictionary `src` (given as a spec, built fresh here).

    Judged: the result is the model's expansion (every str-keyed dict, also directly inside a list, becomes a
    branch; everything else stays); the source dictionary is left exactly as it was; the result holds none of the
    source's mutable containers; its as_dict() equals the source again; a second conversion of the SAME
    dictionary object gives an equal namespace that shares nothing with the first one, and writing into every
    container of the first result changes neither the source nor the second result."""
    Namespace = J.Namespace
    devs = []
    src = build_value(src_spec, Namespace)
    src_model = model_value(src_spec)
    pre = canon_impl(src, Namespace)
    want = canon_model(m_expand(src_model))
    try:
        first = J.dict_to_namespace(src)
    except Exception as ex:
        return [(f"dict_to_namespace:raises-{type(ex).__name__}", repr(ex))]
    if canon_impl(first, Namespace) != want:
        devs.append(("dict_to_namespace:wrong-result", f"{first!r} from {src!r}"))
    if canon_impl(src, Namespace) != pre:
        devs.append(("dict_to_namespace:mutates-input", f"input is now {src!r}"))
        return devs
    src_ids = {id(c) for c in containers(src, Namespace, [])}
    if any(id(c) in src_ids for c in containers(first, Namespace, [])):
        devs.append(("dict_to_namespace:result-shares-containers-with-input", f"{first!r}"))
    try:
        back = first.as_dict()
        if canon_impl(back, Namespace) != canon_model(m_as_dict(m_expand(src_model))):
            devs.append(("dict_to_namespace:as_dict-differs-from-input", f"{back!r} from {src!r}"))
    except Exception as ex:
        devs.append((f"dict_to_namespace:as_dict-raises-{type(ex).__name__}", repr(ex)))
    try:
        second = J.dict_to_namespace(src)
    except Exception as ex:
        devs.append((f"dict_to_namespace:second-conversion-raises-{type(ex).__name__}", repr(ex)))
        return devs
    if canon_impl(second, Namespace) != want:
        devs.append(("dict_to_namespace:second-conversion-differs", f"{second!r} from {src!r}"))
        return devs
    first_ids = {id(c) for c in containers(first, Namespace, [])}
    if any(id(c) in first_ids for c in containers(second, Namespace, [])):
        devs.append(("dict_to_namespace:conversions-share-containers", f"{second!r}"))
    _mutate_all(first, Namespace)
    if canon_impl(src, Namespace) != pre:
        devs.append(("dict_to_namespace:result-not-independent-of-input", f"input is now {src!r}"))
    if canon_impl(second, Namespace) != want:
        devs.append(("dict_to_namespace:conversions-not-independent", f"second is now {second!r}"))
    return devs


def _spec_of(x):
    if isinstance(x, B):
        return {"__ns__": {k: _spec_of(v) for k, v in x.items()}}
    if isinstance(x, dict):
        if not all(isinstance(k, str) for k in x):
            return {"__idict__": [[k, _spec_of(v)] for k, v in x.items()]}
        return {"__dict__": {k: _spec_of(v) for k, v in x.items()}}
    if isinstance(x, list):
        return [_spec_of(v) for v in x]
    if isinstance(x, tuple):
        return {"__tuple__": [_spec_of(v) for v in x]}
    return x


# ------------------------------------------------------------------------------------------------
# one transition = one case


def step(history, op, tier, J):
    """Execute `op` after `history` on fresh objects; compare with the model.

    Returns (devs, successor canonical form or None when the successor must not be explored)."""
    import json

    Namespace = J.Namespace
    ns, model = replay(history, J)
    pre = canon_model(model)
    if canon_impl(ns, Namespace) != pre:
        return [("replay-divergence", "state rebuilt from history differs from the model")], None
    through = op_addresses_through_dict_leaf(model, op)
    tag = ":through-dict-leaf" if through else ""
    devs = []
    try:
        want_ret = m_apply(model, op)
        undefined = False
    except Undefined:
        undefined = True
        want_ret = None
    try:
        ns2, got_ret = i_apply(ns, op, J)
        raised = None
    except Exception as ex:
        ns2, got_ret, raised = ns, None, ex
    post_i = canon_impl(ns2, Namespace)
    post_m = canon_model(model)
    if undefined:
        if raised is None:
            devs.append((f"{op[0]}:undefined-op-does-not-raise" + tag, f"returned {got_ret!r}"))
        if post_i != pre:
            devs.append((f"{op[0]}:failed-op-changes-state" + tag, json.dumps(post_i)))
        return devs, None
    if raised is not None:
        devs.append((f"{op[0]}:raises-{type(raised).__name__}" + tag, repr(raised)))
        if post_i != pre:
            devs.append((f"{op[0]}:failed-op-changes-state" + tag, json.dumps(post_i)))
        return devs, None
    if post_i != post_m:
        devs.append((f"{op[0]}:wrong-state" + tag, f"impl {json.dumps(post_i)} model {json.dumps(post_m)}"))
        return devs, None
    if canon_impl(got_ret, Namespace) != canon_model(want_ret):
        devs.append((f"{op[0]}:wrong-return" + tag, f"impl {got_ret!r} model {want_ret!r}"))
    return devs, post_m


def _J():
    import jsonargparse

    return jsonargparse


def expand_state(arg):
    """Worker: expand one state (given by its shortest history): every operation, plus all observers on it."""
    import json

    history, tier, do_expand = arg
    J = _J()
    ops = operations(tier)
    ns, model = replay(history, J)
    out = {"history": history, "obs": [], "succ": [], "trans": 0}
    if canon_impl(ns, J.Namespace) != canon_model(model):
        out["obs"].append(("replay-divergence", "state rebuilt from history differs from the model"))
        return out
    out["obs"] = observe(ns, model, tier, J)
    if do_expand:
        for i, op in enumerate(ops):
            devs, succ = step(history, op, tier, J)
            out["trans"] += 1
            out["succ"].append((i, json.dumps(succ) if succ is not None else None, devs))
    return out


# ------------------------------------------------------------------------------------------------
# conversion inputs: dictionaries that need not be the as_dict() image of any reachable namespace

CONV_LEAVES = [1, None, [1], [], {"__tuple__": [1]}, {"__idict__": [[1, 2]]}, {"__dict__": {}}]
CONV_KEYSETS = [["a"], ["items"], ["a", "items"]]


def conv_dicts(depth):
    """All dictionary specs of nesting depth <= `depth`: keys `a` / `items` / both; a value is a leaf, a
    dictionary one level shallower, or such a dictionary as the only element of a list, behind a scalar in a list,
    inside a nested list, or inside a tuple.  With two keys the second value ranges over the leaves and the
    one-key wrappers of the same shallower dictionaries are dropped (keeps the growth quadratic, not quartic)."""
    if depth == 0:
        return []
    inner = conv_dicts(depth - 1)
    wrapped = []
    for d in inner:
        wrapped += [d, [d], [1, d], [[d]], {"__tuple__": [d]}]
    vals = CONV_LEAVES + wrapped
    out = []
    for v in vals:
        out.append({"__dict__": {"a": v}})
        out.append({"__dict__": {"items": v}})
        for w in CONV_LEAVES:
            out.append({"__dict__": {"a": v, "items": w}})
    # two dictionaries side by side in one list / under two keys (sharing between siblings)
    for d in inner[: len(CONV_LEAVES) * 2]:
        out.append({"__dict__": {"a": [d, d], "items": d}})
    return out


def conv_worker(specs):
    J = _J()
    out = []
    for spec in specs:
        out.append((spec, check_conversion(spec, J)))
    return out


def conv_run(ctx, depth, totals):
    import json

    specs = conv_dicts(depth)
    seen = set()
    uniq = []
    for sp in specs:
        k = json.dumps(sp)
        if k not in seen:
            seen.add(k)
            uniq.append(sp)
    uniq.sort(key=lambda sp: (len(json.dumps(sp)), json.dumps(sp)))  # simplest first
    chunks = [uniq[i : i + 200] for i in range(0, len(uniq), 200)]
    with_list_of_dicts = 0
    for res in ctx.pmap(conv_worker, chunks):
        for spec, devs in res:
            totals["conv_inputs"] += 1
            if _has_list_of_dicts(spec):
                with_list_of_dicts += 1
            for sig, detail in devs:
                ctx.deviation(sig, {"tier": "conv", "input": spec}, detail)
    for sp in uniq[:2] + uniq[len(uniq) // 2 :][:2]:
        ctx.sample({"alphabet": "conv", "input": sp})
    totals["conv_with_list_of_dicts"] = with_list_of_dicts
    totals["runs"].append(
        {
            "alphabet": "conv",
            "what": "dict_to_namespace on caller-owned dictionaries (result, source untouched, independence, "
            "as_dict round trip, repeated conversion)",
            "nesting_depth": depth,
            "inputs": len(uniq),
            "inputs_with_a_list_holding_a_dict": with_list_of_dicts,
            "leaves": CONV_LEAVES,
        }
    )


def _has_list_of_dicts(spec):
    if isinstance(spec, list):
        return any(isinstance(x, dict) and "__dict__" in x for x in spec) or any(_has_list_of_dicts(x) for x in spec)
    if isinstance(spec, dict):
        for tag in ("__dict__",):
            if tag in spec:
                return any(_has_list_of_dicts(x) for x in spec[tag].values())
        if "__tuple__" in spec:
            return any(_has_list_of_dicts(x) for x in spec["__tuple__"])
    return False


def run_case(case):
    """Replay one case: {"tier":..., "history": [ops...], "op": op or None} or {"tier": "conv", "input": spec}."""
    J = _J()
    tier = case["tier"]
    if tier == "conv":
        return [{"signature": s, "detail": d} for s, d in check_conversion(case["input"], J)]
    history = case["history"]
    devs = []
    if case.get("op") is not None:
        d, _ = step(history, case["op"], tier, J)
        devs += d
    else:
        ns, model = replay(history, J)
        devs += observe(ns, model, tier, J)
    return [{"signature": s, "detail": d} for s, d in devs]


def bfs(ctx, tier, max_depth, state_cap, totals):
    """Level-synchronous BFS over one alphabet; every state is observed, states below max_depth are expanded."""
    import json

    ops = operations(tier)
    seen = {json.dumps(canon_model(B())): []}
    frontier = [[]]
    per_depth = []
    closed = False
    caps_hit = []
    depth_completed = 0
    for depth in range(0, max_depth + 1):
        do_expand = depth < max_depth
        nxt = []
        batch = frontier
        if do_expand and len(seen) > state_cap:
            caps_hit.append(
                f"alphabet {tier}: state cap {state_cap} reached before expanding depth {depth}; "
                "states of this depth are observed but not expanded"
            )
            do_expand = False
        for out in ctx.pmap(expand_state, [(h, tier, do_expand) for h in batch]):
            totals["states"] += 1
            hist_ops = out["history"]
            for sig, detail in out["obs"]:
                ctx.deviation(sig, {"tier": tier, "history": hist_ops, "op": None}, detail)
            totals["transitions"] += out["trans"]
            for i, succ, devs in out["succ"]:
                for sig, detail in devs:
                    ctx.deviation(sig, {"tier": tier, "history": hist_ops, "op": ops[i]}, detail)
                if succ is not None and succ not in seen:
                    seen[succ] = hist_ops + [ops[i]]
                    nxt.append(seen[succ])
        per_depth.append(len(batch))
        if do_expand:
            depth_completed = depth + 1
        nxt.sort(key=lambda h: json.dumps(h))  # deterministic frontier order regardless of worker scheduling
        frontier = nxt
        if not frontier:
            closed = do_expand
            break
        if not do_expand:
            break
    for h in [seen[k] for k in list(seen)[1:4]]:
        ctx.sample({"alphabet": tier, "history": h})
    ctx.sample({"alphabet": tier, "operation_alphabet_size": len(ops), "first_ops": ops[:3], "last_ops": ops[-3:]})
    totals["nontrivial"] += len(seen) - 1
    totals["max_history"] = max(totals["max_history"], max(len(h) for h in seen.values()))
    totals["runs"].append(
        {
            "alphabet": tier,
            "segments": segments(tier),
            "op_keys": len(op_keys(tier)),
            "observer_keys": len(key_universe(tier)),
            "operations": len(ops),
            "depth_bound": max_depth,
            "depth_completed": depth_completed,
            "states_per_depth": per_depth,
            "distinct_states": len(seen),
            "closed": closed,
            "caps_hit": caps_hit,
        }
    )
    return caps_hit


def explore(ctx):
    # quick: small alphabet (2 segments incl. a method-name clash, key depth 2), all histories of length <= 3.
    # thorough: the same alphabet one step deeper, plus the large alphabet (4 segments, key depth 3) to depth 2.
    # both: the "clash" alphabet (all other method-name clashes of the statement at 19 key positions) to depth 2.
    plan = (
        [("small", 3, 10**9), ("clash", 2, 10**9)]
        if ctx.quick
        else [("small", 4, 10**9), ("large", 2, 10**9), ("clash", 2, 10**9)]
    )
    totals = {"states": 0, "transitions": 0, "nontrivial": 0, "max_history": 0, "runs": [], "conv_inputs": 0}
    caps = []
    for alpha, depth, cap in plan:
        caps += bfs(ctx, alpha, depth, cap, totals)
    conv_run(ctx, 2 if ctx.quick else 3, totals)
    ctx.cover(
        states=totals["states"],
        transitions=totals["transitions"],
        traces_validated_against_impl=totals["transitions"],
        evaluations=totals["transitions"] + totals["states"] + totals["conv_inputs"],
        conversion_inputs=totals["conv_inputs"],
        distinct_nontrivial=totals["nontrivial"],
        rule="a case is one transition (state, operation) executed on the real Namespace and on the model, or the "
        "full observer sweep on one state; distinct_nontrivial = number of distinct non-empty canonical states reached",
        exhaustive=not caps,
        runs=totals["runs"],
        values=VALUES,
        caps_hit=caps,
        bounds={"plan": [{"alphabet": a, "history_length": d} for a, d, _ in plan]},
    )
    ctx.assume("dict-valued leaves are opaque values of the nested mapping (assignment below one replaces it by a branch)")
    ctx.require(totals["states"] > 500, "more than 500 states explored")
    ctx.require(totals["nontrivial"] > 100, "more than 100 distinct non-empty states")
    ctx.require(totals["max_history"] >= 2, "states at depth >= 2 reached")
    ctx.require(totals["conv_inputs"] > 1000, "more than 1000 conversion inputs")
    ctx.require(totals.get("conv_with_list_of_dicts", 0) > 100, "more than 100 conversion inputs hold a dict inside a list")
