"""C02 - accepted values conform to the declared type; acceptance is compositional.

Bounded exhaustive product  (type hint of the grammar, depth <= 4)  x  (candidate value)  x  (channel),
executed on the real parser (a fresh `ArgumentParser` with one `--k` argument per evaluation) and judged by

  (i)   soundness      an independent structural validator `conforms(result, type)` on every accepted result
                       (exact Python type at every level, tuple arity, Literal/Enum membership, predicates);
  (ii)  completeness   every input that `shape_ok(value, type)` classifies as conforming must be accepted;
  (iii) compositionality (differential, implementation against itself)
                       a container is accepted iff a fresh parser for the element type accepts each element,
                       a Union is accepted iff a fresh parser for some member accepts the value;
  (iv)  order invariance  the accept/reject bit is the same for every permutation of the members of every
                       Union node of the type hint (and a parser can be built for all of them or for none);
  (vi)  default independence  (families of depth <= 1) the same argument declared with a conforming default
                       decides exactly as without one, its results conform, and a parse that does not mention the
                       key succeeds with a conforming value  (`judge_default`; cases carry a "default" key).

  (v)   kind soundness  a string-free value of a wrong kind at some position (object channel; JSON list / mapping text
                       on argv for container types) is rejected even if coercion would make the result conform;
                       restricted strings are str: no non-string is of their kind.

A *case* is {"type": spec, "channel": "object" | "argv", "value": value-spec}; `run_case` rebuilds everything
(type objects, parsers, values) from it.  Type specs are JSON: a leaf name or [constructor, arg, ...];
["Tuple", a1, ..., an] is the fixed-length tuple of arity n (n = 0: Tuple[()], explored for n in 0..3).
"""
from __future__ import annotations

import enum
import functools
import itertools
import json
import re

META = {
    "id": "C02",
    "level": "exploration",
    "engine": "bounded exhaustive type-grammar x value product on the real parser (mc/checks/c02.py)",
    "technique": "exhaustive enumeration of type hints (grammar depth <= 4, every Union in every member order) x "
    "candidate values (conforming, every single-position replacement, lookalike strings) x {parse_object, argv} x "
    "{no default, each listed conforming default (depth <= 1)}; independent conforms() validator + element-wise / "
    "member-wise / member-order / with-vs-without-default differentials against fresh parsers",
    "level_text": "Every type hint of the stated grammar up to constructor depth 4 is combined with every candidate "
    "value of its alphabet (conforming values, the universal replacement alphabet at every single position, arity "
    "changes, lookalike strings) on both channels; each combination is executed on fresh parsers of the real "
    "implementation for every permutation of every Union, for every Union member and for every container element. "
    "Accepted results are judged by an independent structural validator written against the type spec only; "
    "acceptance decisions are judged differentially (container vs. elements, Union vs. members, permutation vs. "
    "permutation), so no per-case expectation is hand-written. The families of depth <= 1 are explored a second "
    "time with the argument declared with each listed conforming default (values: the family's candidates, the "
    "default itself and every value that compares == to it but has another scalar kind at one position; plus a "
    "parse that does not mention the key): every spelling must decide as it does without a default and results "
    "must conform. The verdict is exhaustive for the stated finite space; nothing is sampled.",
    "level_note": "Trusted: the type-spec grammar and its builder (checked against typing.get_args after every "
    "build), the validators conforms()/shape_ok()/nullable() (~120 lines), the model of the NoneType member "
    "(accepts None and texts that YAML reads as null), json/yaml of the standard environment for rendering and "
    "classifying values. Types deeper than 4, values outside the alphabets and values deviating at two positions "
    "at once are not covered.",
    "design_ref": "DESIGN.md §5 C02",
}


# ------------------------------------------------------------------------------------------------
# leaves


class E(enum.Enum):
    A = 1
    B = 2


EY = enum.Enum("EY", {"null": 1, "true": 2, "on": 3, "no": 4, "y": 5})
ENUMS = {"E": E, "EY": EY}

LITERALS = {"L1": ["a", 1, None], "L2": ["1", "null", 2], "L3": [True, 0]}

CORE = ["str", "int", "float", "bool", "E"]
EXTRA = [
    "EY", "L1", "L2", "L3", "PositiveInt", "ClosedUnitInterval", "RInt", "RFlt", "NotEmptyStr", "RS",
    "PPath", "Path_fr", "Path_dc", "complex", "Decimal", "UUID", "timedelta", "bytes", "range", "Any",
]  # fmt: skip
ALL_LEAVES = CORE + EXTRA
# Restricted strings come in two pattern classes: NARROW (RS, Email: the text of no non-string value of the alphabets
# matches) and WIDE (NotEmptyStr: str() of every non-string value of the alphabets matches, so only the *kind* of the
# value can make the type reject it).  Email is a second narrow one and is combined with fewer partners ("light").
LIGHT_LEAVES = ["Email"]
UNHASHABLE_LEAVES = {"Any", "Path_fr", "Path_dc"}  # jsonargparse.Path defines __eq__ without __hash__

EMAIL_RE = r"^[^@ ]+@[^@ ]+\.[^@ ]+$"
NES_RE = r"^.*[^ ].*$"
RS_RE = r"^[A-Z]{2}$"

# conforming inputs per leaf (JSON value specs); the first one is the "template" value
CONF = {
    "str": ["a", "1", "null", "[1]", "true", ""],
    "int": [1, 0, -1],
    "float": [1.5, 2, -0.5],
    "bool": [True, False],
    "none": [None],
    "E": ["A", "B", {"__enum__": ["E", "A"]}],
    "EY": ["on", "null", "true", "no", "y", {"__enum__": ["EY", "null"]}],
    "L1": ["a", 1, None],
    "L2": ["1", "null", 2],
    "L3": [True, 0],
    "PositiveInt": [1, 3],
    "ClosedUnitInterval": [0.5, 0, 1.0],
    "RInt": [2, 4],
    "RFlt": [1.5, -1.0],
    "Email": ["x@y.z"],
    "NotEmptyStr": ["a", "1", "null", "[1]", "true"],
    "RS": ["AB"],
    "PPath": ["a", "/tmp"],
    "Path_fr": ["/etc/passwd"],
    "Path_dc": ["/tmp"],
    "complex": ["1+2j"],
    "Decimal": ["1.5", 2],
    "UUID": ["12345678-1234-5678-1234-567812345678"],
    "timedelta": ["1:02:03"],
    "bytes": ["YWJj"],
    "range": ["range(3)"],
    "Any": [1, "a", [1], {"a": 1}],
}
# leaves whose accepted inputs are the business of C20/C19: completeness is demanded only for CONF values
LISTED_ONLY = {"Path_fr", "Path_dc", "complex", "Decimal", "UUID", "timedelta", "bytes", "range"}

LEAF_KIND = {
    "E": "Enum", "EY": "Enum", "L1": "Literal", "L2": "Literal", "L3": "Literal",
    "PositiveInt": "restricted-int", "RInt": "restricted-int", "ClosedUnitInterval": "restricted-float",
    "RFlt": "restricted-float", "Email": "restricted-str", "RS": "restricted-str", "NotEmptyStr": "restricted-str",
    "PPath": "path",
    "Path_fr": "path", "Path_dc": "path", "complex": "registered", "Decimal": "registered", "UUID": "registered",
    "timedelta": "registered", "bytes": "registered", "range": "registered",
}  # fmt: skip

_LT = None


def leaf_types():
    global _LT
    if _LT is None:
        import datetime
        import decimal
        import pathlib
        import typing
        import uuid

        from jsonargparse import typing as jt

        _LT = {
            "str": str, "int": int, "float": float, "bool": bool, "none": type(None), "E": E, "EY": EY,
            "L1": typing.Literal["a", 1, None],
            "L2": typing.Literal["1", "null", 2],
            "L3": typing.Literal[True, 0],
            "PositiveInt": jt.PositiveInt,
            "ClosedUnitInterval": jt.ClosedUnitInterval,
            "RInt": jt.restricted_number_type("C02Int2to5", int, [(">=", 2), ("<", 5)]),
            "RFlt": jt.restricted_number_type("C02FloatOutside01", float, [("<", 0.0), (">", 1.0)], join="or"),
            "Email": jt.Email,
            "NotEmptyStr": jt.NotEmptyStr,
            "RS": jt.restricted_string_type("C02AZ2", RS_RE),
            "PPath": pathlib.Path, "Path_fr": jt.Path_fr, "Path_dc": jt.Path_dc,
            "complex": complex, "Decimal": decimal.Decimal, "UUID": uuid.UUID, "timedelta": datetime.timedelta,
            "bytes": bytes, "range": range, "Any": typing.Any,
        }  # fmt: skip
    return _LT


def typed_in(v, items):
    return any(type(v) is type(x) and v == x for x in items)


def _num(v, base):
    return isinstance(v, base) and not isinstance(v, bool)


def leaf_conforms(name, r):
    """Result side: exact type / membership / predicate, written against the spec only."""
    if name == "Any":
        return True
    if name == "str":
        return type(r) is str
    if name == "int":
        return type(r) is int
    if name == "float":
        return type(r) is float
    if name == "bool":
        return type(r) is bool
    if name == "none":
        return r is None
    if name in ENUMS:
        return type(r) is ENUMS[name]
    if name in LITERALS:
        return typed_in(r, LITERALS[name])
    if name == "PositiveInt":
        return _num(r, int) and r > 0
    if name == "RInt":
        return _num(r, int) and 2 <= r < 5
    if name == "ClosedUnitInterval":
        return isinstance(r, float) and 0 <= r <= 1
    if name == "RFlt":
        return isinstance(r, float) and (r < 0 or r > 1)
    if name == "Email":
        return isinstance(r, str) and re.match(EMAIL_RE, r) is not None
    if name == "RS":
        return isinstance(r, str) and re.match(RS_RE, r) is not None
    if name == "NotEmptyStr":
        return isinstance(r, str) and re.match(NES_RE, r) is not None
    if name == "PPath":
        import pathlib

        return isinstance(r, pathlib.PurePath)
    return isinstance(r, leaf_types()[name])


def leaf_shape_ok(name, v):
    """Input side: is the (decoded) input value a conforming spelling for this leaf?  Deliberately narrow."""
    if name == "Any":
        return True
    if name == "str":
        return type(v) is str
    if name == "int":
        return type(v) is int
    if name == "float":
        return type(v) in (int, float)
    if name == "bool":
        return type(v) is bool
    if name == "none":
        return v is None
    if name in ENUMS:
        return type(v) is ENUMS[name] or (type(v) is str and v in ENUMS[name].__members__)
    if name in LITERALS:
        return typed_in(v, LITERALS[name])
    if name == "PositiveInt":
        return type(v) is int and v > 0
    if name == "RInt":
        return type(v) is int and 2 <= v < 5
    if name == "ClosedUnitInterval":
        return type(v) in (int, float) and 0 <= v <= 1
    if name == "RFlt":
        return type(v) in (int, float) and (v < 0 or v > 1)
    if name == "Email":
        return type(v) is str and re.match(EMAIL_RE, v) is not None
    if name == "RS":
        return type(v) is str and re.match(RS_RE, v) is not None
    if name == "NotEmptyStr":
        return type(v) is str and re.match(NES_RE, v) is not None
    if name == "PPath":
        return type(v) is str and v != ""
    return typed_in(v, [decode(c) for c in CONF[name]])


# ------------------------------------------------------------------------------------------------
# type specs

UNARY = ("List", "Set", "TupleVar", "Dict", "DictInt")


def is_leaf(spec):
    return isinstance(spec, str)


def show(spec):
    if is_leaf(spec):
        return {"none": "None"}.get(spec, spec)
    c, args = spec[0], spec[1:]
    a = [show(x) for x in args]
    if c == "Union":
        if len(args) == 2 and "none" in args:
            other = a[1] if args[0] == "none" else a[0]
            return f"Optional[{other}]" if args[1] == "none" else f"Union[None, {other}]"
        return "Union[" + ", ".join(a) + "]"
    if c == "Dict":
        return f"Dict[str, {a[0]}]"
    if c == "DictInt":
        return f"Dict[int, {a[0]}]"
    if c == "TupleVar":
        return f"Tuple[{a[0]}, ...]"
    if c == "Tuple" and not a:
        return "Tuple[()]"
    return f"{c}[" + ", ".join(a) + "]"


def cj(x):
    return json.dumps(x, sort_keys=True, separators=(",", ":"))


def norm(spec):
    """Flatten Union-in-Union, drop duplicate members (what typing does), keep the written order."""
    if is_leaf(spec):
        return spec
    c = spec[0]
    args = [norm(a) for a in spec[1:]]
    if c == "Union":
        flat = []
        for a in args:
            for m in a[1:] if (not is_leaf(a) and a[0] == "Union") else [a]:
                if all(family(m) != family(x) for x in flat):
                    flat.append(m)
        return flat[0] if len(flat) == 1 else ["Union"] + flat
    return [c] + args


def family(spec):
    """Canonical representative of the set of all member orders: Union members sorted at every node."""
    if is_leaf(spec):
        return spec
    c = spec[0]
    args = [family(a) for a in spec[1:]]
    if c == "Union":
        args.sort(key=cj)
    return [c] + args


def perms(spec):
    """Every spelling of the type hint obtained by permuting the members of every Union node."""
    if is_leaf(spec):
        yield spec
        return
    c = spec[0]
    subs = [list(perms(a)) for a in spec[1:]]
    if c == "Union":
        for order in itertools.permutations(range(len(subs))):
            for combo in itertools.product(*[subs[i] for i in order]):
                yield [c] + list(combo)
    else:
        for combo in itertools.product(*subs):
            yield [c] + list(combo)


def depth(spec):
    return 0 if is_leaf(spec) else 1 + max([depth(a) for a in spec[1:]], default=0)  # ["Tuple"] = Tuple[()]: depth 1


def ctors(spec):
    return set() if is_leaf(spec) else {spec[0]}.union(*[ctors(a) for a in spec[1:]])


def hashable(spec):
    if is_leaf(spec):
        return spec not in UNHASHABLE_LEAVES
    if spec[0] in ("Tuple", "TupleVar", "Union"):
        return all(hashable(a) for a in spec[1:])
    return False


def well_formed(spec):
    if is_leaf(spec):
        return spec != "none"
    c = spec[0]
    if c == "Set" and not hashable(spec[1]):
        return False
    if c == "Union":
        return all(a == "none" or well_formed(a) for a in spec[1:]) and any(a != "none" for a in spec[1:])
    return all(well_formed(a) for a in spec[1:])


def top_kind(spec):
    if is_leaf(spec):
        return LEAF_KIND.get(spec, spec)
    return spec[0]


def clear_typing_caches():
    """typing caches generic aliases by *equal* parameters and Union[int,str] == Union[str,int]: without this
    List[Union[str,int]] silently is the earlier List[Union[int,str]] object (member order of the first one)."""
    import typing

    for f in getattr(typing, "_cleanups", ()):
        f()


def _build(spec):
    import typing

    if is_leaf(spec):
        return leaf_types()[spec]
    c = spec[0]
    a = [_build(x) for x in spec[1:]]
    if c == "List":
        return typing.List[a[0]]
    if c == "Set":
        return typing.Set[a[0]]
    if c == "TupleVar":
        return typing.Tuple[a[0], ...]
    if c == "Tuple":
        return typing.Tuple[tuple(a)]
    if c == "Dict":
        return typing.Dict[str, a[0]]
    if c == "DictInt":
        return typing.Dict[int, a[0]]
    if c == "Union":
        return typing.Union[tuple(a)]
    raise AssertionError(spec)


def _same(T, spec):
    import typing

    if is_leaf(spec):
        return T is leaf_types()[spec]
    c = spec[0]
    want = {"List": list, "Set": set, "TupleVar": tuple, "Tuple": tuple, "Dict": dict, "DictInt": dict, "Union": typing.Union}[c]
    if typing.get_origin(T) is not want:
        return False
    targs = list(typing.get_args(T))
    if c == "TupleVar":
        if len(targs) != 2 or targs[1] is not Ellipsis:
            return False
        targs = targs[:1]
    if c in ("Dict", "DictInt"):
        if len(targs) != 2 or targs[0] is not (str if c == "Dict" else int):
            return False
        targs = targs[1:]
    return len(targs) == len(spec) - 1 and all(_same(t, s) for t, s in zip(targs, spec[1:]))


def build_type(spec):
    from mc.core import HarnessError

    clear_typing_caches()
    T = _build(spec)
    if not _same(T, spec):
        raise HarnessError(f"typing object {T!r} does not have the structure / member order of spec {spec!r}")
    return T


# ------------------------------------------------------------------------------------------------
# values (JSON value specs) and their classification


def decode(v):
    if isinstance(v, list):
        return [decode(x) for x in v]
    if isinstance(v, dict):
        if "__enum__" in v:
            return ENUMS[v["__enum__"][0]][v["__enum__"][1]]
        if "__tuple__" in v:
            return tuple(decode(x) for x in v["__tuple__"])
        if "__items__" in v:
            return {decode(k): decode(x) for k, x in v["__items__"]}
        if "__set__" in v:
            return {decode(x) for x in v["__set__"]}
        if "__obj__" in v:
            return leaf_object(*v["__obj__"])
        return {k: decode(x) for k, x in v.items()}
    return v


def leaf_object(name, text):
    """A Python object of a registered / path leaf type, built with the type's own constructor from the text of a
    listed conforming input (used for declared defaults only, never as a parse input)."""
    import base64
    import datetime

    if name == "timedelta":
        h, m, sec = (int(x) for x in text.split(":"))
        return datetime.timedelta(hours=h, minutes=m, seconds=sec)
    if name == "bytes":
        return base64.b64decode(text)
    if name == "range":
        return range(int(re.fullmatch(r"range\((\d+)\)", text).group(1)))
    return leaf_types()[name](text)


@functools.lru_cache(maxsize=None)
def yaml_kind(text):
    """How a stock YAML reader classifies a text (used to classify values and to model the NoneType member)."""
    import yaml

    if text.strip() == "":
        return "empty"
    try:
        x = yaml.safe_load(text)
    except Exception:
        return "err"
    if x is None:
        return "null"
    for t, n in ((bool, "bool"), (int, "int"), (float, "float"), (str, "str"), (list, "list"), (dict, "dict")):
        if isinstance(x, t):
            return n
    return "other"


@functools.lru_cache(maxsize=None)
def yaml_value(text):
    """What a stock YAML reader makes of a text (the text itself when it cannot be read).  Cached: read-only use."""
    import yaml

    try:
        return yaml.safe_load(text)
    except Exception:
        return text


def vclass(v):
    """Shape class of an (encoded) value, for signatures."""
    if v is None:
        return "none"
    if isinstance(v, bool):
        return "bool"
    if isinstance(v, int):
        return "int"
    if isinstance(v, float):
        return "float"
    if isinstance(v, str):
        k = yaml_kind(v)
        return "str" if k == "str" else f"str~{k}"
    if isinstance(v, list):
        return "list"
    if isinstance(v, dict):
        if "__enum__" in v:
            return "enum"
        if "__tuple__" in v:
            return "tuple"
        return "dict"
    return type(v).__name__


def tname(r):
    t = type(r)
    return t.__name__


def conforms(r, spec, _d=0):
    """None when the parsed result conforms exactly to the spec, else (tag, depth) naming the innermost failing
    node (for a Union: the member that fails deepest, i.e. the one whose outer shape the value has)."""
    if is_leaf(spec):
        return None if leaf_conforms(spec, r) else (f"{LEAF_KIND.get(spec, spec)}:got-{tname(r)}", _d)
    c = spec[0]
    if c == "Union":
        fails = []
        for m in spec[1:]:
            f = conforms(r, m, _d)
            if f is None:
                return None
            fails.append(f)
        deepest = max(fails, key=lambda f: f[1])
        return deepest if deepest[1] > _d else (f"Union:got-{tname(r)}", _d)
    if c == "List":
        if type(r) is not list:
            return (f"List:got-{tname(r)}", _d)
        items, subs = r, [spec[1]] * len(r)
    elif c == "Set":
        if type(r) is not set:
            return (f"Set:got-{tname(r)}", _d)
        items, subs = list(r), [spec[1]] * len(r)
    elif c == "TupleVar":
        if type(r) is not tuple:
            return (f"Tuple:got-{tname(r)}", _d)
        items, subs = r, [spec[1]] * len(r)
    elif c == "Tuple":
        if type(r) is not tuple:
            return (f"Tuple:got-{tname(r)}", _d)
        if len(r) != len(spec) - 1:
            return ("Tuple:arity", _d + 1)
        items, subs = r, spec[1:]
    elif c in ("Dict", "DictInt"):
        if type(r) is not dict:
            return (f"Dict:got-{tname(r)}", _d)
        kt = str if c == "Dict" else int
        for k in r:
            if type(k) is not kt:
                return (f"{c}-key:not-{kt.__name__}", _d + 1)
        items, subs = list(r.values()), [spec[1]] * len(r)
    else:
        raise AssertionError(spec)
    for x, s in zip(items, subs):
        f = conforms(x, s, _d + 1)
        if f:
            return f
    return None


def shape_ok(v, spec):
    """Input side (decoded Python value): conforming by construction?  JSON has no tuple/set: lists stand for them."""
    if is_leaf(spec):
        return leaf_shape_ok(spec, v)
    c = spec[0]
    if c == "Union":
        return any(shape_ok(v, m) for m in spec[1:])
    if c in ("List", "Set"):
        return type(v) is list and all(shape_ok(x, spec[1]) for x in v)
    if c == "TupleVar":
        return type(v) in (list, tuple) and all(shape_ok(x, spec[1]) for x in v)
    if c == "Tuple":
        return type(v) in (list, tuple) and len(v) == len(spec) - 1 and all(shape_ok(x, s) for x, s in zip(v, spec[1:]))
    if c == "Dict":
        return type(v) is dict and all(type(k) is str and shape_ok(x, spec[1]) for k, x in v.items())
    if c == "DictInt":
        return type(v) is dict and all(
            (type(k) is int or (type(k) is str and re.fullmatch(r"-?[0-9]+", k) is not None)) and shape_ok(x, spec[1])
            for k, x in v.items()
        )
    raise AssertionError(spec)


ADMISSIBLE_LEAVES = {"str", "int", "float", "bool", "none", "E", "EY", "L1", "L2", "L3", "Any"}


def string_free(v):
    if isinstance(v, str):
        return False
    if isinstance(v, (list, tuple)):
        return all(string_free(x) for x in v)
    if isinstance(v, dict):
        return all(string_free(x) for x in v.values())
    return True


def admissible(v, spec):
    """Reference decision for a *string-free* decoded input (strings are config text / spellings and are judged
    only differentially): True = of the declared kind, False = of a wrong kind (must be rejected), None = this
    validator does not decide (restricted / registered leaves, exotic keys)."""
    if is_leaf(spec):
        if LEAF_KIND.get(spec) == "restricted-str":
            return False  # a restricted string is a str: no string-free object is of that kind, whatever its text matches
        if spec not in ADMISSIBLE_LEAVES:
            return None
        return leaf_shape_ok(spec, v)
    c = spec[0]
    if c == "Union":
        res = [admissible(v, m) for m in spec[1:]]
        return True if True in res else (None if None in res else False)
    if c in ("Dict", "DictInt"):
        if type(v) is not dict:
            return False
        if any(type(k) is not (str if c == "Dict" else int) and not (c == "DictInt" and type(k) is str) for k in v):
            return None  # keys of another kind: see the Dict-key soundness class
        if c == "DictInt" and not all(int_key_ok(k) for k in v):
            return False
        res = [admissible(x, spec[1]) for x in v.values()]
    else:
        if type(v) is tuple and c in ("List", "Set"):
            return None  # any non-mapping iterable is taken for a list: lenient by design, not judged
        if type(v) not in (list, tuple):
            return False
        if c == "Tuple":
            if len(v) != len(spec) - 1:
                return False
            res = [admissible(x, s) for x, s in zip(v, spec[1:])]
        else:
            res = [admissible(x, spec[1]) for x in v]
    return False if False in res else (None if None in res else True)


NOT_TYPED = object()


def json_container(text):
    """The list / dict that a JSON text denotes, else NOT_TYPED."""
    try:
        x = json.loads(text)
    except ValueError:
        return NOT_TYPED
    return x if isinstance(x, (list, dict)) else NOT_TYPED


def nullable(spec):
    """Does the type admit None as a *value* (as opposed to top-level None = 'unset')?"""
    if is_leaf(spec):
        return spec in ("none", "Any", "L1")
    return spec[0] == "Union" and any(nullable(m) for m in spec[1:])


# universal replacement alphabets
R_TOP = [
    True, 0, 1, -1, 1.0, 1.5, 0.5,
    "a", "A", "1", "1.0", "true", "null", "~", "[1]", '{"a":1}', "1e3", "", "on",
    [], [1], ["a"], [1, 2], [1, "a"], [None], [[1]],
    {}, {"a": 1}, {"a": "b"}, {"1": 1}, {"__items__": [[1, 1]]},
]  # fmt: skip
R_TOP_EXTRA = [False, 2, "AB", "x@y.z", [1, 2, 3], [True], {"a": None}]  # thorough tier only
R_TOP2 = [
    True, 1, 1.5, "a", "1", "true", "null", "[1]", '{"a":1}', "",
    [], [1], ["a"], [1, "a"], [[1]], {}, {"a": 1}, {"a": "b"},
]  # fmt: skip
R_NEST = [None, True, 0, 1, 1.5, "a", "1", "null", "[1]", "A", [], [1], ["a"], {}, {"a": 1}]
R_DEEP = [None, True, 1, "a", "1", [1], {"a": 1}]
# texts for the argv channel that are not the rendering of a value of the alphabets above
T_TOP = ["Null", "yes", ".5", "+1", "0x10", "1_0", " 1", "[1", "{a: 1}", "a: 1", "[1, a]", '"a"', '"1"', "1.", ".inf", "-"]


def conf(spec, n):
    """Up to n conforming inputs (value specs) of a type, simplest first."""
    if is_leaf(spec):
        return CONF[spec][:n]
    c = spec[0]
    if c == "Union":
        out = []
        for m in spec[1:]:
            out += conf(m, max(1, n // 2))
        return out[: max(n, len(spec) - 1)]
    if c == "Tuple":
        base = [conf(a, 1)[0] for a in spec[1:]]
        return [base, {"__tuple__": base}][:n]
    cs = conf(spec[1], 2)
    c1, c2 = cs[0], cs[-1]
    if c in ("List", "TupleVar", "Set"):
        return [[c1], [], [c1, c2]][:n]
    if c == "Dict":
        return [{"a": c1}, {}, {"a": c1, "b": c2}][:n]
    if c == "DictInt":
        return [{"1": c1}, {}, {"__items__": [[1, c1], [2, c2]]}][:n]
    raise AssertionError(spec)


def dedupe(values):
    seen, out = set(), []
    for v in values:
        k = cj(v)
        if k not in seen:
            seen.add(k)
            out.append(v)
    return out


def variants(spec, level, prof):
    """Candidate inputs for a position of type `spec`: the replacement alphabet, the conforming values, and every
    value that keeps a conforming container at this position and deviates at exactly one position inside it."""
    if level == 0:
        alphabet = prof["top"]
    else:
        alphabet = R_NEST if (level == 1 or prof["rich"]) else R_DEEP
    out = list(alphabet) + conf(spec, 6 if level == 0 else 2) + inside(spec, level, prof)
    if level == 0:
        out = [v for v in out if v is not None]  # top-level None means "not given", whatever the type
    return dedupe(out)


def inside(spec, level, prof):
    if is_leaf(spec):
        return []
    c = spec[0]
    out = []
    if c == "Union":
        for m in spec[1:]:
            out += inside(m, level, prof)
        return out
    tpl = prof["tpl0"] if level == 0 else (prof["tpl0"] if prof["rich"] else ("x",))
    if c in ("List", "TupleVar", "Set"):
        c1 = conf(spec[1], 1)[0]
        for x in variants(spec[1], level + 1, prof):
            out.append([x])
            if "cx" in tpl:
                out.append([c1, x])
            if "xc" in tpl:
                out.append([x, c1])
        if c == "TupleVar" and level == 0:
            out.append({"__tuple__": [c1, c1]})
        return out
    if c == "Tuple":
        base = [conf(a, 1)[0] for a in spec[1:]]
        for i, a in enumerate(spec[1:]):
            for x in variants(a, level + 1, prof):
                t = list(base)
                t[i] = x
                out.append(t)
        # arity changes: one item less, one more (a conforming item / None), empty
        more = base[-1] if base else 1
        out += ([base[:-1]] if base else []) + [base + [more], base + [None], []]
        if level == 0:
            out.append({"__tuple__": base[:-1] if base else [more]})
        return out
    if c in ("Dict", "DictInt"):
        c1 = conf(spec[1], 1)[0]
        k1, k2 = ("a", "b") if c == "Dict" else ("1", "2")
        for x in variants(spec[1], level + 1, prof):
            out.append({k1: x})
            if "cx" in tpl:
                out.append({k1: c1, k2: x})
        if level == 0 or prof["rich"]:
            out += [{"__items__": [[1, c1]]}, {"1": c1}, {"a": c1}, {"null": c1}, {"__items__": [[True, c1]]}]
        return out
    raise AssertionError(spec)


def render(v):
    """argv text of an (encoded) value; None when the value has no textual spelling (enum / tuple objects)."""
    if isinstance(v, str):
        return v
    s = cj(v)
    if "__enum__" in s or "__tuple__" in s or "__items__" in s:
        return None
    return json.dumps(v)


def profile(spec, tier):
    """How wide the value alphabet is for a type of this depth in this tier (stated in the evidence)."""
    d = depth(spec)
    if tier == "thorough":
        return {"top": R_TOP + R_TOP_EXTRA, "texts": T_TOP, "tpl0": ("x", "cx", "xc"), "rich": d <= 3}
    if d <= 1:
        # the extra argv texts: all 16 for leaves and for Unions with at least one core member (or None), the first
        # six for the other depth-1 types (containers; Unions of two non-core leaves - each of those leaves sees all
        # 16 on its own and in its Unions with every core leaf)
        texts = T_TOP if (is_leaf(spec) or (spec[0] == "Union" and leaves_of(spec) & (set(CORE) | {"none"}))) else T_TOP[:6]
        return {"top": R_TOP, "texts": texts, "tpl0": ("x", "cx", "xc"), "rich": False}
    return {"top": R_TOP2, "texts": T_TOP[:6], "tpl0": ("x", "cx") if d == 2 else ("x",), "rich": False}


def cases_for(spec, tier):
    prof = profile(spec, tier)
    vals = variants(spec, 0, prof)
    out = [("object", v) for v in vals]
    texts = [t for t in map(render, vals) if t is not None] + list(prof["texts"])
    out += [("argv", t) for t in dedupe(texts)]
    return out


# ------------------------------------------------------------------------------------------------
# the "declared default" axis: the same argument declared with a conforming default value

# conforming *result-side* values per leaf (exact Python type), usable as `default=` of the argument.  The numeric
# ones are chosen so that a value of ANOTHER kind compares == to them (True == 1 == 1.0, False == 0 == 0.0).
DEFAULTS = {
    "str": ["a", "1", "null"],
    "int": [1, 0, 2],
    "float": [1.0, 0.5, 0.0],
    "bool": [True, False],
    "E": [{"__enum__": ["E", "A"]}],
    "EY": [{"__enum__": ["EY", "null"]}],
    "L1": [1, "a"],
    "L2": [2, "1"],
    "L3": [True, 0],
    "PositiveInt": [1, 3],
    "ClosedUnitInterval": [1.0, 0.5],
    "RInt": [2],
    "RFlt": [2.0, -1.0],
    "Email": ["x@y.z"],
    "NotEmptyStr": ["a", "1"],
    "RS": ["AB"],
    "PPath": [{"__obj__": ["PPath", "a"]}],
    "Path_fr": [{"__obj__": ["Path_fr", "/etc/passwd"]}],
    "Path_dc": [{"__obj__": ["Path_dc", "/tmp"]}],
    "complex": [{"__obj__": ["complex", "1+2j"]}],
    "Decimal": [{"__obj__": ["Decimal", "1.5"]}, {"__obj__": ["Decimal", "1"]}],
    "UUID": [{"__obj__": ["UUID", "12345678-1234-5678-1234-567812345678"]}],
    "timedelta": [{"__obj__": ["timedelta", "1:02:03"]}],
    "bytes": [{"__obj__": ["bytes", "YWJj"]}],
    "range": [{"__obj__": ["range", "range(3)"]}],
    "Any": [1, "a", True],
}


def defaults_for(spec, n):
    """Up to n conforming defaults (encoded Python values of the exact result type) for an argument of this type.
    `None` is never listed: it is the same as declaring no default."""
    if is_leaf(spec):
        return [] if spec == "none" else DEFAULTS[spec][:n]
    c = spec[0]
    if c == "Union":  # the first default(s) of every member: a default "belongs" to one member
        out = []
        for m in spec[1:]:
            out += defaults_for(m, max(1, n // 2))
        return dedupe(out)
    if c == "Tuple":
        return [{"__tuple__": [defaults_for(a, 1)[0] for a in spec[1:]]}][:n]
    ds = defaults_for(spec[1], 2)
    d1, d2 = ds[0], ds[-1]
    if c == "List":
        return [[d1], [d1, d2]][:n]
    if c == "Set":
        return [{"__set__": [d1]}][:n]
    if c == "TupleVar":
        return [{"__tuple__": [d1]}, {"__tuple__": [d1, d2]}][:n]
    if c == "Dict":
        return [{"a": d1}, {"a": d1, "b": d2}][:n]
    if c == "DictInt":
        return [{"__items__": [[1, d1]]}][:n]
    raise AssertionError(spec)


def as_input(d):
    """The encoded default as a parse INPUT (JSON-like: lists stand for tuples / sets); None when it contains an
    object without an input spelling."""
    if isinstance(d, list):
        xs = [as_input(x) for x in d]
        return None if any(x is None for x in xs) else xs
    if isinstance(d, dict):
        if "__enum__" in d:
            return d["__enum__"][1]
        if "__obj__" in d:
            return None
        if "__tuple__" in d or "__set__" in d:
            return as_input(d.get("__tuple__", d.get("__set__")))
        if "__items__" in d:
            items = [[k, as_input(x)] for k, x in d["__items__"]]
            return None if any(x is None for _, x in items) else {"__items__": items}
        out = {k: as_input(x) for k, x in d.items()}
        return None if any(x is None for x in out.values()) else out
    return d


def scalar_twins(x):
    """Values of another scalar kind that compare == to x in Python (the candidates for being confused with it)."""
    if type(x) is bool:
        return [int(x), float(x)]
    if type(x) is int:
        return ([bool(x)] if x in (0, 1) else []) + [float(x)]
    if type(x) is float and x == int(x):
        return ([bool(x)] if x in (0.0, 1.0) else []) + [int(x)]
    if type(x) is str:  # the text of the string read as a scalar of another kind, when it is one
        k = yaml_kind(x)
        if k in ("bool", "int", "float"):
            import yaml

            return [yaml.safe_load(x)]
    return []


def twins(v):
    """Every input equal to the (input form of the) default except for the kind of the scalar at ONE position."""
    if isinstance(v, list):
        return [v[:i] + [t] + v[i + 1 :] for i, x in enumerate(v) for t in twins(x)]
    if isinstance(v, dict):
        if "__items__" in v:
            its = v["__items__"]
            return [{"__items__": its[:i] + [[k, t]] + its[i + 1 :]} for i, (k, x) in enumerate(its) for t in twins(x)]
        return [{**v, k: t} for k, x in v.items() for t in twins(x)]
    return scalar_twins(v)


def py_equal(a, b):
    """Python == between a decoded input and a decoded default, lists standing for tuples / sets."""
    try:
        if isinstance(b, (tuple, set, frozenset)) and isinstance(a, list):
            return len(a) == len(b) and (set(a) == b if isinstance(b, (set, frozenset)) else tuple(a) == b)
        return bool(a == b)
    except Exception:
        return False


def default_axis(spec, tier):
    """The defaults with which the family is re-explored (empty: family not part of the default axis in this tier)."""
    d = depth(spec)
    core = set(CORE) | {"L1", "L3", "Any", "none"}
    if tier == "thorough":
        if d <= 1:
            return defaults_for(spec, 3)
        if d == 2 and (spec[0] in ("List", "Dict") or (spec[0] == "Union" and "none" in spec[1:] and len(spec) == 3)):
            return defaults_for(spec, 1)
        return []
    if d == 0:
        return defaults_for(spec, 2)
    if d > 1:
        return []
    if spec[0] == "Union":
        if len(spec) != 3:
            return []
        if "none" in spec[1:]:  # Optional[leaf], every leaf
            return defaults_for(spec, 2 if leaves_of(spec) <= core else 1)
        return defaults_for(spec, 2) if leaves_of(spec) <= core else []
    if spec[0] == "Tuple":
        if len(spec) != 3:  # other arities: the zero-length tuple and Tuple[A] over a core leaf
            return defaults_for(spec, 1) if all(a in CORE for a in spec[1:]) and len(spec) < 3 else []
        return defaults_for(spec, 1) if (spec[2] == "int" and spec[1] in CORE) else []
    return defaults_for(spec, 1) if spec[1] in CORE else []


def default_cases_for(spec, tier, dflt):
    """(channel, value) list for one declared default: the family's own candidate values, the default itself as an
    input, its ==-twins of another scalar kind, and the absence of the key."""
    prof = profile(spec, tier)
    vals = variants(spec, 0, prof)
    di = as_input(dflt)
    if di is not None:
        vals = dedupe(vals + [di] + twins(di))
    out = [("absent", None)] + [("object", v) for v in vals]
    texts = [t for t in map(render, vals) if t is not None] + list(prof["texts"] if tier == "thorough" else prof["texts"][:6])
    out += [("argv", t) for t in dedupe(texts)]
    return out


# ------------------------------------------------------------------------------------------------
# executing one (type, channel, value) on the real code

_memo = {}
_stats = {"parses": 0}


MEMO_CAP = 120_000


def accept(spec, chan, v, dflt=None):
    """Outcome of ONE fresh parser for `spec` on one input.  Memoised per process: the evaluation is a pure function
    of its arguments (fresh type objects, fresh parser, freshly decoded value), and member / element parsers are
    shared by many cases.  `run_case` starts from an empty memo.  `dflt` (encoded, never None) declares the argument
    with that default; channel "absent" parses an input that does not mention the key."""
    key = cj([spec, chan, v] if dflt is None else [spec, chan, v, dflt])
    hit = _memo.get(key)
    if hit is None:
        if len(_memo) >= MEMO_CAP:
            _memo.clear()
        hit = _memo[key] = _accept(spec, chan, v, dflt)
    return hit


def _accept(spec, chan, v, dflt=None):
    import jsonargparse

    from mc.core import HarnessError
    from mc.util import outcome

    try:
        T = build_type(spec)
        if dflt is not None:
            d = decode(dflt)
            if conforms(d, spec) is not None:
                raise HarnessError(f"default {d!r} does not conform to {show(spec)}")
    except HarnessError:
        raise
    try:
        parser = jsonargparse.ArgumentParser(exit_on_error=False)
        if dflt is None:
            parser.add_argument("--k", type=T)
        else:
            parser.add_argument("--k", type=T, default=d)
    except Exception as ex:  # the parser cannot even be declared
        return {"bit": None, "err": f"{type(ex).__name__}: {ex}"[:300]}
    _stats["parses"] += 1
    if chan == "object":
        o = outcome(parser.parse_object, {"k": decode(v)})
    elif chan == "absent":
        o = outcome(parser.parse_object, {})
    else:
        o = outcome(parser.parse_args, ["--k=" + v])
    if o["kind"] == "ok":
        try:
            return {"bit": True, "result": o["value"]["k"]}
        except Exception as ex:
            return {"bit": False, "kind": "no-key", "err": repr(ex)}
    if o["kind"] == "escape":
        return {"bit": False, "kind": "escape", "err": f"{o['type']}: {o.get('message', '')}"[:300]}
    return {"bit": False, "kind": o["kind"], "err": (o.get("message") or "")[:300]}


def none_member_accepts(chan, v):
    """Model of a Union member NoneType (a parser cannot be declared with that type alone)."""
    if v is None:
        return True
    return isinstance(v, str) and yaml_kind(v) == "null"


def member_accepts(m, chan, v):
    if m == "none":
        return none_member_accepts(chan, v)
    return accept(m, chan, v)["bit"]


SKIP = "skip"


def element_accepts(T, e):
    """Is the (encoded) element value accepted at a nested position of type T?  Reference: a fresh parser for T fed
    the element through parse_object - except where the top level differs from nested positions by design."""
    if e is None:
        return nullable(T)  # top-level None = unset; nested None is a value
    if isinstance(e, str) and yaml_kind(e) in ("list", "dict"):
        return SKIP  # top-level strings are config text (loaded into containers); nested strings are values
    return accept(T, "object", e)["bit"]


def structured(chan, v):
    """The container view of the input: encoded list / dict, or None."""
    if chan == "argv":
        try:
            v = json.loads(v)
        except ValueError:
            return None
    if isinstance(v, dict):
        if "__tuple__" in v:
            return list(v["__tuple__"])
        if "__enum__" in v:
            return None
    return v if isinstance(v, (list, dict)) else None


def int_key_ok(k):
    try:
        int(k)
        return True
    except (TypeError, ValueError):
        return False


def expected_container(spec, sv):
    """(expected accept bit | SKIP | None when the oracle does not apply, offending element)."""
    c = spec[0]
    if c in ("List", "TupleVar", "Set", "Tuple"):
        if not isinstance(sv, list):
            return None, None
        if c == "Tuple":
            if len(sv) != len(spec) - 1:
                return False, "arity"
            pairs = list(zip(spec[1:], sv))
        else:
            pairs = [(spec[1], e) for e in sv]
    else:
        if not isinstance(sv, dict):
            return None, None
        items = [(k, x) for k, x in sv["__items__"]] if "__items__" in sv else list(sv.items())
        if c == "DictInt" and not all(int_key_ok(k) for k, _ in items):
            return False, "key"
        if c == "Dict" and not all(isinstance(k, str) for k, _ in items):
            return None, None  # keys are not elements: a non-str key is judged by soundness only (reject is fine)
        pairs = [(spec[1], x) for _, x in items]
    skip = False
    for T, e in pairs:
        b = element_accepts(T, e)
        if b is SKIP:
            skip = True
        elif b is None:
            return None, None
        elif not b:
            return False, e
    return (SKIP if skip else True), None


def conforming_input(spec, chan, v):
    """Is this input a spelling of a conforming value (so that rejecting it violates completeness)?"""
    if chan == "object":
        pv = decode(v)
        return pv is not None and shape_ok(pv, spec)
    if v.strip() != v or v == "":
        return False
    if shape_ok(v, spec):  # the text itself is a conforming string
        return True
    try:
        jv = json.loads(v)
    except ValueError:
        return False
    if jv is None or isinstance(jv, str):
        return False
    return shape_ok(jv, spec)


def judge(case):
    """All oracles on one case.  Returns (deviations [(signature, detail)], facts for coverage)."""
    spec, chan, v = case["type"], case["channel"], case["value"]
    devs = []
    facts = {"accepted": False, "oracles": []}
    plist = list(perms(spec))
    outs = [accept(p, chan, v) for p in plist]
    facts["perms"] = len(plist)
    failed = [p for p, o in zip(plist, outs) if o["bit"] is None]
    if failed:
        err = next(o["err"] for o in outs if o["bit"] is None)
        if len(failed) == len(plist):
            devs.append((f"construct:fails:{top_kind(spec)}", f"no parser can be declared for {show(spec)}: {err}"))
        else:
            ok = next(p for p, o in zip(plist, outs) if o["bit"] is not None)
            devs.append(
                (
                    "construct:fails-for-some-member-order",
                    f"a parser can be declared for {show(ok)} but not for {show(failed[0])}: {err}",
                )
            )
        return devs, facts
    bits = [o["bit"] for o in outs]
    vc = vclass_in(chan, v)
    facts["accepted"] = any(bits)
    # (i) soundness, for every spelling that accepts (reported independently of the decision oracles)
    for p, o in zip(plist, outs):
        if o["bit"]:
            facts["oracles"].append("sound")
            r = o["result"]
            tag = conforms(r, spec)
            if tag:
                devs.append((f"unsound:{tag[0]}", f"{show(p)} {chan} {v!r} -> {r!r} ({type(r).__name__})"))
                break
    # (v) kind soundness of the decision for string-free values given as objects: a value of a wrong kind at some
    # position (bool for int, int for bool, float for int, wrong arity, unknown literal ...) must be rejected even
    # when the implementation would coerce it into something that conforms (float(True) == 1.0)
    # The same for JSON text on argv whose top level is a container given to a container type: its items are typed
    # values, not config text (a top-level Union / leaf may still take the whole text as a string: not judged).
    pv, kc = NOT_TYPED, None
    if chan == "object":
        pv, kc = decode(v), vclass(v)
    elif not is_leaf(spec) and spec[0] != "Union":
        pv = json_container(v)
        kc = "json-text"
    if pv is not NOT_TYPED and string_free(pv):
        adm = admissible(pv, spec)
        if adm is not None:
            facts["oracles"].append(("kind+" if adm else "kind-") + ("" if chan == "object" else ":argv"))
            if adm is False and any(bits):
                p, o = next((p, o) for p, o in zip(plist, outs) if o["bit"])
                devs.append(
                    (
                        f"accepts-wrong-kind:{top_kind(spec)}:{kc}",
                        f"{show(p)} accepts the {chan} input {v!r} (-> {o['result']!r}), which has a wrong kind at some position",
                    )
                )
    # escapes (neither success nor ArgumentError) count as rejections here; that they must not happen is C03
    for o in outs:
        if not o["bit"] and o.get("kind") != "ArgumentError":
            facts["escape"] = o.get("err", "").split(":")[0][:60] or o.get("kind")
    # The decision oracles form a chain - the first one that fails names the case (a member-order dependence
    # necessarily also breaks the member-wise equivalence for one of the orders, and so on).
    decision = None
    # (iv) order invariance of the decision
    if len(plist) > 1:
        facts["oracles"].append("order")
        if len(set(bits)) > 1:
            yes = next(p for p, b in zip(plist, bits) if b)
            no = next(p for p, b in zip(plist, bits) if not b)
            err = next(o["err"] for o in outs if not o["bit"])
            if spec[0] == "Union":
                alone = [m for m in spec[1:] if member_accepts(m, chan, v)]
                kinds = {member_class(m) for m in alone}
                who = next((k for k in ("str", "container", "scalar", "none") if k in kinds), "no") + "-member-accepts-alone"
            else:
                who = "nested-Union"
            decision = (
                f"union-order:{vc}:{who}",
                f"{chan} {v!r}: accepted by {show(yes)} (-> {outs[plist.index(yes)]['result']!r}) but rejected by "
                f"{show(no)}: {last_line(err)}",
            )
    # (iii) compositionality of the top constructor (sub-terms are cases of their own: the grammar is sub-term closed)
    if not is_leaf(spec):
        if spec[0] == "Union":
            mem = [member_accepts(m, chan, v) for m in spec[1:]]
            if None not in mem:
                want = any(mem)
                facts["oracles"].append("member+" if want else "member-")
                if decision is None and bits[0] != want:
                    if want:
                        m = next(m for m, b in zip(spec[1:], mem) if b)
                        decision = (
                            f"union-memberwise:rejects-but-a-member-accepts:{vc}:{member_class(m)}",
                            f"{show(spec)} rejects {chan} {v!r} although {show(m)} alone accepts it: {last_line(outs[0]['err'])}",
                        )
                    else:
                        decision = (
                            f"union-memberwise:accepts-but-no-member-does:{vc}",
                            f"{show(spec)} accepts {chan} {v!r} (-> {outs[0].get('result')!r}) although none of its members alone does",
                        )
        else:
            sv = structured(chan, v)
            want, why = (None, None) if sv is None else expected_container(spec, sv)
            if want is not None and want is not SKIP:
                facts["oracles"].append("element+" if want else "element-")
                if decision is None and bits[0] != want:
                    if want:
                        decision = (
                            f"elementwise:{spec[0]}:rejects-but-every-element-is-accepted",
                            f"{show(spec)} rejects {chan} {v!r} although each element is accepted by its element type: "
                            f"{last_line(outs[0]['err'])}",
                        )
                    else:
                        r = outs[0].get("result")
                        if why not in ("arity", "key") and chan == "argv" and has_leaf(r, v) and not has_leaf(sv, v):
                            # root cause class of its own: the element became the text of the WHOLE argument
                            sig = "elementwise:accepts-a-rejected-element-as-the-whole-argv-text"
                        else:
                            wc = why if why in ("arity", "key") else eclass(why)
                            sig = f"elementwise:{spec[0]}:accepts-but-an-element-is-rejected:{wc}"
                        decision = (
                            sig,
                            f"{show(spec)} accepts {chan} {v!r} (-> {r!r}) although the element {why!r} is rejected by "
                            f"its element type {show(spec[1]) if len(spec) == 2 else ''}",
                        )
    # (ii) completeness
    if conforming_input(spec, chan, v):
        facts["oracles"].append("complete")
        if decision is None and not all(bits):
            p, o = next((p, o) for p, o in zip(plist, outs) if not o["bit"])
            decision = (
                f"incomplete:{chan}:{top_kind(spec)}:{vc}",
                f"{show(p)} rejects the conforming {chan} input {v!r}: {last_line(o['err']) or o.get('kind')}",
            )
    if decision is not None:
        devs.append(decision)
    return devs, facts


def judge_default(case):
    """The declared-default axis: the argument of `judge` declared with a conforming default.  A default does not
    change what the type accepts, so every spelling must decide exactly as the same spelling without a default does
    (that decision is itself judged by `judge` on the same (type, channel, value)), an accepted result must conform,
    and when the key is absent the parse must succeed with a conforming value.  Only what DIFFERS from the
    behaviour without a default is reported here (a defect that does not depend on the default has its own class)."""
    spec, chan, v, dflt = case["type"], case["channel"], case["value"], case["default"]
    devs = []
    facts = {"accepted": False, "oracles": [], "twin": False}
    plist = list(perms(spec))
    facts["perms"] = len(plist)
    outs = [accept(p, chan, v, dflt) for p in plist]
    if any(o["bit"] is None for o in outs):
        p, o = next((p, o) for p, o in zip(plist, outs) if o["bit"] is None)
        if accept(p, "object", 1)["bit"] is not None:  # the same spelling can be declared without a default
            devs.append(
                (
                    f"with-default:construct:fails:{top_kind(spec)}",
                    f"{show(p)} cannot be declared with the conforming default {decode(dflt)!r}: {o['err']}",
                )
            )
        return devs, facts
    facts["accepted"] = any(o["bit"] for o in outs)
    for o in outs:
        if not o["bit"] and o.get("kind") != "ArgumentError":
            facts["escape"] = o.get("err", "").split(":")[0][:60] or o.get("kind")
    if chan == "absent":
        facts["oracles"].append("dflt-absent")
        for p, o in zip(plist, outs):
            if not o["bit"]:
                devs.append(
                    (
                        f"with-default:absent:rejects-the-conforming-default:{top_kind(spec)}",
                        f"{show(p)} default={decode(dflt)!r}: a parse that does not mention the key fails: "
                        f"{last_line(o.get('err', '')) or o.get('kind')}",
                    )
                )
                break
            tag = conforms(o["result"], spec)
            if tag:
                devs.append(
                    (
                        f"with-default:absent:unsound:{tag[0]}",
                        f"{show(p)} default={decode(dflt)!r}: the key is absent and the result is {o['result']!r} "
                        f"({type(o['result']).__name__})",
                    )
                )
                break
        return devs, facts
    refs = [accept(p, chan, v) for p in plist]
    if any(r["bit"] is None for r in refs):
        return devs, facts  # reported by judge()
    # does the input compare == to the declared default (or to its input spelling, e.g. the name of an Enum member)?
    pd, di = decode(dflt), as_input(dflt)
    alts = [pd] if di is None else [pd, decode(di)]
    if chan == "object":
        pv = decode(v)
        equal = any(py_equal(pv, a) for a in alts)
        same = equal and conforms(pv, spec) is None  # the default itself (exact types)
    else:
        pv = yaml_value(v)
        equal = any(py_equal(pv, a) or py_equal(v, a) for a in alts)
        same = False
    eq = "equals-the-default" if equal else "differs-from-the-default"
    facts["twin"] = equal and not same
    facts["oracles"].append("dflt-decision")
    for p, o, r in zip(plist, outs, refs):
        if o["bit"] and not r["bit"]:
            devs.append(
                (
                    f"with-default:accepts-what-the-type-rejects:{eq}:{vclass_in(chan, v)}",
                    f"{show(p)} default={decode(dflt)!r} accepts {chan} {v!r} (-> {o['result']!r}, "
                    f"{type(o['result']).__name__}); the same argument without a default rejects it: {last_line(r.get('err', ''))}",
                )
            )
            break
        if r["bit"] and not o["bit"]:
            devs.append(
                (
                    f"with-default:rejects-what-the-type-accepts:{eq}:{vclass_in(chan, v)}",
                    f"{show(p)} default={decode(dflt)!r} rejects {chan} {v!r}: {last_line(o.get('err', '')) or o.get('kind')}; "
                    f"the same argument without a default accepts it (-> {r['result']!r})",
                )
            )
            break
    for p, o, r in zip(plist, outs, refs):
        if o["bit"]:
            facts["oracles"].append("dflt-sound")
            tag = conforms(o["result"], spec)
            if tag and not (r["bit"] and conforms(r["result"], spec)):
                devs.append(
                    (
                        f"with-default:unsound:{eq}:{tag[0].split(':', 1)[1]}",
                        f"{show(p)} default={decode(dflt)!r} {chan} {v!r} -> {o['result']!r} ({type(o['result']).__name__}): "
                        f"does not conform ({tag[0]})",
                    )
                )
                break
    return devs, facts


def last_line(text):
    return text.strip().splitlines()[-1].strip() if text and text.strip() else ""


def has_leaf(x, leaf):
    """Does the (decoded or encoded) structure contain `leaf` as a scalar item / dict value?"""
    if isinstance(x, (list, tuple, set, frozenset)):
        return any(has_leaf(e, leaf) for e in x)
    if isinstance(x, dict):
        return any(has_leaf(e, leaf) for e in x.values())
    return type(x) is type(leaf) and x == leaf


def member_class(m):
    if is_leaf(m):
        return m if m in ("str", "none") else "scalar"
    return "container"


def vclass_in(chan, v):
    """Coarse class of a top-level input, for signatures.  A top-level string is config text on both channels
    (`parse_object` loads it like argv does), so a text that reads as a list / mapping is a container input."""
    vc = vclass(v)
    if vc in ("list", "dict", "tuple", "str~list", "str~dict"):
        return "container"
    if vc == "str~null":
        return "null-text"
    if vc in ("str~bool", "str~int", "str~float"):
        return "scalar-text"
    if vc.startswith("str"):
        return "text"
    if vc in ("bool", "int", "float"):
        return "scalar"
    return vc


def eclass(e):
    """Class of a nested element (a value, never config text)."""
    vc = vclass(e)
    return "lookalike-str" if vc.startswith("str~") else vc


def run_case(case):
    _memo.clear()
    devs, _ = judge_default(case) if "default" in case else judge(case)
    return [{"signature": s, "detail": d} for s, d in devs]


# ------------------------------------------------------------------------------------------------
# the enumerated type grammar


def _add(out, seen, spec):
    spec = norm(spec)
    if not well_formed(spec):
        return False
    f = family(spec)
    k = cj(f)
    if k in seen:
        return False
    seen.add(k)
    out.append(f)
    return True


def grammar(tier):
    """Families of type hints (Union members canonically ordered; every order is explored per family)."""
    out, seen = [], set()
    groups = {}
    group_of = {}

    def group(name, specs):
        n0 = len(out)
        for s in specs:
            if _add(out, seen, s):
                group_of[cj(out[-1])] = name
        groups[name] = len(out) - n0

    L = ALL_LEAVES
    # G_0 / G_1: every leaf, every constructor over every leaf
    group("G0 leaves", L)
    group("G1 unary x all leaves", [[c, a] for c in UNARY for a in L])
    group("G1 Optional x all leaves", [["Union", a, "none"] for a in L])
    group("G1 Tuple[A,B]", [["Tuple", a, "int"] for a in L] + [["Tuple", "str", a] for a in L] + [["Tuple", a, b] for a in CORE for b in CORE])
    group("G1 Union pairs x all leaves", [["Union", a, b] for a, b in itertools.combinations(L, 2)])
    # fixed-length tuples of the other arities: 0 (Tuple[()], whose argument list is EMPTY), 1 and 3
    T0 = ["Tuple"]
    group(
        "G1 Tuple arities 0, 1, 3",
        [T0] + [["Tuple", a] for a in CORE] + [["Tuple", "int", "str", "bool"], ["Tuple", "str", "float", "int"]]
        + ([["Tuple", a] for a in EXTRA] if tier == "thorough" else []),
    )  # fmt: skip
    # the "light" leaves (second representative of a leaf class): alone, under List / Dict / Optional, with str / int
    # and with the other members of their class
    for a in LIGHT_LEAVES:
        mates = [b for b in ALL_LEAVES if LEAF_KIND.get(b) == LEAF_KIND[a]]
        group(
            f"G1 light leaf {a}",
            [a, ["List", a], ["Dict", a], ["Union", a, "none"]] + [["Union", a, b] for b in ["str", "int"] + mates]
            + ([[c, a] for c in UNARY] + [["Union", a, b] for b in ALL_LEAVES] if tier == "thorough" else []),
        )  # fmt: skip
    u3 = ["none", "str", "int", "float", "bool", "E"] + (["L1"] if tier == "thorough" else [])
    group("G1 Union triples", [["Union", a, b, c] for a, b, c in itertools.combinations(u3, 3)])
    # G_2 over the core leaves
    d1 = []
    for a in CORE:
        d1 += [[c, a] for c in UNARY] + [["Union", a, "none"]]
    d1 += [["Tuple", a, b] for a in CORE for b in CORE]
    d1 += [["Union", a, b] for a, b in itertools.combinations(CORE, 2)]
    d1 = [norm(s) for s in d1 if well_formed(norm(s))]
    unary2 = UNARY if tier == "thorough" else ("List", "Dict")
    group("G2 unary x depth-1 core", [[c, x] for c in unary2 for x in d1])
    # quick: Optional[Tuple[a,b]] and Tuple[Tuple[a,b],int] only for a, b in {int, str} (thorough: all core pairs;
    # List[Tuple[a,b]] / Dict[str,Tuple[a,b]] keep all core pairs in both tiers)
    d1t = d1 if tier == "thorough" else [x for x in d1 if not (x[0] == "Tuple" and not set(x[1:]) <= {"int", "str"})]
    group("G2 Optional x depth-1 core", [["Union", x, "none"] for x in d1t])
    group("G2 Tuple[X,leaf]", [["Tuple", x, "int"] for x in d1t] + ([["Tuple", "str", x] for x in d1] if tier == "thorough" else []))
    # the zero-length tuple as a container element and as a Union member (next to scalars, to tuples of other arities
    # and to a list: a value that no member accepts must stay rejected)
    group(
        "G2 over Tuple[()]",
        [[c, T0] for c in UNARY] + [["Union", T0, "none"], ["Tuple", T0, "int"], ["Tuple", "str", T0]]
        + [["Union", T0, a] for a in CORE]
        + [["Union", T0, x] for x in (["Tuple", "int"], ["Tuple", "int", "int"], ["TupleVar", "int"], ["List", "int"], ["Set", "int"])],
    )  # fmt: skip
    partners = CORE if tier == "thorough" else ["str", "int"]
    group("G2 Union[X,leaf]", [["Union", x, y] for x in d1 for y in partners])
    is_c = [x for x in d1 if x[0] != "Union" and all(a in ("int", "str") for a in x[1:])]
    if tier == "quick":  # Tuple[., ...] / Dict[int, .] mirror List / Dict[str, .]: thorough tier only
        is_c = [x for x in is_c if x[0] not in ("TupleVar", "DictInt")]
    is_c2 = is_c if tier == "thorough" else [x for x in is_c if x[0] != "Set"]  # quick: Set[.] mirrors List[.] here
    group("G2 Union of two int/str containers", [["Union", x, y] for x, y in itertools.combinations(is_c2, 2)])
    is_c3 = is_c if tier == "thorough" else [x for x in is_c if x[0] in ("List", "Dict")]  # quick: List / Dict[str,.] only
    group("G2 Union triples with a container", [["Union", x, y, "none"] for x in is_c3 for y in ("str", "int")])
    # G_3 / G_4: int/str skeletons over {List, Dict[str,.], Tuple[.,.], Optional, Union}
    level = ["int", "str"]
    all_sk = {cj(family(s)) for s in level}
    max_d = 3 if tier == "quick" else 4
    for d in range(1, max_d + 1):
        nxt = []
        for x in level:
            wrappers = [
                ["List", x], ["Dict", x], ["Union", x, "none"], ["Union", x, "str"], ["Tuple", x, "int"],
                ["Tuple", "str", x], ["Union", x, "int"],
            ]  # fmt: skip
            if d == max_d:  # outermost level: without the mirrored Tuple[str, X] / Union[X, int] (quick: no Tuple, Dict)
                wrappers = [wrappers[0]] + wrappers[2:4] if tier == "quick" else wrappers[:5]
            for s in wrappers:
                s = family(norm(s))
                if cj(s) not in all_sk and well_formed(s):
                    all_sk.add(cj(s))
                    nxt.append(s)
        group(f"G{d} int/str skeleton", nxt)
        level = nxt
    if tier == "quick":
        # depth 4, quick: List[.] / Union[., str] over the depth-3 skeletons that are chains of one container
        # constructor and Unions (the thorough tier takes all seven constructors over all depth-3 skeletons)
        nxt = []
        for x in level:
            if not (ctors(x) <= {"List", "Union"} or ctors(x) <= {"Dict", "Union"}):
                continue
            for s in (["List", x], ["Union", x, "str"]):
                s = family(norm(s))
                if cj(s) not in all_sk and well_formed(s) and depth(s) == 4:
                    all_sk.add(cj(s))
                    nxt.append(s)
        group("G4 int/str skeleton (List[.], Union[.,str] over depth-3 List/Union and Dict/Union chains)", nxt)
    return out, groups, group_of


# ------------------------------------------------------------------------------------------------
# exploration


def work(item):
    """Worker: every case of one type family."""
    spec, tier = item
    parses0 = _stats["parses"]
    res = {
        "spec": spec, "cases": 0, "accepted": 0, "nontrivial": 0, "oracles": {}, "devs": {}, "perms": 0,
        "construct_fail": 0, "escapes": {},
    }  # fmt: skip
    todo = cases_for(spec, tier)
    mid = None

    def record(case, devs):
        for sig, detail in devs:
            size = len(cj(case))
            old = res["devs"].get(sig)
            if old is None:
                res["devs"][sig] = [1, size, case, detail]
            else:
                old[0] += 1
                if (size, cj(case)) < (old[1], cj(old[2])):
                    old[1:] = [size, case, detail]

    for n, (chan, v) in enumerate(todo):
        case = {"type": spec, "channel": chan, "value": v}
        devs, facts = judge(case)
        if mid is None and (bool(facts["accepted"]) == (len(cj(spec)) % 2 == 0) or n >= len(todo) // 2):
            mid = {"type": spec, "channel": chan, "value": v, "accepted_by_some_member_order": bool(facts["accepted"])}
        res["cases"] += 1
        res["perms"] = facts.get("perms", 0)
        res["accepted"] += bool(facts["accepted"])
        orc = set(facts["oracles"])
        if facts.get("escape"):
            res["escapes"][facts["escape"]] = res["escapes"].get(facts["escape"], 0) + 1
        if facts["accepted"] or orc & {"member+", "element-", "member-"}:
            res["nontrivial"] += 1
        for o in orc:
            res["oracles"][o] = res["oracles"].get(o, 0) + 1
        record(case, devs)
    # the declared-default axis (after the plain cases: their outcomes are the references and are memoised)
    dstat = res["dflt"] = {
        "families": 0, "defaults": 0, "cases": 0, "accepted": 0, "nontrivial": 0, "twins": 0, "twins_rejected": 0, "absent": 0,
    }  # fmt: skip
    for dflt in default_axis(spec, tier):
        dstat["families"] = 1
        dstat["defaults"] += 1
        for chan, v in default_cases_for(spec, tier, dflt):
            case = {"type": spec, "default": dflt, "channel": chan, "value": v}
            devs, facts = judge_default(case)
            dstat["cases"] += 1
            dstat["accepted"] += bool(facts["accepted"])
            dstat["absent"] += chan == "absent"
            dstat["nontrivial"] += bool(facts["accepted"] or facts.get("twin"))
            if facts.get("twin"):
                dstat["twins"] += 1
                dstat["twins_rejected"] += not facts["accepted"]
            if facts.get("escape"):
                res["escapes"][facts["escape"]] = res["escapes"].get(facts["escape"], 0) + 1
            for o in set(facts["oracles"]):
                res["oracles"][o] = res["oracles"].get(o, 0) + 1
            record(case, devs)
    res["parses"] = _stats["parses"] - parses0
    res["sample"] = mid
    return res


def work_batch(item):
    specs, tier = item
    return [work((s, tier)) for s in specs]


def subterms(spec):
    """Every constructor node of a type spec (leaves excluded)."""
    if is_leaf(spec):
        return []
    return [spec] + [t for a in spec[1:] for t in subterms(a)]


def leaves_of(spec):
    return {spec} if is_leaf(spec) else set().union(*[leaves_of(a) for a in spec[1:]])


def explore(ctx):
    fams, groups, group_of = grammar(ctx.tier)
    gstat = {g: {"families": n, "cases": 0, "parses": 0} for g, n in groups.items() if n}
    # Work items are batches of families that use the same leaves (simplest first inside a batch), so that the
    # member / element evaluations they share are computed once per worker.  Batching changes cost only.
    fams.sort(key=lambda s: (sorted(leaves_of(s)), depth(s), len(cj(s)), cj(s)))
    size = 8 if ctx.quick else 16
    batches = [fams[i : i + size] for i in range(0, len(fams), size)]
    cases = parses = accepted = nontrivial = typeperms = 0
    oracles = {}
    escapes = {}
    per_depth = {}
    dtot = {}
    for res in (r for rs in ctx.pmap(work_batch, [(b, ctx.tier) for b in batches], chunk=1) for r in rs):
        cases += res["cases"]
        parses += res["parses"]
        g = gstat[group_of[cj(res["spec"])]]
        g["cases"] += res["cases"]
        g["parses"] += res["parses"]
        accepted += res["accepted"] + res["dflt"]["accepted"]
        nontrivial += res["nontrivial"] + res["dflt"]["nontrivial"]
        cases += res["dflt"]["cases"]
        for k, n in res["dflt"].items():
            dtot[k] = dtot.get(k, 0) + n
        typeperms += res["perms"]
        d = depth(res["spec"])
        per_depth[d] = per_depth.get(d, 0) + 1
        for o, n in res["oracles"].items():
            oracles[o] = oracles.get(o, 0) + n
        for o, n in res["escapes"].items():
            escapes[o] = escapes.get(o, 0) + n
        for sig, (n, _size, case, detail) in res["devs"].items():
            ctx.deviation(sig, case, detail)
            if n > 1:
                ctx.deviations[sig]["_count"] += n - 1
                ctx.deviation_count += n - 1
        if len(ctx.samples) < 8 and depth(res["spec"]) == len(ctx.samples) % 5:
            ctx.sample({**res["sample"], "type_shown": show(res["spec"])})
    for o, n in oracles.items():
        ctx.count("oracle:" + o, n)
    ctx.cover(
        evaluations=cases,
        distinct_nontrivial=nontrivial,
        rule="a case is one (type-hint family, declared default or none, channel, value); all cases are distinct by "
        "construction (values are de-duplicated per family and default). Non-trivial = accepted by at least one member "
        "order (so the result went through conforms()) or judged by the member-wise / element-wise differential with "
        "at least one member or element parser consulted on a value it rejects or accepts differently from a plain "
        "kind mismatch; for a case with a declared default: accepted, or the value compares == to the default without "
        "being it (another scalar kind at one position)",
        states=cases,
        transitions=parses,
        traces_validated_against_impl=parses,
        exhaustive=True,
        caps_hit=[],
        type_families=len(fams),
        type_spellings=typeperms,
        families_per_depth={str(k): v for k, v in sorted(per_depth.items())},
        groups=gstat,
        declared_default_axis={
            **dtot,
            "what": "families of depth <= 1 re-explored with the argument declared with each listed conforming default: "
            "all candidate values of the family + the default as input + its ==-twins of another scalar kind, on "
            "parse_object / argv, + a parse that does not mention the key",
        },
        accepted_cases=accepted,
        rejected_cases=cases - accepted,
        cases_with_an_escaping_exception_counted_as_rejected=dict(sorted(escapes.items())),
        bounds={
            "type_depth": 4,
            "leaves": ALL_LEAVES + LIGHT_LEAVES,
            "tuple_arities": [0, 1, 2, 3],
            "top_level_alphabet": len(R_TOP) + (0 if ctx.quick else len(R_TOP_EXTRA)),
            "top_level_alphabet_depth_ge_2_quick": len(R_TOP2),
            "nested_alphabet": len(R_NEST),
            "deep_alphabet": len(R_DEEP),
            "extra_argv_texts": len(T_TOP),
            "deviating_positions_per_value": 1,
            "declared_defaults_per_family": "quick: 2 per leaf / core Optional / core Union pair, 1 per container over a "
            "core leaf; thorough: up to 3 for every family of depth <= 1, 1 for List / Dict / Optional of depth 2",
        },
        trusted_base=["conforms()/shape_ok()/nullable() in mc/checks/c02.py", "typing.get_args", "json", "yaml.safe_load (classification only)"],
    )
    ctx.assume("top-level None means 'not given' for every type and is not a candidate value")
    ctx.assume("a declared default does not change what the type accepts: the reference for a case with a default is the same spelling without one")
    ctx.assume("a string at a nested position is a value, a string at the top level is config text (YAML-loaded)")
    ctx.require(len(fams) > 500, "more than 500 type-hint families")
    ctx.require(accepted > 1000 and cases - accepted > 1000, "both accepted and rejected cases occur (> 1000 each)")
    for o in ("order", "sound", "complete", "member+", "member-", "element+", "element-", "kind+", "kind-"):
        ctx.require(oracles.get(o, 0) > 100, f"oracle branch '{o}' taken more than 100 times")
    ctx.require(per_depth.get(4, 0) > 0 and per_depth.get(3, 0) > 0, "types of depth 3 and 4 explored")
    ctx.require(oracles.get("kind-:argv", 0) > 100, "oracle branch 'kind-' taken more than 100 times for JSON containers on argv")
    arities = {len(t) - 1 for f in fams for t in subterms(f) if t[0] == "Tuple"}
    ctx.require({0, 1, 2, 3} <= arities, "fixed-length tuples of arity 0, 1, 2 and 3 explored")
    ctx.require(
        sum(1 for f in fams if any(t == ["Tuple"] for t in subterms(f))) >= 15,
        "the zero-length tuple explored alone, as a container element and as a Union member (>= 15 families)",
    )
    wide = [a for a in ALL_LEAVES if LEAF_KIND.get(a) == "restricted-str" and all(leaf_conforms(a, str(decode(x))) for x in R_NEST if not isinstance(x, str))]
    ctx.require(wide and sum(1 for f in fams if leaves_of(f) & set(wide)) >= 30, "a restricted string whose pattern matches the text of every non-string alphabet value is explored (>= 30 families)")
    ctx.require(dtot.get("families", 0) >= 100 and dtot.get("cases", 0) > 5000, "declared-default axis: >= 100 families, > 5000 cases")
    ctx.require(dtot.get("absent", 0) >= 100, "declared-default axis: key-absent parses")
    ctx.require(
        dtot.get("twins_rejected", 0) > 100 and dtot.get("twins", 0) - dtot.get("twins_rejected", 0) > 100,
        "declared-default axis: values that compare == to the default without being it occur both rejected (wrong "
        "kind) and accepted (e.g. int for a float default), > 100 each",
    )
    for o in ("dflt-decision", "dflt-sound", "dflt-absent"):
        ctx.require(oracles.get(o, 0) >= 100, f"oracle branch '{o}' taken at least 100 times")
