"""C19 relative-path clause: config files nested up to 3 deep in different directories.

A *chain* F1 -> F2 -> F3 of files, each in its own directory D1, D2, D3 (all assignments of directories are enumerated,
including equal ones, the process working directory, a directory below it and an unrelated one).  F1 is reached from
the command line / API (the *channel*), F(i+1) is referenced from Fi through a sub-config argument (the *flavour*:
an ActionParser argument, a dataclass group with sub_configs, a subclass-typed argument with sub_configs, or - as a
last hop - a list file of a List[Path_fr] argument with enable_path).  Every reference is spelled relative to the
directory of the referencing file (or the working directory for the entry) or absolute.  Every level carries path-typed
values spelled relative to its own directory; one slot per case is optionally replaced by a value that exists only in a
*different* directory of the fixture (so that resolving against any wrong base is observable as a false accept or a
false reject), by a missing file, or the file is broken (malformed, unknown key, dangling reference).

Two further axes (each on the otherwise valid layouts, one position per case):
  * `app` - one level additionally *appends* to its list of paths with the `files+:` key (after setting `files` in the
    same file, without setting it, or onto a value given on the command line before the file); the appended spellings
    are again relative to the file they are written in, and one of them optionally exists only in that file's
    directory / only in the working directory / nowhere;
    the appended value is written as a list of items or as ONE single item (`files+: item`);
  * `exit` - the same layouts on parsers built with DEFAULT settings (exit_on_error=True): a failing parse ends in
    SystemExit (status 2) instead of ArgumentError; the caller catches it and the working directory / context variable
    must be what they were;
  * `entry` - on the parse_path channel the entry file is handed over not as a string but as an object: a Path created
    while the process was in another directory, a Path created with cwd=<another directory>, or an os.PathLike.

Oracle: the parse succeeds iff every value is valid *relative to the directory of the file it is written in*; each
resulting Path reports the written spelling as `.relative` and join(that directory, spelling) as `.absolute`; after
every parse - failing or not - os.getcwd() and the current_path_dir context variable are what they were before.
"""
from __future__ import annotations

import itertools
import json
import os

ALL_DIRS = ["W", "W/a", "W/a/b", "X", "X/c"]
DIRS = {"quick": ["W", "W/a", "X"], "thorough": ["W", "W/a", "X", "X/c"]}
CWD = "W"
FLAVOURS = ["parser", "group", "subclass", "listfile"]
CHANNELS = ["config", "parse_path", "default", "string", "subarg"]
BROKEN = ["malformed", "unknown-key", "missing-ref"]
ENTRY_FORMS = ["str", "path-elsewhere", "path-cwdarg", "pathlike"]  # how parse_path is given the entry file
ELSEWHERE = "X/c"  # the directory a Path object of the entry file remembers (never the working directory)
APPEND_MODES = ["after-set", "only", "onto-argv"]
APPEND_KINDS = ["common", "own", "missing"]  # + "only:<dir>"
APPEND_MECH = "key+append"


def _app_mech(case):
    """Signature component of a deviation on appended items: the value shape is named when it is not the list."""
    app = case.get("app") or []
    return APPEND_MECH + (":single-item" if len(app) > 3 and app[3] == "scalar" else "")


APPEND_SHAPES = ["list", "scalar"]  # `files+: [a, b]` | `files+: a` (one single item, not wrapped in a list)


def tag(d):
    return d.replace("/", "_")


def build_tree(root):
    """The immutable part of the fixture: five directories with equally named and uniquely named files."""
    for d in ALL_DIRS:
        os.makedirs(os.path.join(root, d, "sub"), exist_ok=True)
        for name in ("common.txt", "sub/deep.txt", f"only_{tag(d)}.txt"):
            with open(os.path.join(root, d, name), "w") as f:
                f.write(d + "\n")


# -----------------------------------------------------------------------------------------------------
# enumeration


def alternatives(tier, depth, flavour):
    """[None] + every single-position alternative [level (1-based), kind]."""
    alts = [None]
    for level in range(1, depth + 1):
        is_list = flavour == "listfile" and level == depth
        # a file that exists only in one directory of the fixture: valid iff this level's file lives there.
        # quick: the working directory only (the base a wrong resolution most plausibly falls back to)
        for d in DIRS[tier] if tier != "quick" else [CWD]:
            alts.append([level, "only:" + tag(d)])
        alts.append([level, "missing"])
        if not is_list:
            alts.append([level, "malformed"])
            alts.append([level, "unknown-key"])
            if level < depth:
                alts.append([level, "missing-ref"])
    return alts


def ref_styles(tier, depth):
    combos = [list(t) for t in itertools.product(["rel", "abs"], repeat=depth)]
    if tier == "quick" and depth == 3:
        # quick: entry style x (both nested references relative | both absolute); thorough: the full 2^3
        combos = [c for c in combos if c[1] == c[2]]
    return combos


def matrix(tier):
    """(flavour, channel) pairs explored by the tier."""
    pairs = []
    for fl in FLAVOURS:
        for ch in CHANNELS:
            if tier == "quick" and fl != "parser" and ch in ("parse_path", "default", "string"):
                continue  # the entry mechanisms are flavour-independent code; quick explores all five with one flavour
            pairs.append((fl, ch))
    return pairs


def appends(tier, case):
    """Every single-position append [level (1-based), mode, kind] for an otherwise valid layout."""
    fl, ch, depth = case["flavour"], case["channel"], len(case["dirs"])
    if len(set(case["refs"])) > 1:
        return []  # appends are explored with uniformly spelled references (all relative | all absolute)
    out = []
    for level in range(1, depth + 1):
        if fl == "listfile" and level == depth:
            continue  # a list file has no keys
        for mode in APPEND_MODES:
            if mode == "onto-argv":
                # a value given on the command line BEFORE the file: only the entry file can follow the command line
                if level != 1 or not (ch == "config" or (ch == "subarg" and fl != "subclass")):
                    continue
            if mode == "after-set":
                # quick: a nowhere-existing item is left to thorough (an item that exists only in the working directory
                # is as invalid in every other directory)
                kinds = ["common", "own", "only:" + tag(CWD)] if tier == "quick" else list(APPEND_KINDS) + ["only:" + tag(d) for d in DIRS[tier]]
            elif mode == "only" and tier == "quick":
                kinds = ["own"]
            else:
                kinds = ["own", "only:" + tag(CWD)]
            for kind in kinds:
                out.append([level, mode, kind])
                # the appended value written as one single item instead of a list (4th element); quick: the single
                # item is the one that exists only next to the file (a wrong base shows as a false reject) in all three
                # modes; the everywhere-existing item and the items of other directories are left to thorough
                if tier != "quick" or kind == "own":
                    out.append([level, mode, kind, "scalar"])
    return out


def exit_axis(tier, flavour, channel, refs):
    """Which layouts are repeated on parsers built with default settings (exit_on_error=True).
    The exit is raised by the entry call, whatever the nesting mechanism below it: quick explores all five entry
    channels with one mechanism, uniformly spelled references (like the appends) and chains of up to 2 files; thorough
    every reference spelling and depth with that mechanism and the other mechanisms of the matrix with uniformly
    spelled references."""
    uniform = len(set(refs)) == 1
    if tier == "quick":
        return flavour == "parser" and uniform and len(refs) <= 2
    return flavour == "parser" or uniform


def depths(flavour, channel):
    if channel == "subarg":
        return [1, 2]  # the entry file already sits one level down
    if flavour == "parser":
        return [1, 2, 3]
    return [2, 3]  # depth 1 has no nested hop: identical to flavour "parser"


def nest_cases(tier):
    """Every case of the tier, simplest first."""
    out = []
    for fl, ch in matrix(tier):
        for depth in depths(fl, ch):
            for dirs in itertools.product(DIRS[tier], repeat=depth):
                if ch == "string" and dirs[0] != CWD:
                    continue  # a config given as a string has no directory: it is read in the working directory
                for refs in ref_styles(tier, depth):
                    if ch == "string" and refs[0] != "rel":
                        continue  # no entry reference
                    for alt in alternatives(tier, depth, fl):
                        case = {"env": "nest", "flavour": fl, "channel": ch, "dirs": list(dirs), "refs": refs, "alt": alt}
                        out.append(case)
                        if exit_axis(tier, fl, ch, refs):
                            out.append(dict(case, exit=True))
                        if ch == "parse_path" and fl == "parser":
                            # the entry file handed over as an object that remembers another directory
                            # (quick: a Path created with cwd= is the same object as one created elsewhere - left to
                            # thorough here; the nested-context part enters both kinds in either tier)
                            out += [dict(case, entry=form) for form in ENTRY_FORMS[1:] if not (tier == "quick" and form == "path-cwdarg")]
                        if alt is None:
                            out += [dict(case, app=app) for app in appends(tier, case)]
    out.sort(key=lambda c: (len(c["dirs"]), c["alt"] is not None, "app" in c, "entry" in c, "exit" in c, json.dumps(c, sort_keys=True)))
    return out


# -----------------------------------------------------------------------------------------------------
# building one case


def _parser(J, flavour, default_files=None, exit_on_error=False):
    from typing import List, Optional

    from jsonargparse.typing import Path_dw, Path_fc, Path_fr

    def keys(p):
        p.add_argument("--files", type=Optional[List[Path_fr]])
        p.add_argument("--dir", type=Optional[Path_dw])
        p.add_argument("--out", type=Optional[Path_fc])
        p.add_argument("--slot", type=Optional[Path_fr])
        if flavour == "listfile":
            p.add_argument("--lst", type=List[Path_fr], enable_path=True)

    kw = {} if exit_on_error else {"exit_on_error": False}  # {}: every parser of the case built with default settings
    top = J.ArgumentParser(default_config_files=default_files, **kw) if default_files else J.ArgumentParser(**kw)
    top.add_argument("--config", action="config")
    keys(top)
    if flavour in ("parser", "listfile"):
        l3 = J.ArgumentParser(**kw)
        keys(l3)
        l2 = J.ArgumentParser(**kw)
        keys(l2)
        l2.add_argument("--sub", action=J.ActionParser(parser=l3))
        top.add_argument("--sub", action=J.ActionParser(parser=l2))
    elif flavour == "group":
        from mc.fixtures.c19 import fx

        top.add_class_arguments(fx.Level2, "sub", sub_configs=True)
    elif flavour == "subclass":
        from mc.fixtures.c19 import fx

        top.add_subclass_arguments(fx.Node, "sub", required=False)
    return top


def _ref(root, from_dir, to_file, style):
    target = os.path.join(root, to_file)
    if style == "abs":
        return target
    return os.path.relpath(target, os.path.join(root, from_dir))


def plan(case, root):
    """Lay out one case: files to write, the entry call, and what the oracle expects at every level."""
    fl, ch, dirs, refs, alt = case["flavour"], case["channel"], case["dirs"], case["refs"], case["alt"]
    app = case.get("app")
    depth = len(dirs)
    offset = 1 if ch == "subarg" else 0
    names = [f"{d}/cfg{i + 1}.{'lst' if (fl == 'listfile' and i == depth - 1) else 'yaml'}" for i, d in enumerate(dirs)]
    levels = []  # per chain position: dict(dir, shape, is_list, values {key: spelling / [spellings]}, ref)
    cut = None  # chain position after which nothing is loaded (dangling reference)
    for i, d in enumerate(dirs):
        is_list = fl == "listfile" and i == depth - 1
        base = os.path.basename(d)
        lv = {"dir": d, "shape": i + 1 + offset, "is_list": is_list, "broken": None, "file": names[i]}
        if is_list:
            lv["values"] = {"lst": ["common.txt", "sub/deep.txt"]}
        else:
            lv["values"] = {
                "files": ["common.txt", "sub/deep.txt", f"../{base}/common.txt", os.path.join(root, d, "common.txt")],
                "dir": "sub",
                "out": "sub/new.txt",
            }
        lv["write"] = dict(lv["values"])  # what the file says; `values` is what the result must hold
        lv["pre"] = []  # [spelling, directory] of list items that precede the file's own (given on the command line)
        lv["appended"] = 0  # how many trailing items of `files` were written with `files+`
        if app is not None and app[0] == i + 1 and not is_list:
            _, mode, kind = app[:3]
            scalar = len(app) > 3 and app[3] == "scalar"
            extra = {"common": [], "own": [f"only_{tag(d)}.txt"], "missing": ["missing.txt"]}.get(kind)
            if extra is None:
                extra = [f"only_{kind[5:]}.txt"]
            added = ["sub/deep.txt"] + extra
            if scalar:
                added = added[-1:]  # the item the kind is about ("common": the one that exists in every directory)
            lv["write"]["files+"] = added[0] if scalar else added
            lv["appended"] = len(added)
            if mode == "after-set":
                lv["values"]["files"] = lv["values"]["files"] + added
            else:
                del lv["write"]["files"]
                lv["values"]["files"] = added
                if mode == "onto-argv":
                    lv["pre"] = [["common.txt", CWD]]
        if alt is not None and alt[0] == i + 1:
            kind = alt[1]
            if kind.startswith("only:"):
                sp = f"only_{kind[5:]}.txt"
                if is_list:
                    lv["values"]["lst"] = lv["values"]["lst"] + [sp]
                else:
                    lv["values"]["slot"] = lv["write"]["slot"] = sp
            elif kind == "missing":
                if is_list:
                    lv["values"]["lst"] = lv["values"]["lst"] + ["missing.txt"]
                else:
                    lv["values"]["slot"] = lv["write"]["slot"] = "missing.txt"
            else:
                lv["broken"] = kind
        if i + 1 < depth:
            if lv["broken"] == "missing-ref":
                lv["ref"] = "nofile.yaml"
                cut = i
            else:
                lv["ref"] = _ref(root, d, names[i + 1], refs[i + 1])
        levels.append(lv)

    files = {}
    for i, lv in enumerate(levels):
        if cut is not None and i > cut:
            break
        nxt_is_list = i + 1 < depth and levels[i + 1]["is_list"]
        if lv["is_list"]:
            text = "".join(s + "\n" for s in lv["values"]["lst"])
        elif lv["broken"] == "malformed":
            text = "files: [unclosed\n"
        else:
            body = dict(lv["write"])
            if "ref" in lv:
                body["lst" if nxt_is_list else "sub"] = lv["ref"]
            if lv["broken"] == "unknown-key":
                body["nokey"] = 1
            if fl == "subclass" and lv["shape"] >= 2:
                body = {"class_path": "mc.fixtures.c19.fx.SubNode" if lv["shape"] == 2 else "mc.fixtures.c19.fx.Node", "init_args": body}
            text = json.dumps(body, indent=1) + "\n"
        lv["text"] = text
        files[lv["file"]] = text
    entry_ref = _ref(root, CWD, names[0], refs[0])
    return levels, files, entry_ref, cut


def expected(levels, root, cut):
    """Oracle: per level, is every written value valid relative to that level's directory?  -> (ok, reasons)."""
    reasons = []
    for i, lv in enumerate(levels):
        if cut is not None and i > cut:
            break
        if lv["broken"]:
            reasons.append(f"level {i + 1} {lv['broken']}")
            continue
        base = os.path.join(root, lv["dir"])
        for key, val in lv["values"].items():
            for sp in val if isinstance(val, list) else [val]:
                target = os.path.join(base, sp)
                if key in ("files", "slot", "lst"):
                    good = os.path.isfile(target) and os.access(target, os.R_OK)
                elif key == "dir":
                    good = os.path.isdir(target) and os.access(target, os.W_OK)
                else:  # out: Path_fc
                    par = os.path.dirname(target)
                    good = os.path.isdir(par) and os.access(par, os.W_OK) and (not os.path.exists(target) or os.path.isfile(target))
                if not good:
                    reasons.append(f"level {i + 1} {key}={sp!r} is not valid relative to {lv['dir']}")
        for sp, d in lv["pre"]:
            if not os.path.isfile(os.path.join(root, d, sp)):
                reasons.append(f"command line files={sp!r} is not valid relative to {d}")
    return not reasons, reasons


def _level_ns(cfg, shape, flavour):
    """Namespace holding the values of the given shape level (1 = top)."""
    ns = cfg
    for s in range(2, shape + 1):
        ns = ns.get("sub") if ns is not None else None
        if ns is None:
            return None
        if flavour == "subclass":
            ns = ns.get("init_args")
    return ns


def _check_path(J, devs, what, obj, spelling, base_dir, mech):
    if not isinstance(obj, J.Path):
        devs.append((f"nest:value-not-a-Path:{mech}", f"{what}: {obj!r}"))
        return
    if obj.relative != spelling or str(obj) != spelling:
        devs.append((f"nest:wrong-relative:{mech}", f"{what}: .relative={obj.relative!r}, written {spelling!r}"))
    want = os.path.realpath(os.path.join(base_dir, spelling))
    got = obj.absolute
    if not os.path.isabs(got) or os.path.realpath(got) != want or obj() != got or os.fspath(obj) != got:
        devs.append((f"nest:wrong-absolute:{mech}", f"{what}: .absolute={got!r}, the file's directory gives {want!r}"))


def _entry_object(J, case, root, entry_file, entry_ref):
    """What parse_path is given: the spelling, or an object naming the same file that remembers another directory."""
    form = case.get("entry", "str")
    if form == "str":
        return entry_ref
    if form == "pathlike":
        return _PathLike(entry_ref)
    mode = "fr"
    other = os.path.join(root, ELSEWHERE)
    spelling = entry_ref if os.path.isabs(entry_ref) else os.path.relpath(os.path.join(root, entry_file), other)
    if form == "path-cwdarg":
        return J.Path(spelling, mode=mode, cwd=other)
    if form == "path-elsewhere":
        here = os.getcwd()
        os.chdir(other)
        try:
            return J.Path(spelling, mode=mode)
        finally:
            os.chdir(here)
    raise AssertionError(form)


class _PathLike:
    def __init__(self, s):
        self.s = s

    def __fspath__(self):
        return self.s


def _rejects_valid_signature(case, levels):
    """Class of a valid layout that is rejected: entry channel + nesting mechanism; the list-file hop is
    classified by how the list file is referenced (that is what decides whether it is found)."""
    fl, ch = case["flavour"], case["channel"]
    if case.get("app"):
        return f"nest:rejects-valid:{_app_mech(case)}"
    if fl == "listfile":
        last = len(levels) - 1
        from_dir = levels[last - 1]["dir"] if last > 0 else CWD
        where = "same-dir" if from_dir == levels[last]["dir"] else "other-dir"
        if case["refs"][last] == "rel" and where == "other-dir":
            return "nest:rejects-valid:listfile:relative-ref-to-list-in-other-dir"
    # one file: the entry channel is responsible; deeper chains: the nesting mechanism (the entry channels are also
    # explored alone)
    mech1 = ch if ch != "subarg" else fl
    return f"nest:rejects-valid:{mech1 if len(levels) == 1 else fl}"


def run_nest(case, root):
    """Execute one case on the real code inside `root` (tree already built).  Returns (devs, info)."""
    import jsonargparse as J
    from mc.util import outcome

    fl, ch = case["flavour"], case["channel"]
    levels, files, entry_ref, cut = plan(case, root)
    want_ok, reasons = expected(levels, root, cut)
    cwd_dir = os.path.join(root, CWD)
    written = []
    devs = []
    saved_cwd = os.getcwd()
    ctxvar = getattr(getattr(J, "_util", None), "current_path_dir", None)
    try:
        for rel, text in files.items():
            if ch == "string" and rel == levels[0]["file"]:
                continue
            path = os.path.join(root, rel)
            with open(path, "w") as f:
                f.write(text)
            written.append(path)
        os.chdir(cwd_dir)
        before = os.getcwd()
        ctx_before = ctxvar.get() if ctxvar is not None else None
        eoe = bool(case.get("exit"))
        if ch == "default":
            parser = _parser(J, fl, default_files=[entry_ref], exit_on_error=eoe)
        else:
            parser = _parser(J, fl, exit_on_error=eoe)
        # an argument that FOLLOWS --config on the command line is relative to the working directory again
        trailing = ["--slot", f"only_{tag(CWD)}.txt"] if ch == "config" and case["alt"] is None else []
        # a list value given on the command line BEFORE the file (the file then appends to it)
        leading = []
        if levels[0]["pre"]:
            leading = ["--files" if ch == "config" else "--sub.files", json.dumps([sp for sp, _ in levels[0]["pre"]])]
        if ch == "config":
            o = outcome(parser.parse_args, leading + ["--config", entry_ref] + trailing)
        elif ch == "parse_path":
            o = outcome(parser.parse_path, _entry_object(J, case, root, levels[0]["file"], entry_ref))
        elif ch == "default":
            o = outcome(parser.parse_args, [])
        elif ch == "string":
            o = outcome(parser.parse_string, levels[0]["text"])
        else:
            key = "--lst" if levels[0]["is_list"] else "--sub"
            o = outcome(parser.parse_args, leading + [key, entry_ref])
        after = os.getcwd()
        ctx_after = ctxvar.get() if ctxvar is not None else None
        mech1 = ch if ch != "subarg" else fl
        failed = o["kind"] != "ok"
        # a parser built with default settings reports a failure by exiting with status 2 (the caller may catch that)
        clean_exit = eoe and o["kind"] == "exit" and o.get("code") == 2
        when = "after-system-exit" if o["kind"] == "exit" else "after-failure" if failed else "after-success"
        if after != before:
            devs.append((f"nest:cwd-not-restored:{when}", f"cwd before {before!r}, after {after!r}"))
        if ctx_after != ctx_before:
            devs.append((f"nest:context-not-restored:{when}", f"current_path_dir {ctx_before!r} -> {ctx_after!r}"))
        if o["kind"] in ("escape", "timeout", "exit") and not clean_exit:
            devs.append((f"nest:escape:{o.get('type', o['kind'])}:{mech1 if len(levels) == 1 else fl}", str(o.get("message", o))[:300]))
        elif o["kind"] == "ArgumentError" or clean_exit:
            if want_ok:
                devs.append((_rejects_valid_signature(case, levels), str(o.get("message") or o.get("stderr"))[-400:]))
        else:
            if not want_ok:
                # attributed to the hop that leads to the (single) invalid level: entry channel or nesting mechanism;
                # an invalid appended item to the append mechanism
                bad_level = case["alt"][0] if case["alt"] else 1
                mech_bad = _app_mech(case) if case.get("app") else (mech1 if bad_level == 1 else fl)
                devs.append((f"nest:accepts-invalid:{mech_bad}", "; ".join(reasons)))
            cfg = o["value"]
            if trailing:
                _check_path(J, devs, "argument after --config", cfg.get("slot"), trailing[1], cwd_dir, "argv-after-config")
            for i, lv in enumerate(levels):
                if cut is not None and i > cut:
                    break
                mech = mech1 if i == 0 else fl
                base = os.path.join(root, lv["dir"])
                if lv["is_list"]:
                    # the list is the value of the `lst` key of the referencing level (of the top level from argv)
                    ns = cfg if i == 0 else _level_ns(cfg, levels[i - 1]["shape"], fl)
                    got = ns.get("lst") if ns is not None else None
                    want = lv["values"]["lst"]
                    if not isinstance(got, list) or len(got) != len(want):
                        devs.append((f"nest:wrong-value:{mech}", f"lst={got!r}, file has {want!r}"))
                    else:
                        for g, sp in zip(got, want):
                            _check_path(J, devs, f"level {i + 1} lst", g, sp, base, mech)
                    continue
                ns = _level_ns(cfg, lv["shape"], fl)
                if ns is None:
                    devs.append((f"nest:level-missing:{mech}", f"level {i + 1} absent from the result"))
                    continue
                for key, val in lv["values"].items():
                    got = ns.get(key)
                    if isinstance(val, list):
                        # items: [spelling, directory it is relative to, responsible mechanism]
                        want = [[sp, os.path.join(root, d), "argv-before-config"] for sp, d in lv["pre"]] if key == "files" else []
                        want += [[sp, base, mech] for sp in val]
                        if key == "files":
                            for item in want[len(want) - lv["appended"] :]:
                                item[2] = _app_mech(case)
                        if not isinstance(got, list) or len(got) != len(want):
                            m = _app_mech(case) if key == "files" and lv["appended"] else mech
                            devs.append((f"nest:wrong-value:{m}", f"{key}={got!r}, expected {[w[0] for w in want]!r}"))
                            continue
                        for g, (sp, b, m) in zip(got, want):
                            _check_path(J, devs, f"level {i + 1} {key}", g, sp, b, m)
                    else:
                        _check_path(J, devs, f"level {i + 1} {key}", got, val, base, mech)
                # the bookkeeping entry of a nested file names that file relative to the referencing one
                if i > 0 and not levels[i]["is_list"]:
                    holder = _level_ns(cfg, lv["shape"] - 1, fl).get("sub") if lv["shape"] > 1 else None
                    meta = holder.get("__path__") if holder is not None else None
                    if meta is not None:
                        _check_path(J, devs, f"level {i + 1} __path__", meta, levels[i - 1]["ref"], os.path.join(root, levels[i - 1]["dir"]), fl)
        info = {"ok": o["kind"] == "ok", "want_ok": want_ok, "kind": o["kind"]}
    finally:
        os.chdir(saved_cwd)
        if ctxvar is not None and ctxvar.get() is not None:
            ctxvar.set(None)  # a leak is reported above; it must not reach the next case
        for path in written:
            try:
                os.unlink(path)
            except OSError:
                pass
    return devs, info


# =====================================================================================================
# the context manager itself: nested relative_path_context() blocks (public API of Path)

# the last three: the Path object remembers a directory that is not the one the process is in when the block is entered
# (created with cwd=<other directory>, or created up front in the start directory)
CTX_STEPS = ["dir-abs", "file-abs", "dir-rel-sub", "dir-rel-up", "file-rel", "dir-rel-other", "file-cwdarg", "dir-cwdarg", "dir-prebuilt"]


class _Boom(Exception):
    pass


class _BaseBoom(BaseException):
    """An exit that is not an Exception subclass (like KeyboardInterrupt / GeneratorExit / SystemExit)."""


# how the innermost body is left: returns | raises an Exception | raises SystemExit (what a parser built with default
# settings does on error) | raises another BaseException that is not an Exception
CTX_EXITS = [False, True, "exit", "base"]
_BODY_EXC = {True: _Boom, "exit": SystemExit, "base": _BaseBoom}


def ctx_cases(tier):
    """Every sequence of up to 3 nested contexts over the step alphabet x every way the body is left (CTX_EXITS)."""
    depth = 3
    out = []
    for n in range(1, depth + 1):
        for steps in itertools.product(CTX_STEPS, repeat=n):
            for boom in CTX_EXITS:
                out.append({"env": "ctx", "steps": list(steps), "raise": boom})
    return out


def _ctx_step(root, name, cur):
    """-> (path argument, mode, directory the context must enter[, base directory of the spelling if not `cur`])."""
    if name == "file-cwdarg":
        return "common.txt", "fr", os.path.join(root, "X"), os.path.join(root, "X")
    if name == "dir-cwdarg":
        return "sub", "dr", os.path.join(root, "X/c/sub"), os.path.join(root, "X/c")
    if name == "dir-prebuilt":
        return "a", "dr", os.path.join(root, CWD, "a"), os.path.join(root, CWD)
    if name == "dir-abs":
        return os.path.join(root, "W/a"), "dr", os.path.join(root, "W/a")
    if name == "file-abs":
        return os.path.join(root, "X/common.txt"), "fr", os.path.join(root, "X")
    if name == "dir-rel-sub":
        return "sub", "dr", os.path.join(cur, "sub")
    if name == "dir-rel-up":
        return "..", "dr", os.path.dirname(cur)
    if name == "file-rel":
        return "common.txt", "fr", cur
    if name == "dir-rel-other":
        return "../X", "dw", os.path.join(os.path.dirname(cur), "X")
    raise AssertionError(name)


def run_ctx(case, root):
    """Nested `with Path(...).relative_path_context()` blocks on the real class; the model is a stack of directories."""
    import jsonargparse as J

    devs = []
    start = os.path.realpath(os.path.join(root, CWD))
    saved = os.getcwd()
    ctxvar = getattr(getattr(J, "_util", None), "current_path_dir", None)
    steps = case["steps"]
    info = {"entered": 0, "invalid": False, "valid_kinds": []}  # valid_kinds: steps the MODEL considers enterable

    def here():
        return os.path.realpath(os.getcwd())

    def descend(i, cur):
        if i == len(steps):
            probe = J.Path("probe.txt", mode="fc")
            if os.path.realpath(probe.absolute) != os.path.join(cur, "probe.txt") or probe.relative != "probe.txt":
                devs.append((f"ctx:wrong-absolute-inside:{steps[-1]}", f"{probe.absolute!r}, model directory {cur!r}"))
            if case["raise"]:
                raise _BODY_EXC[case["raise"]]()
            return
        arg, mode, want, *other_base = _ctx_step(root, steps[i], cur)
        want = os.path.realpath(want)
        target = os.path.normpath(os.path.join(other_base[0] if other_base else cur, arg))
        valid = os.path.isdir(target) if "d" in mode else os.path.isfile(target)
        if valid and steps[i] not in info["valid_kinds"]:
            info["valid_kinds"].append(steps[i])
        try:
            if steps[i] == "dir-prebuilt":
                p = prebuilt
            elif other_base:
                p = J.Path(arg, mode=mode, cwd=other_base[0])
            else:
                p = J.Path(arg, mode=mode)
        except TypeError:
            if valid:
                devs.append((f"ctx:rejects-valid:{steps[i]}", f"{arg!r} in {cur!r}"))
            info["invalid"] = True
            if case["raise"]:
                raise _BODY_EXC[case["raise"]]()
            return
        if not valid:
            devs.append((f"ctx:accepts-invalid:{steps[i]}", f"{arg!r} in {cur!r}"))
            return
        with p.relative_path_context() as d:
            info["entered"] += 1
            if here() != want:
                devs.append((f"ctx:wrong-cwd-inside:{steps[i]}", f"cwd {here()!r}, model {want!r}"))
            if os.path.realpath(d) != want:
                devs.append((f"ctx:wrong-yielded-dir:{steps[i]}", f"yielded {d!r}, model {want!r}"))
            descend(i + 1, want)
            if here() != want:
                # the block that has just been left is the one that had to restore
                devs.append((f"ctx:cwd-not-restored:after-inner-exit:{steps[min(i + 1, len(steps) - 1)]}", f"cwd {here()!r}, model {want!r}"))
        if here() != cur:
            devs.append((f"ctx:cwd-not-restored:after-exit:{steps[i]}", f"cwd {here()!r}, model {cur!r}"))

    try:
        os.chdir(start)
        prebuilt = J.Path("a", mode="dr")  # created in the start directory, entered from wherever the sequence has led
        try:
            descend(0, start)
            raised = None
        except (_Boom, _BaseBoom, SystemExit):
            raised = "boom"
        except Exception as ex:  # noqa: BLE001
            raised = type(ex).__name__
            devs.append((f"ctx:escape:{raised}", str(ex)[:300]))
        if bool(case["raise"]) != (raised == "boom") and raised in (None, "boom"):
            devs.append(("ctx:exception-swallowed-or-invented", f"body raises={case['raise']}, observed {raised}"))
        when = "after-exit" if not raised else "after-exception" if case["raise"] is True else "after-base-exception"
        if here() != start:
            devs.append((f"ctx:cwd-not-restored:{when}", f"cwd {here()!r}, started in {start!r}"))
        if ctxvar is not None and ctxvar.get() is not None:
            devs.append((f"ctx:context-not-restored:{when}", repr(ctxvar.get())))
    finally:
        os.chdir(saved)
        if ctxvar is not None and ctxvar.get() is not None:
            ctxvar.set(None)
    info["raised"] = raised
    # one deviation per sequence: the first in execution order.  From there on the process and the model are in
    # different directories, and everything later in the same sequence (wrong cwd in inner blocks, refused steps,
    # wrong directory after exit) is a consequence that would only multiply signatures; every inner step is also
    # the first step of a shorter sequence of the enumeration.
    return devs[:1], info
