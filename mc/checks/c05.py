"""C05 - the same settings give the same configuration through every input channel.

Bounded exhaustive product, executed on the real parser:

    parser shape (plain argument at top level / at a dotted key / positional, dataclass-typed group, class group,
                 dataclass inside Optional[...])
  x type hint   (every leaf type G_1, every depth-2 type over the core leaves G_2, Any, and six argument
                 declarations that are not type hints: user type function, choices, yes/no action, nargs="+")
  x value       (a fixed alphabet of JSON values, kept at a position iff *textually unambiguous* there - rule U)
  x parser_mode (yaml, json, jsonnet, omegaconf)
  x channel     (argv `--k=v`, argv `--k v`, argv whitespace-padded, --cfg file, --cfg string nested / dotted,
                 parse_string nested / dotted, parse_path, parse_object nested / dotted, environment through a dict,
                 through os.environ, whitespace-padded, the config option through the environment, and for groups the
                 whole group as one JSON value on argv / in the environment)

Two further blocks on the same machinery:
  * two settings of one branch (the key and its int-typed sibling; also in a three-level parser `n.m.k`): both orders
    on the command line, both variables in the environment, and EVERY spelling of the two keys in one mapping - each
    cut of each key path into dotted / nested segments, both orders, entries merged where the JSON keys coincide -
    as Python object, config string, --cfg string / file.  Every spelling is compared with the fully nested mapping.
  * lexical variants: the same JSON value with its numbers in every exponent spelling of a stated grid (shift x mantissa
    form x e/E x exponent sign) and its strings as \\uXXXX escapes, in a document and as command line / environment
    text, compared with the plain spelling through the same channel and mode.

Three further blocks live in mc/checks/c05_more.py (cases with a key "block"): undefined keys derived from the parser's
own names ("or is rejected in every case"), parsers with a history (every sequence of <= L uses / documented
re-configurations / registration as a sub-command before the parse, against a parser built directly in the final
configuration), and the env / defaults flags of the parse methods with the settings split between the environment and
another carrier in every way.

Oracle (differential, no hand-written expectation): all observations of one setting - typed parsed namespace, or
"rejected" - are identical, across channels, spellings and modes.

One *case* = (shape, type, value); `run_case` builds a fresh parser for every single parse call, renders the setting
for every channel, and compares.  Nothing is sampled: VERIF_SEED only permutes the order of the cases.
"""
from __future__ import annotations

import copy
import json
import os

META = {
    "id": "C05",
    "level": "exploration",
    "engine": "bounded exhaustive product on the real ArgumentParser (mc/checks/c05.py)",
    "technique": "exhaustive product type x unambiguous JSON value x channel x parser_mode x key position (plus every "
    "dotted/nested spelling of two settings in one mapping, every exponent / escape spelling of the JSON text, undefined "
    "keys derived from the parser's names, every operation history of length <= 2 before the parse, every split of two "
    "settings between environment and carrier x env/defaults flags), "
    "differential oracle: every channel/spelling/mode gives the identical typed result or rejects",
    "level_text": "Every member of the stated finite product is executed on the unmodified parser, each parse on a "
    "freshly built parser; the oracle is differential (the implementation against itself through another channel), so "
    "no expectation is hand-written. Within the stated type grammar and value alphabet the verdict is exhaustive; it is "
    "the right level because the property quantifies over inputs x configurations; parsers that were used or "
    "re-configured before the parse are covered by full enumeration of short operation sequences (history block).",
    "level_note": "Trusted: the rendering functions of this file (JSON text via json.dumps, environment names "
    "PREFIX_KEY with '.' -> '__' as documented, derived here independently of the library), rule U that decides "
    "which (value, position) pairs are textually unambiguous, typed equality mc.util.tcanon. Not covered: types "
    "deeper than depth 2, strings outside the alphabet, YAML-only documents (the statement speaks of JSON documents).",
    "design_ref": "DESIGN.md §5 C05",
}

MODES = ["yaml", "json", "jsonnet", "omegaconf"]
ENV_PREFIX = "APP"

# ------------------------------------------------------------------------------------------------------
# type grammar.  A type spec is JSON: a leaf name, or [constructor, spec, ...].

CORE = ["str", "int", "float", "bool", "E"]

# leaf name -> (category used in signatures, JSON kind(s) of the config representation)
LEAF_INFO = {
    "str": ("str", "string"),
    "int": ("int", "number"),
    "float": ("float", "number"),
    "bool": ("bool", "boolean"),
    "E": ("enum", "string"),
    "LitS": ("literal-str", "string"),
    "LitI": ("literal-int", "number"),
    "LitM": ("literal-mixed", "mixed"),
    "PositiveInt": ("restricted-int", "number"),
    "NonNegativeInt": ("restricted-int", "number"),
    "Int0to3": ("restricted-int", "number"),
    "PositiveFloat": ("restricted-float", "number"),
    "NonNegativeFloat": ("restricted-float", "number"),
    "ClosedUnitInterval": ("restricted-float", "number"),
    "OpenUnitInterval": ("restricted-float", "number"),
    "Decimal": ("decimal", "number"),
    "NotEmptyStr": ("restricted-str", "string"),
    "Email": ("restricted-str", "string"),
    "AZ2": ("restricted-str", "string"),
    "Path_fr": ("path", "string"),
    "Path_fc": ("path", "string"),
    "Path_dc": ("path", "string"),
    "pathlib.Path": ("pathlib", "string"),
    "os.PathLike": ("pathlike", "string"),
    "complex": ("registered-text", "string"),
    "UUID": ("registered-text", "string"),
    "timedelta": ("registered-text", "string"),
    "bytes": ("registered-text", "string"),
    "bytearray": ("registered-text", "string"),
    "range": ("registered-text", "string"),
}
LITERALS = {"LitS": ["a", "b"], "LitI": [1, 2], "LitM": ["a", 1, None]}

# leaves that are not type hints but argument declarations (own add_argument call, own value list)
SPECIAL = {
    "FnDouble": ("custom-type-function", "number"),  # type=<function>: int(x) * 2 - not idempotent on purpose
    "ChoiceS": ("choices-str", "string"),  # type=str, choices=["a", "b"]
    "ChoiceI": ("choices-int", "number"),  # type=int, choices=[1, 2]
    "YesNo": ("yes-no-flag", "boolean"),  # action=ActionYesNo: --k / --no_k
    "YesNoArg": ("yes-no-arg", "boolean"),  # action=ActionYesNo, nargs="?": --k=true
    "NargsPlusInt": ("nargs-plus", "array"),  # type=int, nargs="+": --k 1 2
}
LEAF_INFO.update(SPECIAL)
SPECIAL_VALUES = {
    # a user function sees the text on the command line and the JSON value in a config: only values it reads alike
    "FnDouble": [None, 0, 1, 4, -1, []],
    "ChoiceI": [None, True, 0, 1, 2, 3, 1.5, 1.0, [], [1], {}],
    "YesNo": [None, True, False, 0, 1, [], {}],
    "YesNoArg": [None, True, False, 0, 1, [], {}],
    # nargs="+" collects command line words into a list: only arrays are settings of such a key ([] has no argv form)
    "NargsPlusInt": [[1], [1, 2], [2, 1], [-1], ["a"], [1.5], [1, "a"], [True], [None], [[1]], [1.0]],
}


def double(x):
    return int(x) * 2

_enum_cache = {}


def _enum():
    import enum

    if "E" not in _enum_cache:
        _enum_cache["E"] = enum.Enum("E", {"A": 1, "B": 2})
    return _enum_cache["E"]


def build_type(spec):
    """The typing object of a spec (imports jsonargparse lazily: restricted and path types live there)."""
    import typing as t

    if isinstance(spec, str):
        if spec in ("str", "int", "float", "bool", "complex", "bytes", "bytearray", "range"):
            return {"str": str, "int": int, "float": float, "bool": bool, "complex": complex, "bytes": bytes,
                    "bytearray": bytearray, "range": range}[spec]
        if spec == "E":
            return _enum()
        if spec in LITERALS:
            return t.Literal[tuple(LITERALS[spec])]
        if spec == "Any":
            return t.Any
        if spec == "Decimal":
            import decimal

            return decimal.Decimal
        if spec == "UUID":
            import uuid

            return uuid.UUID
        if spec == "timedelta":
            import datetime

            return datetime.timedelta
        if spec == "pathlib.Path":
            import pathlib

            return pathlib.Path
        if spec == "os.PathLike":
            return os.PathLike
        import jsonargparse.typing as jt

        if spec == "Int0to3":
            return jt.restricted_number_type("C05Int0to3", int, [(">=", 0), ("<", 3)])
        if spec == "AZ2":
            return jt.restricted_string_type("C05AZ2", "^[A-Z]{2}$")
        return getattr(jt, spec)
    ctor, *args = spec
    a = [build_type(x) for x in args]
    if ctor == "Optional":
        return t.Optional[a[0]]
    if ctor == "Union":
        return t.Union[tuple(a)]
    if ctor == "List":
        return t.List[a[0]]
    if ctor == "Dict":
        return t.Dict[a[0], a[1]]
    if ctor == "Tuple":
        return t.Tuple[tuple(a)]
    if ctor == "TupleE":
        return t.Tuple[a[0], ...]
    if ctor == "Set":
        return t.Set[a[0]]
    raise AssertionError(spec)


def type_name(spec):
    if isinstance(spec, str):
        return spec
    return spec[0] + "[" + ",".join(type_name(x) for x in spec[1:]) + "]"


def type_cat(spec):
    """Category of a type for signatures (root-cause level, not the individual type)."""
    if isinstance(spec, str):
        return "any" if spec == "Any" else LEAF_INFO[spec][0]
    return spec[0] + "<" + ",".join(type_cat(x) for x in spec[1:]) + ">"


def sig_cat(spec):
    """Coarser category for signatures: the members matter for Optional / Union, the constructor alone otherwise."""
    if isinstance(spec, str) or spec[0] in ("Optional", "Union"):
        return type_cat(spec)
    return spec[0]


def g1_types():
    return list(LEAF_INFO) + ["Any"]  # includes the SPECIAL argument declarations


def g2_types(core=CORE):
    out = []
    for x in core:
        out += [["Optional", x], ["List", x], ["Dict", "str", x], ["Dict", "int", x], ["TupleE", x], ["Set", x]]
    for x in core:
        for y in core:
            out.append(["Tuple", x, y])
            if x != y:
                out.append(["Union", x, y])
    return out


# ------------------------------------------------------------------------------------------------------
# rule U: which JSON values are textually unambiguous at which position

_YAML_WORDS = {"null", "true", "false", "yes", "no", "on", "off", "y", "n", "inf", "nan"}


def is_plain(s):
    """A string no YAML/JSON reader can take for anything but this string: starts with a letter, only
    [A-Za-z0-9_@.+=/-], not a YAML 1.1 keyword in any case."""
    import re

    return bool(re.fullmatch(r"[A-Za-z][A-Za-z0-9_@.+=/-]*", s)) and s.lower() not in _YAML_WORDS


def members(spec):
    """Flatten Optional / Union / mixed Literal into alternative member specs; None stands for the null member."""
    if isinstance(spec, list) and spec[0] == "Optional":
        return members(spec[1]) + [None]
    if isinstance(spec, list) and spec[0] == "Union":
        return [m for x in spec[1:] for m in members(x)]
    return [spec]


def _leaf_admits_string(leaf):
    if leaf == "Any":
        return True
    kind = LEAF_INFO[leaf][1]
    return kind == "string" or (kind == "mixed" and any(isinstance(x, str) for x in LITERALS[leaf]))


def admits_string(spec):
    return any(isinstance(m, str) and _leaf_admits_string(m) for m in members(spec))


def string_only(spec):
    return all(isinstance(m, str) and m != "Any" and LEAF_INFO[m][1] == "string" for m in members(spec))


def _blocks(m):
    """An open string member takes ANY command line text when it is tried first (documented left-to-right Union
    resolution); closed string sets (Enum names, string Literals) only take their own members, never a JSON text."""
    return isinstance(m, str) and m != "Any" and LEAF_INFO[m][1] == "string" and m not in ("E", "LitS")


def conforms(v, spec):
    """Deep structural conformance of a non-string JSON value to a *non-string* reading of spec, honouring the
    documented left-to-right resolution of Union members: False when an open string member is tried before the
    first non-string member that takes the value (`1` at Union[str, int] is the string "1" on the command line by
    design), and False when not decidable here.  `null` is read as None before any member is consulted.
    Only used at positions that also admit strings (where a non-conforming text falls back to the string)."""
    ms = members(spec)
    if v is None:
        return any(m is None or m == "Any" or (isinstance(m, str) and m in LITERALS and None in LITERALS[m]) for m in ms)
    for m in ms:
        if m is None:
            continue
        if isinstance(m, str):
            if m == "Any":
                return True
            if m in LITERALS:
                if any(type(v) is type(x) and v == x and not isinstance(x, str) for x in LITERALS[m]):
                    return True
                continue
            if m == "int" and type(v) is int:
                return True
            if m == "float" and type(v) in (int, float):
                return True
            if m == "bool" and type(v) is bool:
                return True
            if _blocks(m):
                return False
            continue  # closed string sets, restricted / registered number leaves: no reading decidable here
        ctor = m[0]
        if ctor in ("List", "TupleE", "Set") and isinstance(v, list) and all(_elem_ok(x, m[1]) for x in v):
            return True
        if ctor == "Tuple" and isinstance(v, list) and len(v) == len(m) - 1 and all(
            _elem_ok(x, s) for x, s in zip(v, m[1:])
        ):
            return True
        if ctor == "Dict" and isinstance(v, dict) and all(_elem_ok(x, m[2]) for x in v.values()):
            return True
    return False


def _elem_ok(v, spec):
    if isinstance(v, str):
        return admits_string(spec)
    return conforms(v, spec)


def in_space(v, spec):
    """Rule U.  A setting `v` at a position of type `spec` is textually unambiguous iff its command line / environment
    text cannot be taken for a different setting there:
      * a string: the position admits strings, and either admits nothing but strings (str, Enum, paths, restricted
        strings, text-serialised registered types and unions of these) or the string is plain (no reader takes it for
        a number / keyword / container);
      * a non-string (its text is JSON): the position admits no string at all, or the value conforms to a non-string
        member of the position (otherwise the text falls to the string member: `1.5` at Union[int, str], `1` at
        pathlib.Path, `null` at str).
    Inside arrays and objects JSON quoting makes every element explicit, so elements are unrestricted."""
    if isinstance(v, str):
        if not admits_string(spec):
            return False
        return string_only(spec) or is_plain(v)
    if not admits_string(spec):
        return True
    return conforms(v, spec)


def jsonnet_lossy(v):
    """jsonnet's number model is IEEE double: integral floats print as integers, integers beyond 2**53 lose digits."""
    if isinstance(v, bool):
        return False
    if isinstance(v, float):
        return v == int(v) if v == v and abs(v) != float("inf") else False
    if isinstance(v, int):
        return abs(v) > 2**53
    if isinstance(v, list):
        return any(jsonnet_lossy(x) for x in v)
    if isinstance(v, dict):
        return any(jsonnet_lossy(x) for x in v.values())
    return False


def vclass(v):
    if v is None:
        return "null"
    if isinstance(v, bool):
        return "bool"
    if isinstance(v, int):
        return "bigint" if abs(v) > 2**53 else "int"
    if isinstance(v, float):
        return "intfloat" if v == int(v) else "float"
    if isinstance(v, str):
        return "str" if is_plain(v) else "str-special"
    if isinstance(v, list):
        return "array<" + ",".join(sorted({vclass(x) for x in v})) + ">"
    return "object<" + ",".join(sorted({vclass(x) for x in v.values()})) + ">"


# ------------------------------------------------------------------------------------------------------
# value alphabet (JSON values).  Every value is tried at every type; rule U filters.

UUID_TEXT = "12345678-1234-5678-1234-567812345678"

NONSTRING_VALUES = [
    None, True, False, 0, 1, 2, -1, 3, 1.5, 0.5, -0.5, 0.1, 1.0, 2**53 + 1, 1e3,
    [], [1], [1, 2], [2, 1], [1, 1], [1, 2, 3], ["a"], ["a", "b"], ["A"], [1, "a"], ["a", 1], [True], [True, False],
    [None], [1.5], [1.5, 1], [1.0], [[1]], [{"a": 1}],
    {}, {"a": 1}, {"a": "b"}, {"1": 1}, {"1": "a"}, {"a": None}, {"a": 1, "b": 2}, {"a": [1]}, {"a": 1.5},
    {"a": True}, {"a": "A"}, {"1": True}, {"1": 1.5}, {"1": "A"},
]  # fmt: skip
STRING_VALUES = [
    "", "a", "b", "ab", "A", "B", "C", "AB", "a@b.c", "x.y",
    "1", "1.5", "null", "true", "[1]", "{}", " a", "a ", "a b", "a: b", "#a", "1e3", "~",
    "f.txt", "d", "nofile", "d/new", "nodir/x",
    "(1+2j)", "1+2j", UUID_TEXT, "1:00:00", "1 day, 1:00:00", "range(1, 3)", "range(3)", "aGk=",
]  # fmt: skip
_PATHS = ("Path_fr", "Path_fc", "Path_dc", "pathlib.Path", "os.PathLike")
TEXT_FOR = {
    "f.txt": _PATHS, "d": _PATHS, "nofile": _PATHS, "d/new": _PATHS, "nodir/x": _PATHS,
    "(1+2j)": ("complex",), "1+2j": ("complex",), UUID_TEXT: ("UUID",),
    "1:00:00": ("timedelta",), "1 day, 1:00:00": ("timedelta",),
    "range(1, 3)": ("range",), "range(3)": ("range",), "aGk=": ("bytes", "bytearray"), "a@b.c": ("Email",),
}  # fmt: skip
PLAIN_FEW = ["a", "ab", "A", "C", "x.y"]
QUICK_NONSTRING = [
    None, True, 0, 1, -1, 1.5, 0.5, 0.1, 1.0, 2**53 + 1,
    [], [1], ["a"], [None], [1.0], [[1]], {}, {"a": 1}, {"a": None}, {"a": [1]},
]  # fmt: skip

# type-directed values for the depth-2 types: conforming values and single-position mutations, built from the leaves
ELEM_OK = {"str": ["a", "ab"], "int": [1, -1], "float": [1.5, 1], "bool": [True, False], "E": ["A", "B"]}
ELEM_BAD = {  # inside arrays / objects JSON makes the kind explicit, so every kind may appear at an element position
    "str": [1, None],
    "int": [1.5, True, "a", None, "1"],
    "float": ["a", True, None],
    "bool": [1, "true", None],
    "E": ["C", 1, None],
}


def typed_values(spec):
    if isinstance(spec, str):
        return list(ELEM_OK.get(spec, []))
    ctor = spec[0]
    if ctor == "Optional":
        return typed_values(spec[1]) + [None]
    if ctor == "Union":
        return typed_values(spec[1]) + typed_values(spec[2])
    if ctor in ("List", "TupleE", "Set"):
        a, b = ELEM_OK[spec[1]]
        return [[], [a], [a, b], [b, a], [a, a]] + [[x] for x in ELEM_BAD[spec[1]]] + [[a, ELEM_BAD[spec[1]][0]]]
    if ctor == "Dict":
        a, b = ELEM_OK[spec[2]]
        k1, k2 = ("a", "b") if spec[1] == "str" else ("1", "2")
        out = [{}, {k1: a}, {k1: a, k2: b}] + [{k1: x} for x in ELEM_BAD[spec[2]]]
        if spec[1] == "int":
            out += [{"a": a}, {"1.5": a}]
        return out
    if ctor == "Tuple":
        (ax, bx), (ay, by) = ELEM_OK[spec[1]], ELEM_OK[spec[2]]
        return [[ax, ay], [bx, by], [ax, ELEM_BAD[spec[2]][0]], [ELEM_BAD[spec[1]][0], ay], [ax], [ax, ay, ay], []]
    raise AssertionError(spec)


def values_for(spec, quick):
    """The fixed alphabet plus the type-directed values, kept iff textually unambiguous at the type (rule U)."""
    if isinstance(spec, str) and spec in SPECIAL_VALUES:
        return list(SPECIAL_VALUES[spec])
    out = []
    if not string_only(spec):
        strings = PLAIN_FEW
    elif spec == "str":
        strings = STRING_VALUES
    else:  # texts written for one family of types are tried at that family (and at str) only
        strings = [x for x in STRING_VALUES if x not in TEXT_FOR or spec in TEXT_FOR[x]]
    for v in (QUICK_NONSTRING if quick else NONSTRING_VALUES) + strings + typed_values(spec):
        if in_space(v, spec) and not any(type(v) is type(x) and json.dumps(v) == json.dumps(x) for x in out):
            out.append(v)
    return out


# ------------------------------------------------------------------------------------------------------
# parser shapes and renderings

SHAPES = ["top", "nested", "positional", "dataclass", "classgroup", "optdataclass", "deep"]


def leaf_key(shape):
    return "k" if shape in ("top", "positional") else "n.m.k" if shape == "deep" else "n.k"


def sibling_key(shape):
    """The key of the sibling argument `j` (int, default 3) that every parser has next to the setting's key."""
    return leaf_key(shape)[:-1] + "j"


def env_name(key):
    return (ENV_PREFIX + "_" + key).replace(".", "__").upper()


def add_leaf(p, name, spec):
    """Declare the setting's argument: `name` is "--k", "--n.k" or "k" (positional)."""
    import jsonargparse

    if spec == "FnDouble":
        return p.add_argument(name, type=double)
    if spec == "ChoiceS":
        return p.add_argument(name, type=str, choices=["a", "b"])
    if spec == "ChoiceI":
        return p.add_argument(name, type=int, choices=[1, 2])
    if spec == "YesNo":
        return p.add_argument(name, action=jsonargparse.ActionYesNo)
    if spec == "YesNoArg":
        return p.add_argument(name, action=jsonargparse.ActionYesNo, nargs="?")
    if spec == "NargsPlusInt":
        return p.add_argument(name, type=int, nargs="+")
    return p.add_argument(name, type=build_type(spec))


def build_parser(shape, spec, mode, **parser_kwargs):
    """A fresh parser: --cfg (config option), the setting's key of the given type, a sibling with a default.
    `parser_kwargs` override the constructor arguments env_prefix / default_env / prog (history block)."""
    import jsonargparse

    kw = {"env_prefix": ENV_PREFIX, "default_env": False, **parser_kwargs}
    p = jsonargparse.ArgumentParser(exit_on_error=False, parser_mode=mode, **kw)
    p.add_argument("--cfg", action=jsonargparse.ActionConfigFile)
    if shape == "top":
        add_leaf(p, "--k", spec)
        p.add_argument("--j", type=int, default=3)
    elif shape == "nested":
        add_leaf(p, "--n.k", spec)
        p.add_argument("--n.j", type=int, default=3)
    elif shape == "deep":  # three levels: the branch n.m below the branch n (only used by the two-settings block)
        add_leaf(p, "--n.m.k", spec)
        p.add_argument("--n.m.j", type=int, default=3)
        p.add_argument("--n.i", type=int, default=4)
    elif shape == "positional":
        add_leaf(p, "k", spec)
        p.add_argument("--j", type=int, default=3)
    elif shape == "dataclass":
        import dataclasses

        D = dataclasses.make_dataclass("D", [("k", build_type(spec)), ("j", int, dataclasses.field(default=3))])
        D.__module__ = __name__
        p.add_argument("--n", type=D)
    elif shape == "classgroup":
        p.add_class_arguments(_group_class(build_type(spec)), "n")
    elif shape == "optdataclass":
        # the dataclass inside a type hint: one action `--n`, the field reached as `--n.k` / {"n": {"k": ...}}
        import dataclasses
        import typing

        D = dataclasses.make_dataclass("D", [("k", build_type(spec)), ("j", int, dataclasses.field(default=3))])
        D.__module__ = __name__
        p.add_argument("--n", type=typing.Optional[D])
    else:
        raise AssertionError(shape)
    return p


def _group_class(T):
    import inspect

    class G:
        def __init__(self, k, j: int = 3):
            pass

    G.__init__.__annotations__ = {"k": T, "j": int}
    sig = inspect.signature(G.__init__)
    G.__init__.__signature__ = sig.replace(
        parameters=[p.replace(annotation={"k": T, "j": int}.get(n, p.annotation)) for n, p in sig.parameters.items()]
    )
    return G


def text_of(v):
    return v if isinstance(v, str) else json.dumps(v)


def nested_doc(key, v):
    doc = cur = {}
    parts = key.split(".")
    for s in parts[:-1]:
        cur[s] = {}
        cur = cur[s]
    cur[parts[-1]] = v
    return doc


# ------------------------------------------------------------------------------------------------------
# lexical variants: the SAME JSON value written with another valid JSON spelling of its numbers / strings
#   numbers - JSON number grammar  int [frac] [(e|E) [+|-] digits]: every float of the value is re-spelled in exponent
#             notation, over  shift (scientific normal form s0, s0-1, s0+1 and exponent 0; thorough also s0-2, s0+2)
#                           x mantissa form (shortest / with ".0" when integral) x {e, E} x exponent sign (bare, +, -)
#   strings - every character of every string (values and keys) as a \\uXXXX escape


def contains_kind(v, kind):
    if isinstance(v, list):
        return any(contains_kind(x, kind) for x in v)
    if isinstance(v, dict):
        return any(contains_kind(x, kind) for x in v.values()) or (kind is str and any(k != "" for k in v))
    if kind is str:
        return isinstance(v, str) and v != ""
    return type(v) is kind


def _sci_shift(f):
    """Exponent of the scientific normal form of a finite non-zero float (mantissa in [1, 10))."""
    from decimal import Decimal

    return Decimal(repr(f)).adjusted()


def float_variants(quick):
    """The variant axis (independent of the value): (relative shift | "zero", mantissa form, e-char, sign style)."""
    shifts = ["zero", 0, -1, 1] if quick else ["zero", 0, -1, 1, -2, 2]
    return [(s, m, e, x) for s in shifts for m in ("min", "p0") for e in "eE" for x in ("bare", "plus", "minus")]


def spell_float(f, variant):
    """The JSON number text of float f under a variant, or None when f has no such spelling (".0" needs an integral
    mantissa; a bare or '+' exponent needs an exponent >= 0, a '-' exponent one <= 0)."""
    from decimal import Decimal

    if f != f or f in (float("inf"), float("-inf")) or f == 0:
        return None
    rel, mform, e, style = variant
    s = 0 if rel == "zero" else _sci_shift(f) + rel
    if rel != "zero" and s == 0:
        return None  # the same spelling as the "zero" variant
    m = format(Decimal(repr(f)).scaleb(-s), "f")
    if "." in m:
        m = m.rstrip("0").rstrip(".")
    if mform == "p0":
        if "." in m:
            return None
        m += ".0"
    if style == "minus":
        if s > 0:
            return None
        x = "-%d" % -s
    else:
        if s < 0:
            return None
        x = ("+" if style == "plus" else "") + "%d" % s
    return m + e + x


def _uesc(s):
    return '"' + "".join("\\u%04x" % ord(c) for c in s) + '"'


def dumps_lex(v, fvariant=None, uesc=False):
    """json.dumps(v) (same separators, same key order) with floats spelled per `fvariant` and / or strings escaped."""
    if isinstance(v, float) and fvariant is not None:
        return spell_float(v, fvariant) or json.dumps(v)
    if isinstance(v, str):
        return _uesc(v) if uesc else json.dumps(v)
    if isinstance(v, list):
        return "[" + ", ".join(dumps_lex(x, fvariant, uesc) for x in v) + "]"
    if isinstance(v, dict):
        return "{" + ", ".join(dumps_lex(k, fvariant, uesc) + ": " + dumps_lex(x, fvariant, uesc) for k, x in v.items()) + "}"
    return json.dumps(v)


def lex_variants(v, quick):
    """[(variant name, fvariant, uesc)] that change the text of v: number spellings realised by at least one float of
    v, and the string escape variant when v contains a non-empty string."""
    out = []
    if contains_kind(v, float):
        base = json.dumps(v)
        seen = {base}
        for fv in float_variants(quick):
            t = dumps_lex(v, fv)
            if t not in seen:
                seen.add(t)
                rel = "exp0" if fv[0] == "zero" else "sci%+d" % fv[0]
                out.append((f"num:{rel}:{fv[1]}:{fv[2]}:{fv[3]}", fv, False))
    if contains_kind(v, str):
        out.append(("str:uescape", None, True))
    return out


# ------------------------------------------------------------------------------------------------------
# spellings of a set of TWO settings in one mapping: every cut of each key path into dotted / nested segments, both
# orders of the two settings; entries are merged where the JSON keys coincide (a JSON object has each key once)


def compositions(path):
    """All 2**(len-1) ways to write a key path as a chain of mapping keys: ['n','m','k'] -> [['n.m.k'], ['n','m.k'],
    ['n.m','k'], ['n','m','k']] (a '.' inside a segment = dotted spelling, a segment boundary = nested mapping)."""
    n = len(path)
    out = []
    for mask in range(2 ** (n - 1)):
        segs, cur = [], [path[0]]
        for i in range(1, n):
            if mask >> (i - 1) & 1:
                segs.append(".".join(cur))
                cur = [path[i]]
            else:
                cur.append(path[i])
        segs.append(".".join(cur))
        out.append(segs)
    return out


def _insert(doc, segs, value):
    cur = doc
    for seg in segs[:-1]:
        if not (seg in cur and isinstance(cur[seg], dict)):
            cur[seg] = {}
        cur = cur[seg]
    cur[segs[-1]] = value


def spelling_class(p1, segs1, p2, segs2):
    """Structural class of the document that spells setting 1 (path p1, segments segs1) and then setting 2: how the
    second entry meets the branch the first one has spelled.  Key-agnostic, by shape only."""
    common_total = 0
    while common_total < min(len(p1), len(p2)) and p1[common_total] == p2[common_total]:
        common_total += 1
    d = i = 0
    while i < len(segs1) - 1 and i < len(segs2) - 1 and segs1[i] == segs2[i]:
        d += segs1[i].count(".") + 1
        i += 1
    common = common_total - d  # components of the shared branch still ahead at the level where the entries part
    dotted1 = any("." in s for s in segs1)
    dotted2 = any("." in s for s in segs2)
    if common <= 0:
        # a proper tree: every branch is spelled exactly once
        return "nested" if not (dotted1 or dotted2) else "tree-with-dotted-keys"
    c1, c2 = segs1[i].count(".") + 1, segs2[i].count(".") + 1
    t1 = "dotted" if c1 > common else "mapping"
    t2 = "dotted" if c2 > common else "mapping"
    if (t1, t2) == ("dotted", "dotted"):
        return "dotted" if len(segs1) == len(segs2) == 1 else "dotted-siblings-in-mapping"
    if (t1, t2) == ("mapping", "dotted"):
        # does a key of the first entry straddle the end of the shared branch (m.k inside n, met by n.m.j)?
        pos = 0
        for s in segs1[i:]:
            end = pos + s.count(".") + 1
            if pos < common < end:
                return "dotted-key-after-mapping-with-dotted-keys"
            pos = end
        return "dotted-key-after-mapping"
    if (t1, t2) == ("dotted", "mapping"):
        return "mapping-after-dotted-key"
    return "mapping-after-mapping"


def two_setting_docs(k1, v1, k2, v2):
    """Every spelling of {k1: v1, k2: v2} as one mapping: [(doc, class, first key)] without duplicates."""
    out, seen = [], set()
    for (ka, va), (kb, vb) in (((k1, v1), (k2, v2)), ((k2, v2), (k1, v1))):
        pa, pb = ka.split("."), kb.split(".")
        for sa in compositions(pa):
            for sb in compositions(pb):
                doc = {}
                _insert(doc, sa, copy.deepcopy(va))
                _insert(doc, sb, copy.deepcopy(vb))
                text = json.dumps(doc)
                if text not in seen:
                    seen.add(text)
                    out.append((doc, spelling_class(pa, sa, pb, sb), ka))
    return out


PAD_KINDS = {"both": (" ", " "), "lead": (" ", ""), "trail": ("", " ")}

# channel = (name, family, form, kind, payload, rank)
#   family: coarse family "argv" / "env" / "cfg" / "obj" plus a sub-family suffix (".pad", ".group", ".dotted")
#   form:   "text"  - the leaf value travels as bare command line / environment text,
#           "typed" - it travels inside a JSON document or as a Python object (its JSON kind is explicit)
#   rank:   0 = run under every mode in every tier; higher ranks are added by `level_for`


def argv_words(shape, spec, key, v):
    """The command line words of the setting, or None when it has no command line form.
    -> (words for `--k=v`, words for `--k v`)"""
    text = text_of(v)
    if shape == "positional":
        if spec == "NargsPlusInt":  # one word per item
            return ([text_of(x) for x in v], None) if isinstance(v, list) and v else (None, None)
        return [text], None
    if spec == "YesNo":  # a flag: --k sets true, --no_k sets false; nothing else can be said on the command line
        if isinstance(v, bool):
            return ["--" + key] if v else ["--no_" + key], None
        return None, None
    if spec == "NargsPlusInt":  # one word per item
        if isinstance(v, list) and v:
            return None, ["--" + key] + [text_of(x) for x in v]
        return None, None
    return [f"--{key}={text}"], [f"--{key}", text]


def channels(shape, v, level, spec=None, lex=None):
    """Every rendering of the setting {leaf_key: v} whose rank is <= level.  `lex` ("quick" / "thorough") adds the
    lexical variants of the JSON text (other spellings of its numbers / strings)."""
    key = leaf_key(shape)
    text = text_of(v)
    doc_n = nested_doc(key, v)
    doc_d = {key: v}
    eq, sep = argv_words(shape, spec, key, v)
    out = []
    if eq is not None:
        out.append(("argv_eq", "argv", "text", "argv", eq, 0))
    if sep is not None:
        out.append(("argv_sep", "argv", "text", "argv", sep, 2 if eq is not None else 0))
    if (
        isinstance(spec, list) and spec[0] == "Dict" and isinstance(v, dict) and v and shape != "positional"
        and all(in_space(x, spec[2]) for x in v.values())
    ):
        # documented item-wise spelling of a dict value: --k.a=1 --k.b=2 (each item text must itself be unambiguous)
        out.append(("argv_items", "argv.items", "text", "argv", [f"--{key}.{a}={text_of(x)}" for a, x in v.items()], 1))
    out += [
        ("cfg_file", "cfg", "typed", "argv_file", None, 0),
        ("cfg_str", "cfg", "typed", "argv", ["--cfg=" + json.dumps(doc_n)], 1),
        ("parse_string", "cfg", "typed", "string", json.dumps(doc_n), 0),
        ("parse_string_indent", "cfg", "typed", "string", json.dumps(doc_n, indent=2) + "\n", 3),
        ("parse_path", "cfg", "typed", "path", None, 2),
        ("parse_object", "obj", "typed", "object", doc_n, 0),
        ("env_dict", "env", "text", "env_dict", {env_name(key): text}, 0),
        ("env_os", "env", "text", "env_os", {env_name(key): text}, 2),
        # the environment consulted by the other entry points (env=True)
        ("env_os_parse_object", "env.via", "text", "env_os_object", {env_name(key): text}, 2),
        ("env_os_parse_string", "env.via", "text", "env_os_string", {env_name(key): text}, 2),
        ("env_cfg", "cfg.env", "typed", "env_dict", {env_name("cfg"): json.dumps(doc_n)}, 2),
    ]
    if "." in key:
        out += [
            ("cfg_str_dotted", "cfg.dotted", "typed", "argv", ["--cfg=" + json.dumps(doc_d)], 1),
            ("parse_string_dotted", "cfg.dotted", "typed", "string", json.dumps(doc_d), 2),
            ("parse_object_dotted", "obj.dotted", "typed", "object", doc_d, 1),
        ]
    if not isinstance(v, str) and spec not in ("YesNo", "YesNoArg", "FnDouble"):
        # JSON text tolerates surrounding whitespace: the padded text is the same JSON document (the yes/no action and
        # user functions read words, not JSON)
        for pk, (a, b) in PAD_KINDS.items():
            if shape == "positional":
                if spec != "NargsPlusInt":
                    out.append((f"argv_eq_pad_{pk}", "argv.pad", "text", "argv", [a + text + b], 1 if pk == "both" else 3))
            elif eq is not None:
                out.append((f"argv_eq_pad_{pk}", "argv.pad", "text", "argv", [f"--{key}={a}{text}{b}"], 1 if pk == "both" else 3))
            out.append((f"env_pad_{pk}", "env.pad", "text", "env_dict", {env_name(key): a + text + b}, 2 if pk == "both" else 3))
        if eq is not None and sep is not None:
            out.append(("argv_sep_pad_both", "argv.pad", "text", "argv", [f"--{key}", " " + text + " "], 3))
    if lex and shape != "positional":
        # the same JSON value under another valid JSON spelling: in a document, and (non-strings travel as JSON text)
        # as the command line / environment text
        as_text = not isinstance(v, str) and eq is not None and spec not in ("YesNo", "YesNoArg", "FnDouble", "NargsPlusInt")
        for name, fv, ue in lex_variants(v, lex == "quick"):
            fam = "lex-str" if ue else "lex-num"
            out.append((f"parse_string[{name}]", "cfg." + fam, "typed", "string", dumps_lex(doc_n, fv, ue), 1))
            if as_text:
                t = dumps_lex(v, fv, ue)
                out.append((f"argv_eq[{name}]", "argv." + fam, "text", "argv", [f"--{key}={t}"], 1))
                out.append((f"env_dict[{name}]", "env." + fam, "text", "env_dict", {env_name(key): t}, 3))
    if shape in ("dataclass", "classgroup", "optdataclass"):
        # the whole group as one JSON value (the group option / its environment variable)
        g = json.dumps({"k": v})
        out.append(("argv_group", "argv.group", "typed", "argv", [f"--n={g}"], 1))
        out.append(("env_group", "env.group", "typed", "env_dict", {env_name("n"): g}, 0 if shape == "optdataclass" else 2))
    if shape == "optdataclass":
        # the field is not an argument of its own: there is no environment variable for it
        out = [c for c in out if not c[1].startswith("env") or c[1] == "env.group"]
    return [c for c in out if c[5] <= level]


GROUP_SHAPES = ("dataclass", "classgroup", "optdataclass")


def is_mixed(c):
    return c[1] is not None and c[1].endswith(".mixed")


def multi_channels(shape, spec, v, w, level):
    """Every rendering of the TWO settings {leaf_key: v, sibling_key: w}: both orders on the command line, both
    variables in the environment, and - as a Python object, a config string, a --cfg string, a --cfg file - every
    spelling of the two keys in one mapping (`two_setting_docs`).  Family suffix: none = fully nested, `.dotted` =
    fully dotted, `.mixed` = any other cut (judged per structural class against the fully nested document)."""
    kkey, jkey = leaf_key(shape), sibling_key(shape)
    eq, _ = argv_words(shape, spec, kkey, v)
    jw = [f"--{jkey}={text_of(w)}"]
    out = [
        ("argv_kj", "argv", "text", "argv", eq + jw, 0),
        ("argv_jk", "argv", "text", "argv", jw + eq, 1),
    ]
    envs = {env_name(kkey): text_of(v), env_name(jkey): text_of(w)}
    if shape != "optdataclass":  # its fields are not arguments of their own: no environment variables
        out.append(("env_dict", "env", "text", "env_dict", envs, 0))
        out.append(("env_os", "env", "text", "env_os", envs, 2))
    for i, (doc, cls, _first) in enumerate(two_setting_docs(kkey, v, jkey, w)):
        sub = {"nested": "", "dotted": ".dotted"}.get(cls, ".mixed")
        text = json.dumps(doc)
        out += [
            (f"parse_object#{i}", "obj" + sub, "typed", "object", doc, 0),
            (f"parse_string#{i}", "cfg" + sub, "typed", "string", text, 1 if sub == ".mixed" else 0),
            (f"cfg_str#{i}", "cfg" + sub, "typed", "argv", ["--cfg=" + text], 3 if sub == ".mixed" else 1),
            (f"cfg_file#{i}", "cfg" + sub, "typed", "file_text", text, 3),
        ]
    if shape in GROUP_SHAPES:
        g, gk = json.dumps({"k": v, "j": w}), json.dumps({"k": v})
        out += [
            ("argv_group", "argv.group", "typed", "argv", [f"--n={g}"], 1),
            ("argv_group_then_leaf", "argv.group", "typed", "argv", [f"--n={gk}"] + jw, 1),
            ("argv_leaf_then_group", "argv.group", "typed", "argv", jw + [f"--n={gk}"], 1),
            ("env_group", "env.group", "typed", "env_dict", {env_name("n"): g}, 0 if shape == "optdataclass" else 2),
        ]
    # each setting alone (not judged: the reference that names what a deviating spelling has lost)
    out.append(("only_k", None, "typed", "object", nested_doc(kkey, v), 0))
    out.append(("only_j", None, "typed", "object", nested_doc(jkey, w), 0))
    return [c for c in out if c[5] <= level]


def case_channels(case, mode):
    """The channels of a case under a mode."""
    level = level_for(case, mode)
    if "multi" in case:
        return multi_channels(case["shape"], case["type"], case["value"], case["multi"], level)
    out = channels(case["shape"], case["value"], level, case["type"], case.get("lex"))
    if mode == "jsonnet":
        # 30 ms per evaluation, and the document passes through the jsonnet interpreter before any type sees it: of the
        # lexical variants only the documents, at one type per position kind (leaf / element / dict value)
        out = [c for c in out if "lex-" not in c[1] or (c[1].startswith("cfg.") and case["type"] in JSONNET_LEX_TYPES)]
    elif mode == "omegaconf" and (case.get("quick") or case["type"] not in LEX_TYPES_QUICK):
        # quick: re-spelled texts under yaml and json only (omegaconf documents pass through the yaml loader first)
        out = [c for c in out if "lex-" not in c[1]]
    return out


JSONNET_LEX_TYPES = ["float", "Any", "str", ["List", "float"], ["Dict", "str", "float"], ["List", "str"], ["Dict", "str", "str"]]


def level_for(case, mode):
    """Channel level of a mode: quick - yaml gets ranks <= 2, json / omegaconf one channel per (sub-)family (<= 1),
    jsonnet (30 ms per evaluation) one per coarse family (0); thorough - everything (3), jsonnet <= 1."""
    if case.get("quick"):
        if mode == "omegaconf" and "multi" not in case and not (case["type"] in JSONNET_TYPES_QUICK or (isinstance(case["type"], str) and case["type"] in SPECIAL)):
            return 0  # omegaconf reads through the yaml loader: the deeper ranks at the 18 selected types + declarations
        return min({"yaml": 2, "jsonnet": 0}.get(mode, 1), case.get("cap", 3))
    return 1 if mode == "jsonnet" else 3 if mode == "yaml" else min(3, case.get("cap_nonyaml", 3))


COARSE = ["argv", "env", "cfg", "obj"]


def needs_files(spec):
    return any(isinstance(m, str) and ("Path" in m) for m in _leaves(spec))


def _leaves(spec):
    if isinstance(spec, str):
        return [spec]
    return [x for a in spec[1:] for x in _leaves(a)]


def fixture_dir(d):
    """Files the path types can refer to (relative to the case's cwd)."""
    with open(os.path.join(d, "f.txt"), "w") as f:
        f.write("x\n")
    os.mkdir(os.path.join(d, "d"))


DOC_FILE = "c.json"


def observe_one(shape, spec, mode, kind, payload):
    """ONE parse on a fresh parser -> comparable observation.  cwd is the case's scratch directory; the config
    document of the case has been written to DOC_FILE there."""
    from mc.util import outcome, tcanon

    p = build_parser(shape, spec, mode)
    payload = copy.deepcopy(payload)
    if kind == "argv":
        o = outcome(p.parse_args, payload)
    elif kind == "argv_file":
        o = outcome(p.parse_args, ["--cfg", DOC_FILE])
    elif kind == "file_text":
        with open("m.json", "w") as f:
            f.write(payload)
        o = outcome(p.parse_args, ["--cfg", "m.json"])
    elif kind == "string":
        o = outcome(p.parse_string, payload)
    elif kind == "path":
        o = outcome(p.parse_path, DOC_FILE)
    elif kind == "object":
        o = outcome(p.parse_object, payload)
    elif kind == "env_dict":
        o = outcome(p.parse_env, payload)
    elif kind in ("env_os", "env_os_object", "env_os_string"):
        saved = dict(os.environ)
        try:
            os.environ.update(payload)
            if kind == "env_os":
                o = outcome(p.parse_args, [], env=True)
            elif kind == "env_os_object":
                o = outcome(p.parse_object, {}, env=True)
            else:
                o = outcome(p.parse_string, "{}", env=True)
        finally:
            os.environ.clear()
            os.environ.update(saved)
    else:
        raise AssertionError(kind)
    if o["kind"] == "ok":
        import jsonargparse

        ns = jsonargparse.strip_meta(o["value"]).clone()
        ns.pop("cfg", None)  # bookkeeping of the config option: names the channel by design
        return ["ok", tcanon(ns)], o
    if o["kind"] in ("escape", "ArgumentError"):
        # how a rejection surfaces is C03's subject; here only accept / reject and the accepted value count
        return ["rejected"], o
    return [o["kind"]], o  # exit / timeout: never expected with exit_on_error=False


def case_modes(case):
    """The parser modes a case runs under: its `modes` minus jsonnet when the value has a literal jsonnet cannot keep."""
    return [m for m in case.get("modes", MODES) if not (m == "jsonnet" and jsonnet_lossy(case["value"]))]


def observe_case(case):
    """{mode: {channel: observation}} plus counters."""
    from mc.util import restored_process_state, scratch_dir

    shape, spec, v = case["shape"], case["type"], case["value"]
    obs, stats = {}, {"parses": 0, "escapes": 0, "escape_types": {}}
    with restored_process_state(), scratch_dir(chdir=True) as d:
        if needs_files(spec):
            fixture_dir(d)
        with open(os.path.join(d, DOC_FILE), "w") as f:
            f.write(json.dumps(nested_doc(leaf_key(shape), v)))
        for mode in case_modes(case):
            obs[mode] = {}
            for name, _fam, _form, kind, payload, _rank in case_channels(case, mode):
                key, o = observe_one(shape, spec, mode, kind, payload)
                obs[mode][name] = key
                stats["parses"] += 1
                if o["kind"] == "escape":
                    stats["escapes"] += 1
                    et = f"{type_cat(spec) if isinstance(spec, str) else spec[0]}:{o['type']}"
                    stats["escape_types"][et] = stats["escape_types"].get(et, 0) + 1
    return obs, stats


# ------------------------------------------------------------------------------------------------------
# oracle and signatures


def judge(case, obs):
    """All observations equal?  Otherwise deviations whose signatures name the class of the divergence."""
    chan = {m: case_channels(case, m) for m in obs}
    if "multi" not in case:
        if not case.get("lex"):
            return judge_core(case, obs, chan)
        # lexical variants: every re-spelled text against the plain spelling through the same channel and mode
        plain = {m: [c for c in chan[m] if "[" not in c[0]] for m in obs}
        return judge_core(case, obs, plain) + judge_lex(case, obs, chan)
    # two settings: (1) command line, environment, fully nested and fully dotted documents among each other, as for
    # one setting; (2) every other spelling of the mapping against the fully nested one, per structural class
    plain = {m: [c for c in chan[m] if c[1] is not None and not is_mixed(c)] for m in obs}
    return judge_core(case, obs, plain) + judge_mixed(case, obs, chan)


def lex_class(v, name):
    """Class of a lexical variant by the shape of the re-spelled text (not by value): for numbers the mantissa form(s),
    the exponent letter and the exponent sign style; for strings the escape kind."""
    import re

    kind, *rest = name.split(":")
    if kind == "str":
        return "str:" + rest[0]
    fv = next(f for n, f, _ in lex_variants(v, False) if n == name)
    forms = set()
    for num in re.findall(r"-?[0-9.]+[eE][-+]?[0-9]+", dumps_lex(_floats_only(v), fv)):
        mant = re.split("[eE]", num)[0]
        forms.add("int" if "." not in mant else "int.0" if mant.endswith(".0") else "frac")
    return "num:%s-mantissa:%s:%s-exponent" % ("+".join(sorted(forms)), fv[2], fv[3])


def _floats_only(v):
    """The floats of a value, flat (strings / keys cannot be mistaken for numbers by the class regex)."""
    if isinstance(v, list):
        return [y for x in v for y in _floats_only(x)]
    if isinstance(v, dict):
        return [y for x in v.values() for y in _floats_only(x)]
    return [v] if isinstance(v, float) else []


def judge_lex(case, obs, chan):
    v = case["value"]
    found = {}
    for m in obs:
        for c in chan[m]:
            if "[" not in c[0]:
                continue
            base, name = c[0][: c[0].index("[")], c[0][c[0].index("[") + 1 : -1]
            o, r = obs[m][c[0]], obs[m][base]
            if o != r:
                found.setdefault(lex_class(v, name), []).append(
                    {"mode": m, "channel": base, "family": c[1].split(".")[0], "text": c[4] if isinstance(c[4], str) else list(c[4].values())[0] if isinstance(c[4], dict) else c[4][0],
                     "got": _short(o), "plain_spelling_gives": _short(r)}
                )
    return [
        {
            "signature": "lexical-variant:%s:%s" % (cls, "+".join(f for f in COARSE if any(r["family"] == f for r in rows))),
            "detail": json.dumps({"type": type_name(case["type"]), "value": v, "deviating": rows[:4], "n": len(rows)}, default=repr)[:3000],
        }
        for cls, rows in sorted(found.items())
    ]


def judge_mixed(case, obs, chan):
    shape, v, w = case["shape"], case["value"], case["multi"]
    kkey = leaf_key(shape)
    docs = two_setting_docs(kkey, v, sibling_key(shape), w)
    found = {}
    for m in obs:
        ref = {}
        for c in chan[m]:
            if c[1] in ("obj", "cfg"):
                ref.setdefault(c[3], obs[m][c[0]])  # the fully nested document through the same entry point
        for c in chan[m]:
            if not is_mixed(c):
                continue
            doc, cls, first = docs[int(c[0].split("#")[1])]
            o, r = obs[m][c[0]], ref.get(c[3], ref["object"])
            if o == r:
                continue
            earlier, later = ("only_k", "only_j") if first == kkey else ("only_j", "only_k")
            if o == obs[m][later]:  # the outcome of the later setting alone (also when that is a rejection)
                effect = "earlier-setting-lost"
            elif o == obs[m][earlier]:
                effect = "later-setting-lost"
            else:
                effect = "rejected" if o[0] != "ok" else "other-value"
            found.setdefault(f"mixed-spelling:{cls}:{effect}", []).append(
                {"mode": m, "channel": c[0], "document": json.dumps(doc), "got": _short(o), "fully_nested_gives": _short(r)}
            )
    return [
        {"signature": sig, "detail": json.dumps({"type": type_name(case["type"]), "deviating": rows[:4], "n": len(rows)}, default=repr)[:3000]}
        for sig, rows in sorted(found.items())
    ]


def judge_core(case, obs, chan):
    shape, spec, v = case["shape"], case["type"], case["value"]
    flat = [obs[m][c[0]] for m in obs for c in chan[m]]
    distinct = []
    for key in flat:
        if key not in distinct:
            distinct.append(key)
    if len(distinct) <= 1:
        return []
    # class ids: "rej", other non-ok kinds by name, accepted values ok1, ok2 ... in order of first appearance
    ids, n_ok = {}, 0
    for key in distinct:
        if key[0] == "ok":
            n_ok += 1
            ids[json.dumps(key)] = f"ok{n_ok}"
        else:
            ids[json.dumps(key)] = "rej" if key[0] == "rejected" else key[0]
    per_mode, fam_by_mode = {}, {}
    for m in obs:
        fam_cls = fam_by_mode[m] = {}
        for c in chan[m]:
            fam_cls.setdefault(c[1], set()).add(ids[json.dumps(obs[m][c[0]])])
        groups = {}
        for coarse in COARSE:
            subs = sorted(f for f in fam_cls if f.split(".")[0] == coarse)
            if not subs:
                continue
            union = set().union(*(fam_cls[f] for f in subs))
            if len(union) == 1:  # the whole coarse family agrees: name it once
                groups.setdefault(next(iter(union)), []).append(coarse)
                continue
            base = fam_cls.get(coarse)
            for f in subs:  # sub-families that agree with the plain family are not named separately
                if f == coarse or fam_cls[f] != base:
                    groups.setdefault("/".join(sorted(fam_cls[f])), []).append(f)
        per_mode[m] = "|".join(f"{cls}:{'+'.join(fams)}" for cls, fams in sorted(groups.items()))
    # the partition under the first mode (yaml whenever it runs), then only the modes that differ from it on a
    # (sub-)family both ran - so the signature does not depend on how many agreeing modes / channels a tier runs
    ref = next(iter(per_mode))
    differing = [
        m for m in per_mode
        if any(f in fam_by_mode[ref] and fam_by_mode[m][f] != fam_by_mode[ref][f] for f in fam_by_mode[m])
    ]
    part = per_mode[ref] + "".join(f";{m}:{per_mode[m]}" for m in differing)
    mode_cls = {m: {ids[json.dumps(obs[m][c[0]])] for c in chan[m]} for m in obs}
    if all(len(x) == 1 for x in mode_cls.values()):
        # every mode is consistent in itself; the modes disagree: the same JSON document is read differently
        sig = f"mode-split:{sig_cat(spec)}:{vclass(v)}:{ref}-vs-{'+'.join(differing)}"
        return [{"signature": sig, "detail": _detail(spec, v, part, obs)}]
    # does the split follow the FORM of the rendering (bare text vs JSON-typed) in every mode?
    form_cls = {}
    for m in obs:
        for c in chan[m]:
            form_cls.setdefault(c[2], set()).add(ids[json.dumps(obs[m][c[0]])])
    by_form = all(len(x) == 1 for x in form_cls.values()) and len(form_cls) == 2
    # do only the leaf command line channels (argv, argv.pad) deviate, all other families agreeing across all modes?
    rest = {cls for m in obs for f, x in fam_by_mode[m].items() if f not in ("argv", "argv.pad") for cls in x}
    only_argv_leaf = len(rest) == 1
    sig = classify(spec, v, part, form_cls if by_form else None, shape, only_argv_leaf)
    return [{"signature": sig, "detail": _detail(spec, v, part, obs)}]


def _detail(spec, v, part, obs):
    detail = {
        "type": type_name(spec),
        "value": v,
        "partition": part,
        "observations": {m: {name: _short(obs[m][name]) for name in obs[m]} for m in obs},
    }
    return json.dumps(detail, default=repr)[:3000]


def _short(key):
    return "rejected" if key[0] != "ok" else json.dumps(key[1])[:120]


def contains_null(v):
    if isinstance(v, list):
        return any(contains_null(x) for x in v)
    if isinstance(v, dict):
        return any(contains_null(x) for x in v.values())
    return v is None


def classify(spec, v, part, form_cls, shape, only_argv_leaf=False):
    """Signature = class of the failing setting by its shape.  Root causes that split exactly along the form of the
    rendering (every bare-text channel one outcome, every JSON-typed channel the other) get a name of their own."""
    if shape == "optdataclass" and only_argv_leaf and (
        v is None or isinstance(v, (list, dict)) or (isinstance(v, str) and not is_plain(v))
    ):
        # only `--n.k=<text>` (the dotted command line spelling of a field of a dataclass inside a type hint) deviates:
        # the text is loaded, then written back with str() for the inner parser (None -> 'None', {'a': 'b'} and
        # [1, 'a'] -> Python repr, which the json loader cannot read back at all)
        kind = "special-string" if isinstance(v, str) else "contains-null" if contains_null(v) else "container"
        return "dotted-argv-field-of-dataclass-in-typehint:loaded-value-restringified:" + kind
    if form_cls is not None:
        text, typed = next(iter(form_cls["text"])), next(iter(form_cls["typed"]))
        split = f"typed-channels-{'reject' if typed == 'rej' else 'accept'}:text-channels-{'reject' if text == 'rej' else ('accept' if typed == 'rej' else 'accept-other-value')}"
        if v is None and not conforms(None, spec) and (typed, text) == ("ok1", "rej"):
            # every config / object channel keeps null as "unset" without asking the type; argv / env ask the type
            return "null-at-non-optional:" + split
        if isinstance(v, float) and v == int(v) and isinstance(spec, str) and type_cat(spec) == "restricted-int":
            return "integral-float-at-restricted-int:" + split
        return f"form-split:{sig_cat(spec)}:{vclass(v)}:{split}"
    return f"diverge:{sig_cat(spec)}:{vclass(v)}:{part}"


# ------------------------------------------------------------------------------------------------------
# driver side


def run_case(case):
    if "block" in case:  # undefined keys / parser histories / env and defaults flags: mc/checks/c05_more.py
        from mc.checks import c05_more

        return c05_more.run_case(case)
    obs, _ = observe_case(case)
    return judge(case, obs)


def work_more(case):
    from mc.checks import c05_more

    return c05_more.work(case)


def work(case):
    """Worker: one case -> (case, deviations, counters)."""
    obs, stats = observe_case(case)
    devs = judge(case, obs)
    flat = [key for m in obs for key in obs[m].values()]
    n_ok = sum(1 for k in flat if k[0] == "ok")
    chan_acc = sorted({_chan_label(name) for m in obs for name, k in obs[m].items() if k[0] == "ok"})
    chan_rej = sorted({_chan_label(name) for m in obs for name, k in obs[m].items() if k[0] != "ok"})
    effect = any(k[0] == "ok" and _has_effect(case, k) for k in flat)
    extra = {"multi": "multi" in case, "mixed_obs": 0, "both_effect": False, "lex_obs": 0, "lex_acc": 0, "lex_names": [],
             "spelling_classes": []}
    if "multi" in case:
        docs = two_setting_docs(leaf_key(case["shape"]), case["value"], sibling_key(case["shape"]), case["multi"])
        classes = set()
        for m in obs:
            for name in obs[m]:
                if "#" in name:
                    cls = docs[int(name.split("#")[1])][1]
                    classes.add(cls)
                    extra["mixed_obs"] += cls not in ("nested", "dotted")
            ref = obs[m].get("parse_object#%d" % next(i for i, d in enumerate(docs) if d[1] == "nested"))
            # losing either setting is observable: the two together differ from each one alone
            if ref and ref[0] == "ok" and ref != obs[m]["only_k"] and ref != obs[m]["only_j"]:
                extra["both_effect"] = True
        extra["spelling_classes"] = sorted(classes)
    else:
        names = set()
        for m in obs:
            for name, k in obs[m].items():
                if "[" in name:
                    extra["lex_obs"] += 1
                    extra["lex_acc"] += k[0] == "ok"
                    names.add(name[name.index("[") + 1 : -1])
        extra["lex_names"] = sorted(names)
    return {
        **extra,
        "case": case,
        "devs": devs,
        "parses": stats["parses"],
        "escapes": stats["escapes"],
        "escape_types": stats["escape_types"],
        "accepted": n_ok,
        "rejected": len(flat) - n_ok,
        "all_accept": n_ok == len(flat),
        "all_reject": n_ok == 0,
        "chan_acc": chan_acc,
        "chan_rej": chan_rej,
        "modes": sorted(obs),
        "effect": effect,
    }


def _chan_label(name):
    """Channel name without the index of the document spelling / the name of the lexical variant."""
    if "#" in name:
        return name.split("#")[0] + "#spelling"
    if "[" in name:
        return name[: name.index("[")] + "[" + name[name.index("[") + 1 :].split(":")[0] + "]"
    return name


def _has_effect(case, key):
    """The accepted result differs from what the parser gives without the setting (k unset)."""
    ns = key[1][1]
    node = ns
    for s in leaf_key(case["shape"]).split("."):
        if not (isinstance(node, dict) and s in node):
            return False
        node = node[s]
        if isinstance(node, list) and len(node) == 2 and isinstance(node[1], dict) and node[0] in ("Namespace",):
            node = node[1]
    return node is not None


MORE_BLOCKS = ("undef", "hist", "flags", "nargs", "subcmd")  # c05_more.py, c05_shapes.py

JSONNET_TYPES_QUICK = [
    "str", "int", "float", "bool", "E", "Any", "PositiveInt", "Decimal", "pathlib.Path",
    ["Optional", "int"], ["Optional", "str"], ["Union", "int", "str"], ["List", "int"], ["List", "str"],
    ["Dict", "str", "int"], ["Dict", "int", "str"], ["Tuple", "int", "str"], ["Set", "int"],
]  # fmt: skip
GROUP_TYPES = [  # also the types of the positional shape
    "str", "int", "float", "bool", "E", "PositiveInt", "Path_fr", "Any",
    ["Optional", "int"], ["Optional", "str"], ["Union", "int", "str"], ["List", "int"], ["Dict", "str", "int"],
    ["Tuple", "int", "str"],
]  # fmt: skip


def plan_blocks(quick):
    """The enumerated space as a list of fully enumerated blocks (shape, types, modes)."""
    g = g1_types() + g2_types()
    three = ["yaml", "json", "omegaconf"]
    if quick:
        binary = [t for t in g2_types() if t[0] in ("Tuple", "Union")]  # 45 two-argument types: yaml only in quick
        return [
            ("nested", g, ["yaml"]),
            ("nested", [t for t in g if t not in binary] + JSONNET_TYPES_QUICK, three),
            ("nested", JSONNET_TYPES_QUICK, ["jsonnet"]),
            ("top", g1_types() + JSONNET_TYPES_QUICK, ["yaml"]),
            ("positional", GROUP_TYPES, ["yaml"]),
            ("dataclass", GROUP_TYPES, ["yaml", "json"]),
            ("classgroup", GROUP_TYPES, ["yaml"]),
            ("optdataclass", GROUP_TYPES, ["yaml", "json"]),
        ]
    return [
        ("nested", g, MODES),
        ("top", g, ["yaml", "json"]),
        ("top", JSONNET_TYPES_QUICK, ["jsonnet", "omegaconf"]),
        ("positional", [t for t in g if not (isinstance(t, str) and t in ("YesNo", "YesNoArg"))], ["yaml"]),
        ("positional", GROUP_TYPES, ["json"]),
        ("dataclass", [t for t in g if not (isinstance(t, str) and t in SPECIAL)], ["yaml", "json"]),
        ("classgroup", [t for t in g if not (isinstance(t, str) and t in SPECIAL)], ["yaml"]),
        ("optdataclass", GROUP_TYPES, ["yaml", "json"]),
    ]


# --- lexical block: the cases of these (shape, type) pairs also run the lexical variants of their JSON text
LEX_TYPES_QUICK = [
    # positions that take numbers: plain, restricted (own reader), Decimal (reads the text), Any, a rejecting control,
    # Optional / Union members, list elements, dict values
    "float", "PositiveFloat", "Decimal", "Any", "int",
    ["Optional", "float"], ["Union", "int", "float"], ["List", "float"], ["Dict", "str", "float"],
    # positions that take strings: open, closed, path, members, elements, dict keys and values
    "str", "E", "pathlib.Path", ["Optional", "str"], ["Union", "int", "str"], ["List", "str"], ["Dict", "str", "str"],
    ["Dict", "str", "int"],
]  # fmt: skip
LEX_EXTRA_FLOATS = [-0.5, 1e3]  # floats of the full alphabet that the quick alphabet lacks: a sign, an exponent >= 1


def plan_lex(quick):
    if quick:
        return [("nested", LEX_TYPES_QUICK, ["yaml", "json"])]
    # thorough: additionally every type with a number-taking leaf (restricted floats, Decimal, Any; Optional / List /
    # Dict / Tuple[x, ...] / Set of float), the full value alphabet and two more exponent shifts
    floaty = {"float", "PositiveFloat", "NonNegativeFloat", "ClosedUnitInterval", "OpenUnitInterval", "Decimal", "Any"}
    more = [t for t in g1_types() + g2_types() if t not in LEX_TYPES_QUICK
            and ((isinstance(t, str) and t in floaty) or (isinstance(t, list) and t[0] not in ("Tuple", "Union") and t[-1] == "float"))]
    return [("nested", LEX_TYPES_QUICK + more, MODES), ("top", LEX_TYPES_QUICK, ["yaml"])]


# --- two-settings block: the key `k` of the case's type and its sibling `j` (int) are BOTH set
MULTI_SHAPES = ["nested", "deep", "dataclass", "classgroup", "optdataclass"]
MULTI_TYPES = ["int", "str", "Any", ["Optional", "int"], ["List", "int"], ["Dict", "str", "int"]]
MULTI_VALUES = [None, 1, 1.5, "a", "", [1], ["a"], {}, {"a": 1}]
MULTI_VALUES_MORE = [True, "1", "a: b", [], {"a": "b"}, {"a": None}]  # thorough


def plan_multi(quick):
    """[(shape, types, modes, values of the sibling j)]; [1] at the int-typed j must be rejected through every spelling."""
    if quick:
        return [(sh, MULTI_TYPES, ["yaml", "json"] if sh == "nested" else ["yaml"], [5]) for sh in MULTI_SHAPES]
    return [
        ("nested", MULTI_TYPES, ["yaml", "json", "omegaconf"], [5, [1]]),
        ("deep", MULTI_TYPES, ["yaml"], [5, [1]]),
    ] + [(sh, MULTI_TYPES, ["yaml", "json"], [5]) for sh in GROUP_SHAPES]


def case_space(ctx):
    quick = ctx.quick
    merged = {}
    plan = plan_blocks(quick)

    binary_only = [t for t in g2_types() if t[0] in ("Tuple", "Union") and t not in JSONNET_TYPES_QUICK] if quick else []

    def add(shape, spec, v, modes, **extra):
        k = json.dumps([shape, spec, v, extra.get("multi", "single")])
        c = merged.setdefault(k, {"shape": shape, "type": spec, "value": v, "modes": []})
        c["modes"] = [m for m in MODES if m in c["modes"] or m in modes]
        if quick:
            c["quick"] = True
        return c

    for shape, types, modes in plan:
        for spec in types:
            for v in values_for(spec, quick):
                c = add(shape, spec, v, modes)
                if quick and (shape in ("top", "classgroup") or spec in binary_only) and not (isinstance(spec, str) and spec in SPECIAL):
                    # quick: the top-level key and the two-argument types that run under yaml only get one channel per
                    # (sub-)family; every channel runs at `nested` for all other types.  Not for the argument
                    # declarations (few cases; the signature of a known deviation there names the deeper channels)
                    c["cap"] = 1
                if not quick and shape == "top":
                    c["cap_nonyaml"] = 1  # thorough: the top-level key runs the deeper channel ranks under yaml only
    for shape, types, modes in plan_lex(quick):
        for spec in types:
            vals = values_for(spec, quick)
            vals += [v for v in LEX_EXTRA_FLOATS if in_space(v, spec) and not any(type(v) is type(x) and json.dumps(v) == json.dumps(x) for x in vals)]
            for v in vals:
                add(shape, spec, v, modes)["lex"] = "quick" if quick else "thorough"
    for shape, types, modes, ws in plan_multi(quick):
        for spec in types:
            for v in MULTI_VALUES if quick else MULTI_VALUES + MULTI_VALUES_MORE:
                if in_space(v, spec):
                    for w in ws:
                        c = add(shape, spec, v, modes, multi=w)
                        c["multi"] = w
                        if not quick:
                            c["cap_nonyaml"] = 1  # thorough: --cfg string / file of every mixed spelling under yaml only
    return list(merged.values()), plan


def explore(ctx):
    cases, plan = case_space(ctx)
    # simplest first: by size of the canonical case
    cases.sort(key=lambda c: (len(json.dumps(c)), json.dumps(c, sort_keys=True)))
    n = parses = escapes = 0
    acc = rej = all_acc = all_rej = mixed = 0
    chan_acc, chan_rej, modes_seen = set(), set(), set()
    nontrivial = set()
    types_accepting = set()
    some_acc = some_rej = 0
    chan_runs, escape_types = {}, {}
    n_multi = mixed_obs = both_effect = lex_cases = lex_obs = lex_acc = 0
    lex_names, spelling_classes = set(), set()
    for r in ctx.pmap(work, cases):
        n += 1
        n_multi += r["multi"]
        mixed_obs += r["mixed_obs"]
        both_effect += r["both_effect"]
        lex_cases += bool(r["lex_obs"])
        lex_obs += r["lex_obs"]
        lex_acc += r["lex_acc"]
        lex_names.update(r["lex_names"])
        spelling_classes.update(r["spelling_classes"])
        parses += r["parses"]
        escapes += r["escapes"]
        for et, k in r["escape_types"].items():
            escape_types[et] = escape_types.get(et, 0) + k
        acc += r["accepted"]
        rej += r["rejected"]
        all_acc += r["all_accept"]
        all_rej += r["all_reject"]
        mixed += not (r["all_accept"] or r["all_reject"])
        chan_acc.update(r["chan_acc"])
        chan_rej.update(r["chan_rej"])
        modes_seen.update(r["modes"])
        if r["effect"]:
            nontrivial.add(json.dumps([r["case"]["shape"], r["case"]["type"], r["case"]["value"], r["case"].get("multi", "single")]))
        if r["accepted"]:
            types_accepting.add(json.dumps([r["case"]["shape"], r["case"]["type"]]))
        some_acc += bool(r["accepted"])
        some_rej += bool(r["rejected"])
        for name in r["chan_acc"] + r["chan_rej"]:
            chan_runs[name] = chan_runs.get(name, 0) + 1
        ctx.deviations_from(r["case"], r["devs"])
    # the three further blocks (mc/checks/c05_more.py): undefined keys, parsers with a history, env / defaults flags
    from mc.checks import c05_more, c05_shapes

    more = c05_more.cases(ctx.quick)
    more.sort(key=lambda c: (len(json.dumps(c)), json.dumps(c, sort_keys=True)))
    mstat = {b: {"cases": 0, "parses": 0, "accepted": 0, "rejected": 0, "some_acc": 0, "all_rej": 0} for b in MORE_BLOCKS}
    fresh_keys = set()
    for r in ctx.pmap(work_more, more):
        st = mstat[r["case"]["block"]]
        st["cases"] += 1
        for k in ("parses", "accepted", "rejected"):
            st[k] += r[k]
        st["some_acc"] += bool(r["accepted"])
        st["all_rej"] += not r["accepted"]
        fresh_keys.update(r["fresh_keys"])
        ctx.deviations_from(r["case"], r["devs"])
    mstat["hist"]["parses"] += len(fresh_keys)  # distinct reference parses on directly built parsers (cached per worker)
    n_more = sum(st["cases"] for st in mstat.values())
    parses_more = sum(st["parses"] for st in mstat.values())
    for c in (cases[0], cases[len(cases) // 2], cases[-1]):
        ctx.sample(c)
    mid = cases[len(cases) // 3]
    ctx.sample({"renderings_of": mid, "channels": [[c[0], c[3], c[4]] for c in case_channels(mid, "yaml")]})
    first_multi = next(c for c in cases if "multi" in c and c["shape"] == "deep")
    ctx.sample({"renderings_of": first_multi, "channels": [[c[0], c[1], c[4]] for c in case_channels(first_multi, "yaml")]})
    first_lex = next(c for c in cases if c.get("lex") and contains_kind(c["value"], float))
    ctx.sample({"renderings_of": first_lex, "channels": [[c[0], c[1], c[4]] for c in case_channels(first_lex, "yaml") if "[" in c[0]]})
    all_types = {json.dumps([shape, spec]) for shape, types, _ in plan for spec in types}
    ctx.count("cases", n)
    ctx.count("parses", parses)
    ctx.count("observations_accepted", acc)
    ctx.count("observations_rejected", rej)
    ctx.count("cases_accepted_by_every_channel", all_acc)
    ctx.count("cases_rejected_by_every_channel", all_rej)
    ctx.count("cases_with_mixed_outcomes", mixed)
    ctx.count("rejections_surfacing_as_other_exception_(C03_subject)", escapes)
    ctx.count("two_settings_cases", n_multi)
    ctx.count("two_settings_cases_where_losing_either_setting_is_observable", both_effect)
    ctx.count("observations_of_mixed_spellings", mixed_obs)
    ctx.count("cases_with_lexical_variants", lex_cases)
    ctx.count("observations_of_lexical_variants", lex_obs)
    ctx.count("observations_of_lexical_variants_accepted", lex_acc)
    for b, st in mstat.items():
        ctx.count(f"block_{b}_cases", st["cases"])
        ctx.count(f"block_{b}_parses", st["parses"])
        ctx.count(f"block_{b}_observations_accepted", st["accepted"])
        ctx.count(f"block_{b}_observations_rejected", st["rejected"])
    for b in MORE_BLOCKS:
        ctx.sample(next(c for c in more if c["block"] == b and len(json.dumps(c)) > 120))
    ctx.cover(
        evaluations=n + n_more,
        states=n + n_more,
        transitions=parses + parses_more,
        traces_validated_against_impl=parses + parses_more,
        distinct_nontrivial=len(nontrivial),
        rule="one case = (parser shape, type hint, JSON value) with the value textually unambiguous at the type "
        "(rule U, see in_space); it is rendered through every channel under every parser_mode, each parse on a fresh "
        "parser. distinct_nontrivial = distinct cases in which at least one channel accepts the setting with a parsed "
        "value other than None, i.e. the setting has an observable effect that the other channels must reproduce. "
        "Two further blocks: (a) two settings in one branch (the key and its sibling), rendered in both orders on the "
        "command line, in the environment and through EVERY cut of the two key paths into dotted / nested segments in "
        "one mapping; (b) lexical variants: the same JSON value with its numbers in every exponent spelling of the "
        "stated variant grid and its strings as \\uXXXX escapes, in documents and as command line / environment text; "
        "(c) undefined keys: every name derived from the parser's own names (proper prefixes, extensions, case variants, "
        "names of another level, an unrelated name, a key below a leaf, non-mapping values at branch keys) at every branch, "
        "through the command line and every document / object cut; (d) parsers with a history: every sequence of <= L "
        "uses / documented re-configurations / registration as a sub-command before the parse, against a parser built "
        "directly in the final configuration; (e) env=True x defaults in {True, False} x entry point x every split of "
        "two settings between the environment and another carrier; (f) arguments declared with nargs in {1, 2, +, *, ?} x "
        "element declaration x every array over the element alphabet up to length 3, one word per item on the command line, "
        "JSON array / bare item in the environment, array in documents; (g) a parser with sub-commands, required or not, a "
        "sub-command pre-selected by set_defaults / default config file / environment or not, x every subset of the "
        "settings {top, subcommand, fit.x, test.y} through every channel that can say it.",
        exhaustive=True,
        caps_hit=[],
        bounds={
            "blocks": [{"shape": sh, "types": len(t), "modes": ms} for sh, t, ms in plan],
            "type_depth": 2,
            "modes": MODES,
            "values_nonstring": len(QUICK_NONSTRING if ctx.quick else NONSTRING_VALUES),
            "values_string": len(STRING_VALUES),
            "channels_per_case_and_mode": "5-24 by shape, value kind and channel rank (see samples, level_for)",
            "two_settings_blocks": [
                {"shape": sh, "types": len(t), "values_k": len(MULTI_VALUES if ctx.quick else MULTI_VALUES + MULTI_VALUES_MORE), "values_j": ws, "modes": ms,
                 "spellings_of_the_mapping": len(two_setting_docs(leaf_key(sh), 1, sibling_key(sh), 5))}
                for sh, t, ms, ws in plan_multi(ctx.quick)
            ],
            "lexical_blocks": [{"shape": sh, "types": len(t), "modes": ms} for sh, t, ms in plan_lex(ctx.quick)],
            "lexical_number_variants": len(float_variants(ctx.quick)),
            "undefined_key_block": {"shapes": c05_more.UNDEF_SHAPES_QUICK if ctx.quick else c05_more.UNDEF_SHAPES,
                                    "keys_per_shape": {sh: len(c05_more.undef_keys(sh)) for sh in c05_more.UNDEF_SHAPES},
                                    "values": c05_more.UNDEF_VALUES_QUICK + ([] if ctx.quick else c05_more.UNDEF_VALUES_MORE),
                                    "values_at_branch_keys": c05_more.BRANCH_VALUES, "allow_abbrev": False},
            "history_block": {"operations": c05_more.HIST_USES + c05_more.HIST_RECONF, "max_length": 2 if ctx.quick else 3,
                              "histories_of_length_2": len(c05_more.hist_histories(2))},
            "nargs_block": {"nargs": c05_shapes.NARGS, "elements": list(c05_shapes.NARGS_ELEMS),
                            "shapes": c05_shapes.NARGS_SHAPES[:2] if ctx.quick else c05_shapes.NARGS_SHAPES, "array_length": "0-3"},
            "subcommand_block": {"preselection": c05_shapes.SUB_PRE, "required": [True, False],
                                 "settings_subsets": len(c05_shapes.subcmd_settings())},
            "flags_block": {"shapes": c05_more.FLAG_SHAPES_QUICK if ctx.quick else c05_more.FLAG_SHAPES, "env": True,
                            "defaults": [True, False], "splits": ["none", "k", "j", "both"]},
        },
        spelling_classes=sorted(spelling_classes),
        lexical_variants_seen=sorted(lex_names),
        rejections_by_other_exception=dict(sorted(escape_types.items())),
        channels_accepting=sorted(chan_acc),
        channels_rejecting=sorted(chan_rej),
    )
    ctx.assume("a rejection that surfaces as another exception than ArgumentError counts as 'rejected' (C03 judges how)")
    ctx.assume("values containing an integral float literal or an integer beyond 2**53 are not run under jsonnet "
               "(its number model is IEEE double; jsonargparse cannot observe the literal)")
    # vacuity guards - phrased so that they do not depend on the property holding (a mutant must yield a VIOLATION,
    # not a harness error): they count what was executed and that both outcomes occur at all
    ctx.require(n >= 1000, "at least 1000 cases")
    ctx.require(some_acc >= 500 and some_rej >= 300, "cases with an accepting channel and cases with a rejecting channel occur")
    ctx.require(set(MODES) <= modes_seen, "all four parser modes executed")
    names = {c[0] for shape in {sh for sh, _, _ in plan} for c in channels(shape, 1, 2 if ctx.quick else 3)}
    ctx.require(all(chan_runs.get(x, 0) >= 100 for x in names), "every channel executed for at least 100 cases")
    missing = sorted(all_types - types_accepting)
    ctx.require(not missing, f"every (shape, type) has a setting that some channel accepts (missing: {missing[:5]})")
    ctx.require(len(nontrivial) >= 500, "at least 500 distinct settings with an observable effect")
    ctx.require(n_multi >= 100 and both_effect >= 50 and mixed_obs >= 2000,
                "two-settings block: >= 100 cases, >= 50 in which losing either setting is observable, >= 2000 mixed-spelling parses")
    ctx.require(len(spelling_classes) == 8, f"all eight structural classes of a two-key mapping occur ({sorted(spelling_classes)})")
    ctx.require(lex_cases >= 100 and lex_obs >= 2000 and lex_acc >= 500 and len(lex_names) >= 30,
                "lexical block: >= 100 cases, >= 2000 parses of a re-spelled text, >= 500 of them accepted, >= 30 distinct variants")
    ctx.assume("an environment variable that names no argument is ignored by design: undefined keys are judged on the "
               "command line and in documents / objects only; abbreviations are off (allow_abbrev=False) in that block")
    u, h, f = mstat["undef"], mstat["hist"], mstat["flags"]
    ctx.require(u["cases"] >= 300 and u["parses"] >= 3000 and u["rejected"] >= 3000,
                "undefined-key block: >= 300 cases, >= 3000 parses, >= 3000 rejections observed")
    ctx.require(h["cases"] >= 400 and h["accepted"] >= 3000 and len({json.dumps(c["history"]) for c in more if c["block"] == "hist"}) >= 150,
                "history block: >= 400 cases, >= 150 distinct histories, >= 3000 accepted observations")
    ctx.require(f["cases"] >= 150 and f["some_acc"] >= 60 and f["all_rej"] >= 20 and f["parses"] >= 3000,
                "flags block: >= 150 cases, >= 60 with an accepted and >= 20 with an everywhere rejected pair of settings")
    g, sc = mstat["nargs"], mstat["subcmd"]
    ctx.require(g["cases"] >= 400 and g["parses"] >= 4000 and g["accepted"] >= 1500 and g["rejected"] >= 500,
                "nargs block: >= 400 cases, >= 4000 parses, >= 1500 accepted and >= 500 rejected observations")
    ctx.require(sc["cases"] >= 200 and sc["parses"] >= 2500 and sc["accepted"] >= 1500 and sc["rejected"] >= 20,
                "sub-command block: >= 200 cases, >= 2500 parses, >= 1500 accepted and >= 20 rejected observations")
