"""C20 part A - restricted number types: every restriction set x every candidate x {direct call, argv, object}.

The oracle is an independent predicate over the *intended* meaning of each candidate: candidates are generated
from a number and a rendering (object, literal text with whitespace / sign / underscore / exponent ...), so
what a text denotes is known by construction and is not obtained by asking the implementation (or int()/float()).
Comparisons are evaluated in exact rational arithmetic (fractions), non-finite values symbolically.
"""
from __future__ import annotations

import itertools
import math
from fractions import Fraction

OPS = [">", ">=", "<", "<=", "==", "!="]
OPNAME = {">": "gt", ">=": "ge", "<": "lt", "<=": "le", "==": "eq", "!=": "ne"}
REFS = {"int": [-1, 0, 1, 2], "float": [-0.5, 0.0, 0.5, 1.0]}

# documented meaning of the predefined types (README / docstrings), written down independently of typing.py
PREDEF = {
    "PositiveInt": ("int", "and", [[">", 0]]),
    "NonNegativeInt": ("int", "and", [[">=", 0]]),
    "PositiveFloat": ("float", "and", [[">", 0.0]]),
    "NonNegativeFloat": ("float", "and", [[">=", 0.0]]),
    "ClosedUnitInterval": ("float", "and", [[">=", 0.0], ["<=", 1.0]]),
    "OpenUnitInterval": ("float", "and", [[">", 0.0], ["<", 1.0]]),
}


def _key(base, join, restr):
    return (base, join, frozenset((op, float(ref)) for op, ref in restr))


_PREDEF_BY_KEY = {_key(b, j, r): name for name, (b, j, r) in PREDEF.items()}


def predef_name(spec):
    return _PREDEF_BY_KEY.get(_key(spec["base"], spec["join"], spec["restr"]))


def type_specs(tier):
    """All restriction sets of 1..k comparisons (k = 2 quick, 3 thorough) x join x base, simplest first."""
    kmax = 2 if tier == "quick" else 3
    specs = []
    for k in range(1, kmax + 1):
        for base in ("int", "float"):
            atoms = [[op, ref] for op in OPS for ref in REFS[base]]
            for combo in itertools.combinations(atoms, k):
                for join in ("and", "or"):
                    specs.append({"base": base, "restr": [list(c) for c in combo], "join": join})
    return specs


def type_name(spec):
    def ref(r):
        return repr(r).replace("-", "m").replace(".", "p")

    return "C20_%s_%s_%s" % (
        spec["base"],
        spec["join"],
        "_".join(OPNAME[op] + ref(r) for op, r in spec["restr"]),
    )


def make_type(spec):
    """The real type for a spec: the predefined one when the restriction set is one of the six documented types."""
    import jsonargparse.typing as JT

    pre = predef_name(spec)
    if pre:
        return getattr(JT, pre)
    base = int if spec["base"] == "int" else float
    restr = [(op, base(r)) for op, r in spec["restr"]]
    return JT.restricted_number_type(type_name(spec), base, restr, join=spec["join"])


# ------------------------------------------------------------------------------------------------------
# candidates: ["i", digits] int object | ["f", repr] float object | ["b", bool] | ["o", name] other object
#             ["s", text, "int", digits] text that is an integer literal denoting that integer
#             ["s", text, "float", repr]  text that is a float (not an int) literal denoting that float
#             ["s", text, "junk"]         text that denotes no number


def _int_literals(n, full):
    s = str(n)
    sign, digits = ("-", s[1:]) if n < 0 else ("", s)
    out = [s, " " + s + " ", sign + "0_" + digits]
    if n >= 0:
        out.append("+" + s)
    if full:
        out += ["\t" + s + "\n", sign + "0" + digits, sign + "00" + digits, s + " ", "\n" + s]
    return out


def _float_literals_integral(n, full):
    s = str(n)
    out = [s + ".0", s + ".", s + "e0", " " + s + ".0 "]
    if full:
        out += [s + "E0", s + "0e-1", s + ".0e+0", s + ".00", "\t" + s + ".0\n"]
        if n >= 0:
            out.append("+" + s + ".0")
    return out


def _float_literals(f, full):
    r = repr(f)
    out = [r, " " + r + " ", "%de-1" % int(f * 10)]
    if abs(f) < 1:
        out.append(r.replace("0.", ".", 1))
    if full:
        sign, mag = ("-", r[1:]) if f < 0 else ("", r)
        out += [sign + "0_" + mag, r + "0", r + "e0", "%dE-1" % int(f * 10), "\t" + r + "\n"]
        if f > 0:
            out.append("+" + r)
    return out


JUNK = [
    "", " ", "junk", "1x", "x1", "0x1", "0b1", "0o1", "1:0", ".inf", ".nan", "true", "True", "null", "None", "~",
    "1,0", "1 0", "1e", "e1", "--1", "+-1", "1.0.0", "[1]", "{}", "1j", "1_", "_1", "1__0", "1e1.5", "infinit",
    "0x1p0", "1/2", "½", "- 1", "1 .0", "on", "yes", "{1}", "x: 1",
]  # fmt: skip


JUNK_QUICK = ["", " ", "junk", "1x", "0x1", "1:0", ".inf", "true", "null", "1,0", "1 0", "1e", "--1", "1.0.0", "[1]",
              "{}", "1_", "1e1.5", "1/2", "- 1", "x: 1"]  # fmt: skip


def candidates(base, tier):
    full = tier != "quick"
    refs = REFS[base]
    nums = set()
    for r in refs:
        for d in (0, 1, -1, Fraction(1, 2), Fraction(-1, 2)):
            nums.add(Fraction(r) + d)
    ulps = set()
    for r in refs:
        ulps.add(math.nextafter(float(r), math.inf))
        ulps.add(math.nextafter(float(r), -math.inf))
    out = []
    for q in sorted(nums):
        f = float(q)
        if q.denominator == 1:
            n = int(q)
            out.append(["i", str(n)])
            out.append(["f", repr(f)])
            out += [["s", t, "int", str(n)] for t in _int_literals(n, full)]
            out += [["s", t, "float", repr(f)] for t in _float_literals_integral(n, full)]
        else:
            out.append(["f", repr(f)])
            out += [["s", t, "float", repr(f)] for t in _float_literals(f, full)]
    for u in sorted(ulps):
        out.append(["f", repr(u)])
        out.append(["s", repr(u), "float", repr(u)])
        if full:
            out.append(["s", " " + repr(u) + "\n", "float", repr(u)])
    out.append(["f", "-0.0"])
    out.append(["s", "-0.0", "float", "-0.0"])
    out.append(["s", "-0", "int", "0"])
    for name in ("nan", "inf", "-inf"):
        out.append(["f", name])
    out += [
        ["s", "nan", "float", "nan"], ["s", "NaN", "float", "nan"], ["s", "inf", "float", "inf"],
        ["s", "-inf", "float", "-inf"], ["s", "Infinity", "float", "inf"], ["s", "+inf", "float", "inf"],
        ["s", " nan ", "float", "nan"], ["s", "1e400", "float", "inf"], ["s", "-1e400", "float", "-inf"],
        ["s", "1e-400", "float", "0.0"],
    ]  # fmt: skip
    if full:
        out += [["s", "１", "int", "1"], ["s", "-Infinity", "float", "-inf"], ["s", "-nan", "float", "nan"]]
    out += [["b", True], ["b", False]]
    out += [["s", t, "junk"] for t in (JUNK if full else JUNK_QUICK)]
    out += [["o", "list1"], ["o", "list0"], ["o", "dict0"], ["o", "dict1"], ["o", "none"]]
    out.append(["i", "1" + "0" * 400])  # an int too large for float
    out.append(["i", "-1" + "0" * 400])
    seen, uniq = set(), []
    for c in out:
        k = repr(c)
        if k not in seen:
            seen.add(k)
            uniq.append(c)
    return uniq


def cand_object(c):
    k = c[0]
    if k == "i":
        return int(c[1])
    if k == "f":
        return float(c[1])
    if k == "b":
        return bool(c[1])
    if k == "s":
        return c[1]
    return {"list1": [1], "list0": [], "dict0": {}, "dict1": {"a": 1}, "none": None}[c[1]]


def cand_class(c):
    k = c[0]
    if k == "i":
        return "int-huge" if len(c[1]) > 100 else "int"
    if k == "f":
        f = float(c[1])
        if math.isnan(f) or math.isinf(f):
            return "float-nonfinite"
        return "float-integral" if f.is_integer() else "float-fraction"
    if k == "b":
        return "bool"
    if k == "s":
        return {"int": "str-intlit", "float": "str-floatlit", "junk": "str-junk"}[c[2]]
    return "object"


# ------------------------------------------------------------------------------------------------------
# the independent predicate


def _exact(x):
    if isinstance(x, float):
        if math.isnan(x):
            return "nan"
        if math.isinf(x):
            return "inf" if x > 0 else "-inf"
    return Fraction(x)


def _cmp(op, a, r):
    if a == "nan":
        return op == "!="
    if isinstance(a, str):
        gt, lt, eq = a == "inf", a == "-inf", False
    else:
        gt, lt, eq = a > r, a < r, a == r
    return {">": gt, ">=": gt or eq, "<": lt, "<=": lt or eq, "==": eq, "!=": not eq}[op]


def converted(base, c):
    """The candidate as base type, by its intended meaning; None when it does not convert."""
    k = c[0]
    if k in ("b", "o"):
        return None
    if k == "s" and c[2] == "junk":
        return None
    if base == "int":
        if k == "i":
            return int(c[1])
        if k == "f":
            f = float(c[1])
            if math.isnan(f) or math.isinf(f) or Fraction(f).denominator != 1:
                return None
            return int(Fraction(f))
        if c[2] == "int":
            return int(c[3])
        return None  # float literal text is not an integer literal
    if k == "i":
        n = int(c[1])
        if abs(n) >= 2**1024:
            return None  # no float of that magnitude
        return float(n)
    if k == "f":
        return float(c[1])
    if c[2] == "int":
        return float(int(c[3]))
    return float(c[3])


def expect(spec, c):
    """-> ("accept", value as base type) | ("reject", "not-convertible" | "restriction-false")"""
    v = converted(spec["base"], c)
    if v is None:
        return ("reject", "not-convertible")
    a = _exact(v)
    checks = [_cmp(op, a, Fraction(r)) for op, r in spec["restr"]]
    ok = all(checks) if spec["join"] == "and" else any(checks)
    return ("accept", v) if ok else ("reject", "restriction-false")


def plain_of(base, c):
    """The plainest candidate with the same converted value (an object of the base type), or None."""
    v = converted(base, c)
    if v is None:
        return None
    if base == "int":
        return ["i", str(v)]
    return ["f", "nan" if math.isnan(v) else repr(v)]


def feq(a, b):
    if isinstance(a, float) and isinstance(b, float) and math.isnan(a) and math.isnan(b):
        return True
    return a == b


# ------------------------------------------------------------------------------------------------------
# execution on the real code


def build_parser(T, J, mode="yaml"):
    p = J.ArgumentParser(exit_on_error=False, parser_mode=mode)
    p.add_argument("--x", type=T)
    return p


def call_direct(T, obj):
    try:
        return ("ok", T(obj))
    except Exception as ex:  # any exception of a direct cast is a rejection
        return ("reject", type(ex).__name__)


def call_parser(fn, arg):
    from mc.util import outcome

    o = outcome(fn, arg)
    if o["kind"] == "ok":
        return ("ok", o["value"].x)
    if o["kind"] == "ArgumentError":
        return ("reject", "ArgumentError")
    if o["kind"] == "escape":
        return ("escape", o["type"].rsplit(".", 1)[-1])
    return ("escape", o["kind"])


def judge(exp, got, pybase):
    """verdict string or None when the observation agrees with the oracle"""
    if got[0] == "escape":
        return "escape-" + got[1]
    if exp[0] == "accept":
        if got[0] == "reject":
            return "rejected"
        val = got[1]
        if isinstance(val, bool) or not isinstance(val, pybase) or not feq(pybase(val), exp[1]):
            return "wrong-value"
        return None
    return "accepted" if got[0] == "ok" else None


def observe(T, parser, spec, c):
    """All channels for one candidate -> {channel: (verdict or None, got)} plus the idempotence verdicts."""
    import copy

    pybase = int if spec["base"] == "int" else float
    exp = expect(spec, c)
    out = {}
    ops = 0
    got = call_direct(T, cand_object(c))
    ops += 1
    v = judge(exp, got, pybase)
    if v is None and got[0] == "ok":
        again = call_direct(T, got[1])
        plain = call_direct(T, pybase(got[1]))
        ops += 2
        for g in (again, plain):
            if g[0] != "ok" or type(g[1]) is not type(got[1]) or not feq(g[1], got[1]):
                v = "not-idempotent"
    out["direct"] = (v, got)
    if c[0] == "s":
        got = call_parser(parser.parse_args, ["--x=" + c[1]])
        ops += 1
        out["argv"] = (judge(exp, got, pybase), got)
    if c != ["o", "none"]:
        got = call_parser(parser.parse_object, {"x": copy.deepcopy(cand_object(c))})
        ops += 1
        v = judge(exp, got, pybase)
        if v is None and got[0] == "ok":
            again = call_parser(parser.parse_object, {"x": got[1]})
            ops += 1
            if again[0] != "ok" or type(again[1]) is not type(got[1]) or not feq(again[1], got[1]):
                v = "not-idempotent"
        out["object"] = (v, got)
    return exp, out, ops


def signatures(T, parser, spec, c, obs=None):
    """Deviation list [(signature, detail)] for one (type, candidate); `obs` = result of observe() if available."""
    exp, out, ops = obs or observe(T, parser, spec, c)
    if not any(v for v, _ in out.values()):
        return [], ops, exp, out
    base = spec["base"]
    # cause: the restriction logic (the plain base-typed object with the same value deviates the same way)
    # or the conversion of this class of candidate
    plain = plain_of(base, c)
    plain_out = None
    if plain is not None and plain != c:
        _, plain_out, n = observe(T, parser, spec, plain)
        ops += n
    devs = []
    direct_v = out["direct"][0]
    for ch, (v, got) in out.items():
        if v is None:
            continue
        if ch != "direct" and v == direct_v:
            continue  # same failure as the direct call: one root cause, reported once
        is_plain = plain is None or plain == c
        same_as_plain = plain_out is not None and plain_out.get(ch, plain_out["direct"])[0] == v
        if (plain is not None and is_plain) or same_as_plain:
            cause = "restriction:%dcmp:%s" % (len(spec["restr"]), spec["join"])
        else:
            cause = "conversion:%s:%s" % (base, cand_class(c))
        detail = "%s %s(%r): oracle %s, observed %s" % (
            ch, type_name(spec), cand_object(c) if c[0] != "i" or len(c[1]) < 40 else "10**400", exp, _short(got))
        devs.append(("num:%s:%s:%s" % (ch, v, cause), detail))
    return devs, ops, exp, out


def _short(got):
    r = repr(got)
    return r if len(r) < 200 else r[:200] + "..."


def run_type(arg):
    """Worker: one restriction set against the whole candidate grid."""
    import jsonargparse as J

    spec, tier = arg
    res = {"devs": [], "evals": 0, "ops": 0, "accepted": 0, "rej_restr": 0, "rej_conv": 0, "nontrivial": 0,
           "inputs": 0, "predef": predef_name(spec), "branches": set()}
    try:
        T = make_type(spec)
        parser = build_parser(T, J)
    except Exception as ex:
        res["devs"].append(("num:create-raises:" + type(ex).__name__, {"part": "num", "spec": spec, "cand": None}, repr(ex)))
        return res
    for c in candidates(spec["base"], tier):
        obs = observe(T, parser, spec, c)
        exp, out, ops = obs
        res["inputs"] += 1
        res["evals"] += len(out)
        res["ops"] += ops
        if exp[0] == "accept":
            res["accepted"] += len(out)
            res["nontrivial"] += len(out)
        elif exp[1] == "restriction-false":
            res["rej_restr"] += len(out)
            res["nontrivial"] += len(out)
        else:
            res["rej_conv"] += len(out)
        res["branches"].add((exp[0], cand_class(c)))
        if any(v for v, _ in out.values()):
            devs, n, _, _ = signatures(T, parser, spec, c, obs)
            res["ops"] += n - ops
            for sig, detail in devs:
                res["devs"].append((sig, {"part": "num", "spec": spec, "cand": c}, detail))
    return res


def run_case(case):
    import jsonargparse as J

    spec, c = case["spec"], case["cand"]
    try:
        T = make_type(spec)
        parser = build_parser(T, J)
    except Exception as ex:
        return [{"signature": "num:create-raises:" + type(ex).__name__, "detail": repr(ex)}]
    if c is None:
        return []
    devs, _, _, _ = signatures(T, parser, spec, c)
    return [{"signature": s, "detail": d} for s, d in devs]
