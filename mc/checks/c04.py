"""C04 - sources override each other in the documented order, left to right.

Bounded exhaustive enumeration of *source histories* executed on the real parser and compared, key by key, with a
left fold over the ordered source list (the reference model, `fold()` below):

    code defaults -> existing default config files in listed order (sorted inside one glob pattern)
                  -> config in the environment -> individual environment variables
                  -> command line items left to right (a --cfg file / string acts at its position)
                  (-> the explicit config given to parse_string / parse_object / parse_path)

with three update rules: plain assignment replaces (also whole lists and dicts), `key+` appends to the list built
so far, `key.item` sets one item of the dict built so far; a group value (`n: {x: ..}`) merges leaf-wise.

Every value encodes the source that wrote it, so the winner of every key is identifiable.  In addition every source
class also occurs with EMPTY content - the empty value of every key type ("" / 0 / [] / {}), the document {}, default
config files of 0 bytes / whitespace only, environment variables that are present with an empty value - because
"given but empty" must override like any other value and an empty file must not stop the files after it.  One and
the same config FILE also occurs more than once in one history (twice on the command line with other items in between,
the file of the env config / a default config file given again on the command line or to parse_path, the env config
naming a default config file, a default config file listed twice): every application is one more source at its
position.  And the prefix of the environment variables is derived from names of several shapes (explicit prefix with a
dash / in mixed case, prog with a dash and an extension, no prefix; subcommand name with a dash).  Every kind of key also
occurs nested in a group (shape nest: --g.l+, {g: {"l+": ..}}, APP_G__L).  And the judged call may be made on a USED
parser: one earlier call on the same parser object in a world that differs in nothing / the env prefix / default_env /
the listed default config files / the content of files and environment, the settings then changed through the public
properties - the result is a function of the sources at the time of the call.  Every case builds a
fresh parser, fresh files in a fresh scratch directory and a private environment.  Because the command line
sequences of every length up to the bound are enumerated, every prefix of every sequence is a case of its own and
the comparison therefore holds at every intermediate state of the fold.
"""
from __future__ import annotations

import copy
import dataclasses
import itertools
import json
import os

META = {
    "id": "C04",
    "level": "model_checking",
    "engine": "bounded exhaustive enumeration of source histories on the real parser (mc/checks/c04.py)",
    "technique": "exhaustive enumeration of source subsets x command line item sequences x default_env modes x parse "
    "methods, each executed on the real ArgumentParser and compared key by key with a left-fold reference model",
    "level_text": "The reference model is the ten-line left fold over the ordered source list (replace / key+ append / "
    "key.item dict item / leaf-wise group merge / config applied at its position). Every member of the stated finite "
    "space of histories (which default config files exist and what they carry, env config, env variables, every "
    "command line item sequence up to the length bound, env mode, parser shape incl. a subcommand, parse method) is one "
    "trace executed on the unmodified implementation in a fresh parser and compared with the fold on every key; the "
    "space is prefix closed, so the agreement holds at every intermediate state. Nothing is sampled.",
    "level_note": "Trusted: the fold in this file, the rendering of one abstract source into files / environment / argv, "
    "value encoding (every source writes values that name it). Bounded: command line length, four payload kinds per "
    "config source plus the empty kinds (empty values, {}, empty default config files), six shapes of the environment "
    "prefix (five of them on a reduced set of bases), the same file applied up to four times, at most one earlier call on a used parser, one group level (shape nest), seven keys (flat int, flat "
    "str, two leaves of one group, List[int], int list with nargs='+', Dict[str,int]); deeper command lines "
    "are explored on a reduced set of non-CLI configurations (stated in the evidence).",
    "design_ref": "DESIGN.md §5 C04",
}

# ------------------------------------------------------------------------------------------------
# the key universe, the values, the payload kinds

KEYS = ["a", "n.x", "n.y", "l", "d", "t", "m"]
# t is a str-typed flat key: the only kind of key for which the empty string is a valid value.  Its values name the
# writer like the integers do ("v11" = written by D1, "v6" = code default).  m is the other kind of list-typed key:
# an argparse list (type=int, nargs="+"), which has no "m+" form and goes through a code path of its own when it comes
# from an environment variable
CODE_DEFAULTS = {"a": 1, "n.x": 2, "n.y": 3, "l": [4], "d": {"p": 5}, "t": "v6", "m": [7]}
UNSET_DEFAULTS = {"a": 1, "n.x": 2, "n.y": 3, "l": None, "d": None, "t": "v6", "m": [7]}  # shape flat0: list / dict not built yet

# value written by each non-CLI source (the tens digit names the source)
VAL = {"D1": 11, "Ga": 21, "Gb": 22, "D3": 31, "envcfg": 41, "envvar": 51, "given": 56, "same": 58}
# default config files: listed order is D1, glob(G*), <never existing>, D3; the file names are chosen so that the
# listed order differs from the lexicographic order of the paths (z1 > m_a > a3) and the files of the glob are
# created in reverse order
DCF_SLOTS = ["D1", "Ga", "Gb", "D3"]
DCF_FILE = {"D1": "z1.yaml", "Ga": "m_a.yaml", "Gb": "m_b.yaml", "D3": "a3.yaml"}
DCF_LISTED = [("D1", "z1.yaml"), ("G", "m_*.yaml"), ("X", "k_missing.yaml"), ("D3", "a3.yaml")]


def cli_value(pos):
    return 61 + 10 * pos  # 61, 71, 81, 91, 101 ...


# Shapes of the names from which the prefix of the environment variables is derived.  Documented rule
# (DOCUMENTATION.rst "Environment variables" and the ENV: lines of the help): [PREFIX_][LEV__]*OPT, all in upper case,
# PREFIX = env_prefix, or the prog without extension when env_prefix is left at its default, or nothing for
# env_prefix=False; dots of the key become two underscores, a dash becomes an underscore.
NAMING = {
    "APP": {"env_prefix": "APP"},  # what every other block uses
    "dash": {"env_prefix": "my-tool"},  # explicit prefix with a dash, lower case
    "prog-dash-ext": {"prog": "my-tool.py"},  # prefix derived from a prog with a dash and an extension
    "prog": {"prog": "tool"},  # prefix derived from a plain prog
    "mixed-case": {"env_prefix": "MyTool"},
    "none": {"env_prefix": False},  # no prefix at all: the variables are CFG, A, N__X, ...
}


# the name of the subcommand is part of the names of its variables (APP_S__A): with the two dash namings the subcommand
# of the subcommand shape has a dash in its name as well
SUBNAME = {"dash": "s-x", "prog-dash-ext": "s-x"}


def subname(case):
    return SUBNAME.get((case or {}).get("naming") or "APP", "s")


GROUP = "g"  # shape nest: every key lives one level deeper, inside the group g (options --g.a, --g.n.x, --g.l, ...)


def keypath(case):
    """Prefix of the keys of the case's shape as seen from the root parser: "s." / "g." / ""."""
    shape = (case or {}).get("shape")
    if shape == "sub":
        return subname(case) + "."
    return GROUP + "." if shape == "nest" else ""


def env_name(case, key):
    """Name of the environment variable of `key` ("cfg", "a", "n.x", "subcommand", "s.a") by the documented rule."""
    kw = NAMING[case.get("naming") or "APP"]
    pref = kw.get("env_prefix", True)
    if pref is True:
        pref = os.path.splitext(kw["prog"])[0]
    name = (pref + "_" if pref else "") + key.replace(".", "__")
    return name.replace("-", "_").upper()


def payload(kind, v):
    """JSON document of one config source of the given kind carrying the value v."""
    if kind == "R":  # replaces everything it mentions (the dict as a whole; the group leaf-wise)
        return {"a": v, "n": {"x": v}, "l": [v], "d": {"k": v, f"s{v}": v}, "t": f"v{v}", "m": [v]}
    if kind == "A":  # appends a list to the list built so far, sets the other leaf of the group
        return {"l+": [v], "n": {"y": v}}
    if kind == "A1":  # appends a single element, replaces the flat key
        return {"l+": v, "a": v}
    if kind == "N":  # whole group and a dict only
        return {"n": {"x": v, "y": v}, "d": {f"s{v}": v}}
    if kind == "Z":  # plain assignments of the EMPTY value of every key type (all falsy in Python)
        return {"a": 0, "n": {"x": 0}, "l": [], "d": {}, "t": "", "m": []}
    if kind in ("E", "E0", "EW"):  # a document that assigns nothing: "{}" / a file of 0 bytes / a whitespace-only file
        return {}
    raise AssertionError(kind)


# content of a default config file that exists but is empty (explicitly given configs must not be empty: the library
# rejects them as "Unexpected config", which is input validation and not this property)
RAW_CONTENT = {"E0": "", "EW": " \n\n"}


def assignments_of_config(doc):
    """Model reading of a config document: an ordered list of (key, op, value)."""
    out = []
    for key, val in doc.items():
        if key == "l+":
            out.append(("l", "append", val))
        elif key == "n":
            for sub, v in val.items():  # a group merges leaf-wise
                out.append(("n." + sub, "set", v))
        else:
            out.append((key, "set", val))
    return out


# ------------------------------------------------------------------------------------------------
# the reference model: a left fold


def fold(initial, sources):
    """sources: ordered list of (source_name, [(key, op, value), ...])."""
    state = copy.deepcopy(initial)
    for _name, assignments in sources:
        for key, op, val in assignments:
            if op == "set":
                state[key] = copy.deepcopy(val)
            elif op == "append":
                state[key] = list(state[key] or []) + (list(val) if isinstance(val, list) else [val])
            elif op == "item":
                state[key] = {**(state[key] or {}), val[0]: val[1]}
            else:
                raise AssertionError(op)
    return state


# ------------------------------------------------------------------------------------------------
# command line alphabet.  An item is a short name; its rendering depends on its position (value) only.

CLI_ITEMS = ["a", "n.x", "n.y", "l", "l+", "l+2", "d", "d.k", "cfgfile:R", "cfgfile:A", "cfgstr:R", "cfgstr:A"]
CLI_EXTRA = ["cfgfile:A1", "cfgstr:N", "d.p", "n", "nfile"]  # used in the secondary blocks (n, nfile: shape dc)
# items that assign the empty value of a key type / give a document that assigns empty values or nothing at all
# (t: the str key with a non-empty value; m, m2: the nargs list with one / two values), used in the "empty-values" blocks
CLI_EMPTY = ["m", "m2", "t", "t0", "a0", "l0", "d0", "cfgstr:Z", "cfgfile:Z", "cfgstr:E", "cfgfile:E"]
ROOT_ITEMS = ["rootcfgfile:R", "rootcfgfile:A", "rootcfgstr:R", "rootcfgstr:A"]  # subcommand shape, before the subcommand
# THE SAME FILE applied more than once in one history.  samefile:<kind> is a config file whose name and content do
# not depend on the position (every occurrence in one command line is the same path); again:env / again:D1 give, on
# the command line, the very file that APP_CFG names / the first default config file (only in bases that have it).
# (root...: the same for the root parser of the subcommand shape, before the subcommand token)
CLI_SAME = ["samefile:R", "samefile:A", "again:env", "again:D1"]
ROOT_SAME = ["rootsamefile:R", "rootsamefile:A", "rootagain:env", "rootagain:D1"]


def same_source(base, which):
    """(file name, document) of a non-CLI config file of the base that is given again by another source."""
    if which == "env":
        envcfg = base.get("envcfg")
        assert envcfg and envcfg[1] == "file", "again:env needs an env config given as a file"
        if envcfg[0].startswith("="):
            return same_source(base, envcfg[0][1:])
        return "envcfg.yaml", payload(envcfg[0], VAL["envcfg"])
    kind = (base.get("dcf") or {}).get(which)
    assert kind and kind not in RAW_CONTENT, f"again:{which} needs that default config file"
    return DCF_FILE[which], payload(kind, VAL[which])


def applicable(base, item):
    """Can the command line item be used on this base (again:* need the file they repeat)?"""
    if "again:" not in item:
        return True
    which = item.split(":")[1]
    if which == "env":
        return bool(base.get("envcfg")) and base["envcfg"][1] == "file"
    return (base.get("dcf") or {}).get(which) in ("R", "A", "A1", "N", "Z")


def cli_item(name, pos, shape, d, base=None):
    """-> (argv token or list of tokens, [(key, op, value)...], files to write {name: json})."""
    v = cli_value(pos)
    files = {}
    g = GROUP + "." if shape == "nest" else ""  # the options are --g.a, --g.l+ ...; config documents are {g: {...}}

    def wr(doc):
        return {GROUP: doc} if shape == "nest" else doc

    if name.startswith(("samefile:", "rootsamefile:")):  # one file per kind, whatever the position
        pk = name.split(":")[1]
        doc = payload(pk, VAL["same"])
        fn = f"{name.split(':')[0]}_{pk}.yaml"
        files[fn] = {subname(base): doc} if name.startswith("root") else wr(doc)
        return "--cfg=" + os.path.join(d, fn), assignments_of_config(doc), files
    if name.startswith(("again:", "rootagain:")):  # the file exists already (written for the non-CLI source)
        fn, doc = same_source(base, name.split(":")[1])
        return "--cfg=" + os.path.join(d, fn), assignments_of_config(doc), files
    if name == "a":
        return f"--{g}a={v}", [("a", "set", v)], files
    if name == "t":
        return f"--{g}t=v{v}", [("t", "set", f"v{v}")], files
    if name == "t0":
        return f"--{g}t=", [("t", "set", "")], files
    if name == "m":
        return f"--{g}m={v}", [("m", "set", [v])], files
    if name == "m2":  # several argv tokens
        return [f"--{g}m", str(v), str(v + 1)], [("m", "set", [v, v + 1])], files
    if name == "a0":
        return f"--{g}a=0", [("a", "set", 0)], files
    if name == "l0":
        return f"--{g}l=[]", [("l", "set", [])], files
    if name == "d0":
        return f"--{g}d={{}}", [("d", "set", {})], files
    if name in ("n.x", "n.y"):
        return f"--{g}{name}={v}", [(name, "set", v)], files
    if name == "l":
        return f"--{g}l=[{v}]", [("l", "set", [v])], files
    if name == "l+":
        return f"--{g}l+={v}", [("l", "append", v)], files
    if name == "l+2":
        return f"--{g}l+=[{v}, {v + 1}]", [("l", "append", [v, v + 1])], files
    if name == "d":
        doc = {"k": v, f"c{v}": v}
        return f"--{g}d=" + json.dumps(doc), [("d", "set", doc)], files
    if name in ("d.k", "d.p"):
        return f"--{g}{name}={v}", [("d", "item", (name[2:], v))], files
    if name == "n":  # whole group given as a string on the command line (needs a group-typed key: shape dc)
        doc = {"x": v}
        return "--n=" + json.dumps(doc), [("n.x", "set", v)], files
    if name == "nfile":
        doc = {"y": v}
        fn = f"n_{pos}.yaml"
        files[fn] = doc
        return "--n=" + os.path.join(d, fn), [("n.y", "set", v)], files
    kind_of, _, pk = name.partition(":")
    doc = payload(pk, v)
    if kind_of in ("cfgfile", "rootcfgfile"):
        fn = f"{kind_of}_{pk}_{pos}.yaml"
        wrapped = {subname(base): doc} if kind_of == "rootcfgfile" else wr(doc)
        files[fn] = wrapped
        return "--cfg=" + os.path.join(d, fn), assignments_of_config(doc), files
    if kind_of in ("cfgstr", "rootcfgstr"):
        wrapped = {subname(base): doc} if kind_of == "rootcfgstr" else wr(doc)
        return "--cfg=" + json.dumps(wrapped), assignments_of_config(doc), files
    raise AssertionError(name)


# ------------------------------------------------------------------------------------------------
# parser shapes (built fresh for every case)


@dataclasses.dataclass
class NGroup:
    x: int = 2
    y: int = 3


def add_keys(parser, shape, J):
    from typing import Dict, List, Optional

    g = GROUP + "." if shape == "nest" else ""  # shape nest: the same keys, all inside the group g
    parser.add_argument("--cfg", action=J.ActionConfigFile)
    parser.add_argument(f"--{g}a", type=int, default=1)
    parser.add_argument(f"--{g}t", type=str, default="v6")
    parser.add_argument(f"--{g}m", type=int, nargs="+", default=[7])
    if shape == "dc":
        parser.add_argument("--n", type=NGroup, default=NGroup())
    else:
        parser.add_argument(f"--{g}n.x", type=int, default=2)
        parser.add_argument(f"--{g}n.y", type=int, default=3)
    if shape == "flat0":
        parser.add_argument("--l", type=Optional[List[int]], default=None)
        parser.add_argument("--d", type=Optional[Dict[str, int]], default=None)
    else:
        parser.add_argument(f"--{g}l", type=List[int], default=[4])
        parser.add_argument(f"--{g}d", type=Dict[str, int], default={"p": 5})


def listed_files(case, d):
    """The default_config_files setting of the case (None = the setting is not given at all)."""
    listed = case.get("listed", "all")
    dcf = case.get("dcf") or {}
    if listed in ("all", "again"):
        files = [os.path.join(d, fn) for _slot, fn in DCF_LISTED]
        if listed == "again":  # the first file is listed a second time, after all the others
            files.append(os.path.join(d, DCF_FILE["D1"]))
        return files
    if listed == "existing":  # only the patterns that match something
        files = []
        for slot, fn in DCF_LISTED:
            if (slot == "G" and (dcf.get("Ga") or dcf.get("Gb"))) or dcf.get(slot):
                files.append(os.path.join(d, fn))
        return files or None
    if listed == "none":  # the files may exist, but the parser is not told about them
        return None
    raise AssertionError(listed)


def ctor_env(case):
    return case.get("mode", "on") in ("on", "envoff", "argoff")


def build_parser(case, d, J, target=None):
    """target: the case whose settings the parser will be given later through its public properties (a parser that is
    built for one world, used, and then retargeted); a prefix derived from prog needs the prog from the start."""
    shape = case["shape"]
    files = listed_files(case, d)
    naming = dict(NAMING[case.get("naming") or "APP"])
    if target is not None and "prog" in NAMING[target.get("naming") or "APP"]:
        assert "prog" not in naming or naming == NAMING[target.get("naming")], "prog is not a settable property"
        naming["prog"] = NAMING[target["naming"]]["prog"]
    kw = dict(exit_on_error=False, default_env=ctor_env(case), **naming)
    if files is not None:
        kw["default_config_files"] = files
    root = J.ArgumentParser(**kw)
    if shape != "sub":
        add_keys(root, shape, J)
        return root
    root.add_argument("--cfg", action=J.ActionConfigFile)
    root.add_argument("--t", type=int, default=0)
    sub = J.ArgumentParser(exit_on_error=False)
    add_keys(sub, "flat", J)
    other = J.ArgumentParser(exit_on_error=False)
    other.add_argument("--o", type=int, default=0)
    sc = root.add_subcommands()
    sc.add_subcommand(subname(case), sub)
    sc.add_subcommand("o", other)
    return root


# ------------------------------------------------------------------------------------------------
# one batch = one non-CLI configuration (files, environment, shape, mode, method) x several command lines


def wrap(case, doc):
    if case["shape"] == "nest":
        return {GROUP: doc}
    return {subname(case): doc} if case["shape"] == "sub" else doc


def env_enabled(case):
    method = case.get("method", "parse_args")
    if method in ("parse_env", "parse_env_dict"):
        return True
    if method == "get_defaults":
        return False
    return case.get("mode", "on") in ("on", "envon", "argon")


def noncli_sources(case):
    """Ordered model sources before the command line, and what has to be put on disk / in the environment."""
    sources, files, environ = [], {}, {}
    dcf = case.get("dcf") or {}
    for slot in DCF_SLOTS:  # = listed order, the glob's two files in sorted order
        kind = dcf.get(slot)
        if kind:
            doc = payload(kind, VAL[slot])
            # a str instead of a document = the raw content of the file (an existing but empty file)
            files[DCF_FILE[slot]] = RAW_CONTENT[kind] if kind in RAW_CONTENT else wrap(case, doc)
            if case.get("listed") != "none":
                sources.append(("default_config:" + slot, assignments_of_config(doc)))
    if case.get("listed") == "again" and dcf.get("D1"):  # listed twice = applied twice, the second time after D3
        sources.append(("default_config:D1", assignments_of_config(payload(dcf["D1"], VAL["D1"]))))
    on = env_enabled(case)
    envcfg = case.get("envcfg")
    if envcfg:
        kind, form = envcfg
        if kind.startswith("="):  # the variable names a file that is a default config file as well
            fn, doc = same_source(case, "env")
            environ[env_name(case, "cfg")] = "@FILE@" + fn
        else:
            doc = payload(kind, VAL["envcfg"])
            if form == "file":
                files["envcfg.yaml"] = wrap(case, doc)
                environ[env_name(case, "cfg")] = "@FILE@envcfg.yaml"
            else:
                environ[env_name(case, "cfg")] = json.dumps(wrap(case, doc))
        if on:
            sources.append(("env_config", assignments_of_config(doc)))
    v = VAL["envvar"]
    ev = []

    def var(key):  # name of the variable of a key of the (sub)parser
        return env_name(case, keypath(case) + key)

    for key in case.get("envvars") or []:
        if key == "a":
            environ[var("a")] = str(v)
            ev.append(("a", "set", v))
        elif key in ("n.x", "n.y"):
            environ[var(key)] = str(v)
            ev.append((key, "set", v))
        elif key == "l":
            environ[var("l")] = f"[{v}]"
            ev.append(("l", "set", [v]))
        elif key == "d":
            doc = {"k": v, f"e{v}": v}
            environ[var("d")] = json.dumps(doc)
            ev.append(("d", "set", doc))
        elif key == "t":
            environ[var("t")] = f"v{v}"
            ev.append(("t", "set", f"v{v}"))
        # variables that carry the empty value of the key's type (the variable is present, its value is "" / 0 / [] / {})
        elif key == "t0":
            environ[var("t")] = ""
            ev.append(("t", "set", ""))
        elif key == "m":
            environ[var("m")] = f"[{v}]"
            ev.append(("m", "set", [v]))
        elif key == "m0":
            environ[var("m")] = "[]"
            ev.append(("m", "set", []))
        elif key == "a0":
            environ[var("a")] = "0"
            ev.append(("a", "set", 0))
        elif key == "n.x0":
            environ[var("n.x")] = "0"
            ev.append(("n.x", "set", 0))
        elif key == "l0":
            environ[var("l")] = "[]"
            ev.append(("l", "set", []))
        elif key == "d0":
            environ[var("d")] = "{}"
            ev.append(("d", "set", {}))
        else:
            raise AssertionError(key)
    if ev and on:
        sources.append(("env_var", ev))
    if case.get("env_subcommand"):
        environ[env_name(case, "subcommand")] = subname(case)
    mode = case.get("mode", "on")
    if mode == "envon":
        environ["JSONARGPARSE_DEFAULT_ENV"] = "true"
    elif mode == "envoff":
        environ["JSONARGPARSE_DEFAULT_ENV"] = "false"
    return sources, files, environ


ABSENT = "<absent>"


def extract(case, cfg):
    """Read the keys out of the parsed namespace: plain values, typed canonical forms, unexpected keys."""
    from mc.util import tcanon

    ns = cfg
    if case["shape"] in ("sub", "nest"):
        ns = cfg.get(subname(case) if case["shape"] == "sub" else GROUP)
        if ns is None or not hasattr(ns, "keys"):
            return None, None, ["<no subcommand namespace>"]
    plain = {}
    for key in KEYS:
        v = ns[key] if key in ns else ABSENT
        if dataclasses.is_dataclass(v):
            v = ABSENT
        plain[key] = copy.deepcopy(v)
    allowed = set(KEYS) | {"cfg", "__default_config__", "n"}
    extra = [k for k in ns.keys() if k not in allowed and not any(seg.startswith("__") for seg in k.split("."))]
    return plain, {k: tcanon(v) for k, v in plain.items()}, extra


def install_world(b, d):
    """Put the non-CLI sources of b in place: files in d, variables in os.environ.  -> (model sources, variables set)"""
    pre_sources, files, environ = noncli_sources(b)
    for fn in sorted(files, reverse=True):  # the files of the glob are created in reverse name order
        with open(os.path.join(d, fn), "w") as f:
            if isinstance(files[fn], str):
                f.write(files[fn])
            else:
                json.dump(files[fn], f)
    for key in ["cfg", "subcommand", "t"] + [keypath(b) + k for k in KEYS + ["cfg"]]:
        os.environ.pop(env_name(b, key), None)  # nothing inherited under the names this parser reads
    for k, v in environ.items():
        if v.startswith("@FILE@"):
            v = os.path.join(d, v[6:])
        os.environ[k] = v
    return pre_sources, {k: os.environ[k] for k in environ}, sorted(files)


def remove_world(b, d, files, environ, keep_environ=False):
    for fn in files:
        os.unlink(os.path.join(d, fn))
    if not keep_environ:
        for k in environ:
            os.environ.pop(k, None)
    os.environ.pop("JSONARGPARSE_DEFAULT_ENV", None)


def call_kw_of(b):
    mode = b.get("mode", "on")
    return {"env": True} if mode == "argon" else {"env": False} if mode == "argoff" else {}


# A USED PARSER.  case["reuse"] = {"first": <kind of the first call>, "before": {<settings / sources that differ>}}: the
# parser object is built for the world `before` (the case with these overrides: another env_prefix, default_env,
# default_config_files, other file contents / environment), ONE call is made on it in that world, then the world is
# changed to the one of the case - files and variables rewritten, the parser's settings changed through its public
# properties env_prefix / default_env / default_config_files - and only then the judged call is made.  The fold does
# not change: the result of a parse is a function of the sources at the time of the call, not of what the parser object
# did before.  Variables under a prefix the parser no longer has stay in the environment.
DIRTY = ["a", "n.x", "n.y", "l+", "d.k", "t", "m"]  # first call "args": a command line that writes every key (values 151..)


def before_world(base):
    r = base.get("reuse")
    if not r:
        return None
    return dict({k: v for k, v in base.items() if k != "reuse"}, **r["before"])


def what_changed(base):
    bw = before_world(base)
    out = []
    if (bw.get("naming") or "APP") != (base.get("naming") or "APP"):
        out.append("env_prefix")
    if ctor_env(bw) != ctor_env(base):
        out.append("default_env")
    if bw.get("listed", "all") != base.get("listed", "all"):
        out.append("default_config_files")
    if any(bw.get(k) != base.get(k) for k in ("dcf", "envcfg", "envvars")) and "env_prefix" not in out:
        out.append("content-of-the-sources")  # (with another prefix the old variables are other variables anyway)
    return "+".join(out) or "nothing"


def retarget(parser, bw, base, d):
    """Give the used parser the settings of the case through its public properties."""
    if (bw.get("naming") or "APP") != (base.get("naming") or "APP"):
        kw = NAMING[base.get("naming") or "APP"]
        parser.env_prefix = kw.get("env_prefix", True)  # True = derive it from prog
    if ctor_env(bw) != ctor_env(base):
        parser.default_env = ctor_env(base)
    if listed_files(bw, d) != listed_files(base, d):
        parser.default_config_files = listed_files(base, d)


def observe(base, clis):
    """Execute base x each command line (or the single non-CLI call) on the real code, fresh parser per call.

    Returns one observation per command line: {"cli", "argv", "sources" (model reading of what was given), "kind",
    "plain", "typed", "extra", "error", "environ"}."""
    import jsonargparse as J

    from mc.util import outcome, restored_process_state, scratch_dir

    method = base.get("method", "parse_args")
    shape = base["shape"]
    reuse = base.get("reuse")
    bw = before_world(base)
    out = []
    with restored_process_state(), scratch_dir() as d:
        if not reuse:
            pre_sources, environ_now, _files = install_world(base, d)
        call_kw = call_kw_of(base)
        written = set()
        for cli in clis:
            argv = []
            cli_sources = []
            if method == "parse_args":
                sub_started = shape != "sub"
                for pos, name in enumerate(cli):
                    if name.startswith("root"):
                        assert not sub_started, "root-level items come before the subcommand"
                    elif not sub_started:
                        argv.append(subname(base))
                        sub_started = True
                    tok, assigns, fs = cli_item(name, pos, shape, d, base)
                    for fn, doc in fs.items():
                        if fn not in written:  # content is a function of the name (kind and position)
                            written.add(fn)
                            with open(os.path.join(d, fn), "w") as f:
                                json.dump(doc, f)
                    argv.extend(tok if isinstance(tok, list) else [tok])
                    cli_sources.append(("cli:" + name.split(":")[0], assigns))
                if not sub_started:
                    argv.append(subname(base))
            elif method in ("parse_string", "parse_object", "parse_path"):
                again = base["given"].startswith("=")  # parse_path is given a file that an earlier source applied already
                gdoc = same_source(base, base["given"][1:])[1] if again else payload(base["given"], VAL["given"])
                cli_sources.append(("given:" + method, assignments_of_config(gdoc)))

            def do_call(parser, kw, environ_now):
                if method == "parse_args":
                    return outcome(parser.parse_args, list(argv), **kw)
                if method == "get_defaults":
                    return outcome(parser.get_defaults)
                if method == "parse_env":
                    return outcome(parser.parse_env)
                if method == "parse_env_dict":
                    return outcome(parser.parse_env, dict(environ_now))
                doc = wrap(base, copy.deepcopy(gdoc))
                if again:
                    assert method == "parse_path"
                    return outcome(parser.parse_path, os.path.join(d, same_source(base, base["given"][1:])[0]), **kw)
                if method == "parse_string":
                    return outcome(parser.parse_string, json.dumps(doc), **kw)
                if method == "parse_object":
                    return outcome(parser.parse_object, doc, **kw)
                with open(os.path.join(d, "given.yaml"), "w") as f:
                    json.dump(doc, f)
                return outcome(parser.parse_path, os.path.join(d, "given.yaml"), **kw)

            first_error = None
            if reuse:
                _s, env1, files1 = install_world(bw, d)
                parser = build_parser(bw, d, J, target=base)
                first = reuse["first"]
                if first == "args":
                    dirty = [subname(base)] if shape == "sub" else []
                    for i, name in enumerate(DIRTY):
                        tok = cli_item(name, 9 + i, shape, d, base)[0]
                        dirty.extend(tok if isinstance(tok, list) else [tok])
                    o1 = outcome(parser.parse_args, dirty, **call_kw_of(bw))
                elif first == "env":
                    o1 = outcome(parser.parse_env)
                elif first == "defaults":
                    o1 = outcome(parser.get_defaults)
                elif first == "same":
                    o1 = do_call(parser, call_kw_of(bw), env1)
                else:
                    raise AssertionError(first)
                if o1["kind"] != "ok":
                    first_error = str({k: v for k, v in o1.items() if k != "value"})[:300].replace(d, "<dir>")
                # variables under a prefix that the parser no longer has stay where they are
                remove_world(bw, d, files1, env1, keep_environ=(bw.get("naming") or "APP") != (base.get("naming") or "APP"))
                pre_sources, environ_now, files2 = install_world(base, d)
                retarget(parser, bw, base, d)
            else:
                parser = build_parser(base, d, J)
            sources = list(pre_sources) + cli_sources
            if first_error:
                o = {"kind": "first-call-on-the-parser-failed", "error": first_error}
            else:
                o = do_call(parser, call_kw, environ_now)
            if reuse:
                remove_world(base, d, files2, dict(environ_now, **env1))
            rec = {"cli": list(cli), "argv": argv, "sources": sources, "kind": o["kind"], "environ": environ_now}
            if o["kind"] == "ok":
                rec["plain"], rec["typed"], rec["extra"] = extract(base, o["value"])
                if rec["plain"] is None:
                    rec["kind"] = "no-subcommand-namespace"
                    rec["error"] = repr(o["value"])[:300]
            else:
                rec["error"] = str({k: v for k, v in o.items() if k not in ("value", "kind")})[:400].replace(d, "<dir>")
            out.append(rec)
    return out


# ------------------------------------------------------------------------------------------------
# judging one case; localisation of a deviation to the source application at which it arises


def initial_state(base):
    return UNSET_DEFAULTS if base["shape"] == "flat0" else CODE_DEFAULTS


def _src_of(value):
    """Source class encoded in a value."""
    if type(value) is str and value[:1] == "v" and value[1:].isdigit():
        value = int(value[1:])
    if type(value) is not int:
        return "empty-value" if value in ("", [], {}) else "?"
    if value == 0:
        return "empty-value"
    if value < 10:
        return "code_default"
    if value == VAL["given"]:
        return "given"
    if value == VAL["same"]:
        return "cli"
    return {1: "default_config", 2: "default_config", 3: "default_config", 4: "env_config", 5: "env_var"}.get(value // 10, "cli")


def ktype(key):
    return {"a": "flat", "n.x": "nested", "n.y": "nested", "l": "list", "d": "dict", "t": "str", "m": "list"}[key]


def describe(key, prev, expected, got, sub=False):
    """Class of a wrong value of `key` after one source application: state before / fold result / implementation."""
    kt = ktype(key)
    if got == ABSENT:
        return f"{kt}:key-missing-in-result"
    if got == prev and type(got) is type(prev) and expected != prev:
        return "assignment-had-no-effect"  # (refined by judge(): see NO_EFFECT_EMPTY)
    if expected == prev and type(expected) is type(prev):
        return f"{kt}:key-changed-by-a-source-that-does-not-mention-it"
    if kt in ("flat", "nested", "str"):
        if type(got) is not (str if kt == "str" else int):
            return f"{kt}:wrong-type"
        return f"{kt}:winner={_src_of(got)}"
    if kt == "list":
        if got is None:
            return "list:none-instead-of-list"
        if not isinstance(got, list) or not all(type(x) is int for x in got):
            return "list:wrong-type"
        w = expected or []
        if len(got) < len(w) and got == w[len(w) - len(got) :]:
            dropped = w[: len(w) - len(got)]
            if sub and all(_src_of(x) in ("code_default", "env_var") for x in dropped):
                # subcommand shape: what was lost came from the subcommand's own parser (its defaults / variables)
                return "list:append-dropped-the-subcommand-level-items"
            return "list:append-dropped-the-items-built-so-far"
        if len(got) < len(w) and got == w[: len(got)]:
            return "list:appended-items-lost"
        if got != w and sorted(got) == sorted(w):
            return "list:order-differs"
        if len(got) > len(w) and w == got[len(got) - len(w) :]:
            return "list:replace-kept-earlier-items"
        return "list:other"
    if got is None:
        return "dict:none-instead-of-dict"
    if not isinstance(got, dict) or not all(type(x) is int for x in got.values()):
        return "dict:wrong-type"
    w = expected or {}
    missing = [k for k in w if k not in got]
    stale = [k for k in got if k not in w]
    wrong = [k for k in w if k in got and got[k] != w[k]]
    if missing and not stale and not wrong:
        return "dict:items-built-so-far-lost"
    if stale and not missing and not wrong:
        return "dict:replace-kept-earlier-items"
    if wrong and not missing and not stale:
        return f"dict:item-winner={_src_of(got[wrong[0]])}"
    return "dict:other"


def origin_class(base, source_name):
    """Class of the source whose application goes wrong (part of the signature)."""
    cls = source_name.split(":")[0]
    if base["shape"] == "sub":
        # everything that reaches the subcommand's keys through a document of the ROOT parser
        if cls in ("default_config", "env_config", "given") or source_name.startswith("cli:root"):
            return "root-level-config"
    if cls == "default_config":
        return cls
    return source_name


PHYSICAL = ["D1", "Ga", "Gb", "D3", "envcfg", "envvars", "given"]

# "assignment had no effect" is refined differentially when the assigned value is empty ("" / 0 / [] / {}): the same
# history is executed with the NON-EMPTY twin of the source in question (same keys, same position); if that
# assignment is applied, the cause is the emptiness of the value and not the position of the source
NO_EFFECT_EMPTY = "assignment-of-an-empty-value-had-no-effect"
TWIN = {"m0": "m", "t0": "t", "a0": "a", "n.x0": "n.x", "l0": "l", "d0": "d", "cfgstr:Z": "cfgstr:R", "cfgfile:Z": "cfgfile:R",
        "rootcfgstr:Z": "rootcfgstr:R", "rootcfgfile:Z": "rootcfgfile:R"}  # fmt: skip


def is_empty_value(v):
    return type(v) in (int, str, list, dict) and not v


def twin_base(b, added):
    """The base b with the non-CLI source `added` replaced by its non-empty twin (None if it has no empty values)."""
    t = dict(b)
    dcf = b.get("dcf") or {}
    if added in DCF_SLOTS and dcf.get(added) == "Z":
        t["dcf"] = {**dcf, added: "R"}
    elif added == "envcfg" and b.get("envcfg") and b["envcfg"][0] == "Z":
        t["envcfg"] = ["R", b["envcfg"][1]]
    elif added == "envvars" and any(x in TWIN for x in b.get("envvars") or []):
        t["envvars"] = [TWIN.get(x, x) for x in b["envvars"]]
    elif added == "given" and b.get("given") == "Z":
        t["given"] = "R"
    else:
        return None
    return t


def truncations(base):
    """The chain of bases obtained by removing non-CLI sources from the end: [(base_i, name of the source added
    by base_i relative to base_{i-1}, is that source active in the model)], shortest first, the full base last."""
    present = []
    dcf = base.get("dcf") or {}
    for slot in DCF_SLOTS:
        if dcf.get(slot):
            present.append(slot)
    again = base.get("listed") == "again" and dcf.get("D1")
    if again:  # the second application of the first file is a source of its own (removed by listing the file once)
        present.append("D1again")
    if base.get("envcfg"):
        present.append("envcfg")
    if base.get("envvars"):
        present.append("envvars")
    if base.get("given") and base["given"] != "E":
        present.append("given")
    chain = []
    for i in range(len(present) + 1):
        keep = set(present[:i])
        b = dict(base)
        b["dcf"] = {k: v for k, v in dcf.items() if k in keep}
        if again and "D1again" not in keep:
            b["listed"] = "all"
        b["envcfg"] = base.get("envcfg") if "envcfg" in keep else None
        b["envvars"] = list(base.get("envvars") or []) if "envvars" in keep else []
        if "given" in base:
            b["given"] = base["given"] if "given" in keep else "E"
        added = present[i - 1] if i else None
        chain.append((b, added))
    return chain


def physical_source_name(base, added):
    if added in DCF_SLOTS:
        return "default_config:" + added
    if added == "D1again":
        return "default_config:D1"
    if added == "envcfg":
        return "env_config" if env_enabled(base) else "env_config(environment disabled)"
    if added == "envvars":
        return "env_var" if env_enabled(base) else "env_var(environment disabled)"
    if added == "given":
        return "given:" + base.get("method", "")
    return "code_default"


def judge(base, clis):
    """Execute and judge base x clis.  Returns [(cli, [deviation...], info)]."""
    from mc.util import tcanon

    fam = {"sub": "sub:", "nest": "group:"}.get(base["shape"], "")
    method = base.get("method", "parse_args")
    init = initial_state(base)
    cache = {tuple(c): o for c, o in zip(clis, observe(base, clis))}
    aux = [0]

    def get(cli):
        t = tuple(cli)
        if t not in cache:
            cache[t] = observe(base, [list(cli)])[0]
            aux[0] += 1
        return cache[t]

    chain_cache = {}

    def chain_obs(b):
        k = json.dumps(b, sort_keys=True)
        if k not in chain_cache:
            chain_cache[k] = observe(b, [[]])[0]
            aux[0] += 1
        return chain_cache[k]

    sel_tag = ":subcommand-selected-by-env" if base.get("env_subcommand") and env_enabled(base) else ""
    results = []
    for cli in clis:
        o = cache[tuple(cli)]
        sources = o["sources"]
        want = fold(init, sources)
        devs = []
        inherited = 0
        ctxt = f"argv={o['argv']} sources={[n for n, _ in sources]} environ={o['environ']} method={method}"
        if o["kind"] != "ok":
            # origin of a rejection: the source whose addition makes the (so far accepted) history rejected
            if cli and get(cli[:-1])["kind"] != "ok":
                inherited += 1  # the prefix is rejected already (it is a case of its own and reported there)
            else:
                last = origin_class(base, sources[-1][0]) if sources else "none"
                if not cli:
                    chain = truncations(base)  # [(no source, None), ..., (base, last non-CLI source)]
                    i = len(chain) - 1
                    while i > 0 and chain_obs(chain[i - 1][0])["kind"] != "ok":  # walk back while rejected as well
                        i -= 1
                    last = origin_class(base, physical_source_name(base, chain[i][1])) if chain[i][1] else "none"
                devs.append(
                    {"signature": f"{fam}valid-input-rejected:{o['kind']}:{method}:last-source={last}", "detail": f"{o.get('error')}; {ctxt}"}
                )
        else:
            wrong = [k for k in KEYS if o["typed"][k] != tcanon(want[k])]
            if wrong and cli:
                # a command line step: the state before it is what the implementation produced for the prefix
                prev = get(cli[:-1])
                if prev["kind"] == "ok" and all(prev["plain"][k] != ABSENT for k in KEYS):
                    P = prev["plain"]
                    E = fold(P, sources[-1:])
                else:  # no usable pre-state: judge against the absolute fold
                    P = fold(init, sources[:-1])
                    E = want
                by = origin_class(base, sources[-1][0])
                for k in wrong:
                    if o["typed"][k] == tcanon(E[k]):
                        inherited += 1  # this step is right; the state it started from was already wrong
                        continue
                    what = describe(k, P[k], E[k], o["plain"][k], fam == "sub:")
                    if what == "assignment-had-no-effect" and is_empty_value(E[k]) and cli[-1] in TWIN:
                        ot = get(cli[:-1] + [TWIN[cli[-1]]])
                        if ot["kind"] == "ok" and ot["typed"][k] == tcanon(fold(P, ot["sources"][-1:])[k]):
                            what = NO_EFFECT_EMPTY
                    devs.append(
                        {
                            "signature": f"{fam}{what}:by={by}",
                            "detail": f"key {k!r}: before the last item {P[k]!r}, fold gives {E[k]!r}, implementation {o['plain'][k]!r}; {ctxt}",
                        }
                    )
            elif wrong:
                # non-CLI sources: find the shortest prefix of the source list at which the key goes wrong
                chain = truncations(base)
                for k in wrong:
                    prev_plain = None
                    for b_i, added in chain:
                        oi = o if b_i == base else chain_obs(b_i)
                        wi = fold(init, oi["sources"])
                        if oi["kind"] != "ok":
                            continue  # e.g. no subcommand selected once the selecting source is removed
                        if oi["typed"][k] != tcanon(wi[k]):
                            name = physical_source_name(base, added)
                            Pk = prev_plain[k] if prev_plain else init[k]
                            gk = oi["plain"][k]
                            what = describe(k, Pk, wi[k], gk, fam == "sub:")
                            if name.endswith("(environment disabled)"):
                                what = "source-applied-although-the-environment-is-switched-off"
                            if what == "assignment-had-no-effect" and is_empty_value(wi[k]) and twin_base(b_i, added):
                                ot = chain_obs(twin_base(b_i, added))
                                if ot["kind"] == "ok" and ot["typed"][k] == tcanon(fold(init, ot["sources"])[k]):
                                    what = NO_EFFECT_EMPTY
                            # the trigger of "source ignored" in the subcommand shape is how the subcommand was selected
                            tag = sel_tag if what == "assignment-had-no-effect" else ""
                            if added == "D1again":
                                tag += ":file-listed-a-second-time"
                            if added in DCF_SLOTS:
                                # differential again: does the file work once the empty files before it are removed?
                                before = [s_ for s_ in DCF_SLOTS[: DCF_SLOTS.index(added)] if b_i["dcf"].get(s_) in RAW_CONTENT]
                                if before:
                                    ot = chain_obs(dict(b_i, dcf={s_: k_ for s_, k_ in b_i["dcf"].items() if s_ not in before}))
                                    if ot["kind"] == "ok" and ot["typed"][k] == tcanon(fold(init, ot["sources"])[k]):
                                        tag += ":after-an-empty-default-config-file"
                            devs.append(
                                {
                                    "signature": f"{fam}{what}:by={origin_class(base, name)}{tag}",
                                    "detail": f"key {k!r}: before applying {name} {Pk!r}, fold gives {wi[k]!r}, implementation {gk!r}; "
                                    f"full case: fold {want[k]!r}, implementation {o['plain'][k]!r}; {ctxt}",
                                }
                            )
                            break
                        prev_plain = oi["plain"]
            if o["extra"]:
                devs.append({"signature": f"{fam}unexpected-key-in-result", "detail": f"{o['extra']}; {ctxt}"})
        if devs and base.get("reuse"):
            # differential: the same history on a fresh parser (no first call, settings given to the constructor)
            fresh = judge({k: v for k, v in base.items() if k != "reuse"}, [cli])
            aux[0] += 1 + fresh[0][2].get("aux", 0)
            fresh_sigs = {dv["signature"] for dv in fresh[0][1]}
            own = [dv for dv in devs if dv["signature"] not in fresh_sigs]
            if own:  # one root cause: something of the first call / the earlier settings is remembered by the parser object
                devs = [dv for dv in devs if dv["signature"] in fresh_sigs]
                devs.append(
                    {
                        "signature": f"{fam}a-used-parser-gives-another-result-than-a-fresh-one:changed-after-the-first-call={what_changed(base)}",
                        "detail": f"first call on the parser and what differed then: {base['reuse']}; "
                        + " | ".join(f"[{dv['signature']}] {dv['detail']}" for dv in own)[:1500],
                    }
                )
        writers = {}
        for name, assigns in sources:
            for key, _op, _v in assigns:
                writers.setdefault(key, set()).add(name)
        info = {
            "nsources": len(sources),
            "multi": any(len(w) >= 2 for w in writers.values()),
            "ok": o["kind"] == "ok",
            "last": origin_class(base, sources[-1][0]).split(":")[0] if sources else "code_default",
            "ops": sorted({op for _n, a in sources for _k, op, _v in a}),
            "model": json.dumps(want, sort_keys=True),
            # source classes that give a document assigning nothing / assign the empty value of a key type
            "nothing": sorted({origin_class(base, n).split(":")[0] for n, a in sources if not a}),
            "empty": sorted({origin_class(base, n).split(":")[0] for n, a in sources for _k, op, v in a if op == "set" and v in (0, "", [], {})}),
            "empty_overrides": _empty_overrides(init, sources),
            "file_twice": file_applied_twice(base, cli),
            "inherited": inherited,
            "agrees": o["kind"] == "ok" and not [k for k in KEYS if o["typed"][k] != tcanon(want[k])],
        }
        results.append((list(cli), devs, info))
    if results:
        results[0][2]["aux"] = aux[0]
    return results


def file_applied_twice(base, cli):
    """Is one and the same config file (same path) applied more than once in this history?"""
    dcf = base.get("dcf") or {}
    names = [DCF_FILE[s_] for s_ in DCF_SLOTS if dcf.get(s_)]
    if base.get("listed") == "again" and dcf.get("D1"):
        names.append(DCF_FILE["D1"])
    envcfg = base.get("envcfg")
    if envcfg and envcfg[1] == "file" and env_enabled(base):
        names.append(same_source(base, "env")[0])
    for pos, item in enumerate(cli):
        head, _, arg = item.partition(":")
        if head in ("samefile", "rootsamefile"):
            names.append(item)
        elif head in ("again", "rootagain"):
            names.append(same_source(base, arg)[0])
    if (base.get("given") or "").startswith("="):
        names.append(same_source(base, base["given"][1:])[0])
    return len(names) != len(set(names))


def _empty_overrides(init, sources):
    """Does an empty value ("" / 0 / [] / {}) replace a non-empty one in this history, or is something appended /
    set as an item after an empty value was assigned (the cases in which 'falsy = not given' would show)?"""
    state = copy.deepcopy(init)
    hit = False
    for _n, assigns in sources:
        for key, op, val in assigns:
            if op == "set" and val in (0, "", [], {}) and state[key]:
                hit = True
            new = fold(state, [("", [(key, op, val)])])
            if op in ("append", "item") and state[key] in ([], {}):
                hit = True
            state = new
    return hit


def _worker(item):
    import time

    base, clis = item
    t0 = time.process_time()
    out = judge(base, clis)
    cpu = time.process_time() - t0
    devs = [(cli, d) for cli, d, _info in out if d]
    stats = {
        "n": len(out),
        "steps": sum(i["nsources"] for _c, _d, i in out),
        "multi": sum(1 for _c, _d, i in out if i["multi"]),
        "ok": sum(1 for _c, _d, i in out if i["ok"]),
        "agree": sum(1 for _c, _d, i in out if i["agrees"]),
        "inherited": sum(1 for _c, _d, i in out if i["inherited"] and not _d),
        "aux": sum(i.get("aux", 0) for _c, _d, i in out),
        "ops": sorted({op for _c, _d, i in out for op in i["ops"]}),
        "models": sorted({i["model"] for _c, _d, i in out}),
        "last": sorted({i["last"] for _c, _d, i in out}),
        "nothing": sorted({x for _c, _d, i in out for x in i["nothing"]}),
        "empty": sorted({x for _c, _d, i in out for x in i["empty"]}),
        "empty_overrides": sum(1 for _c, _d, i in out if i["empty_overrides"]),
        "file_twice": sum(1 for _c, _d, i in out if i["file_twice"]),
        "file_twice_multi": sum(1 for _c, _d, i in out if i["file_twice"] and i["multi"]),
        "cpu": cpu,
    }
    return base, devs, stats


def run_case(case):
    base = {k: v for k, v in case.items() if k != "cli"}
    out = judge(base, [case.get("cli") or []])
    return out[0][1]


# ------------------------------------------------------------------------------------------------
# the enumerated space


def sequences(alphabet, maxlen, minlen=0):
    for n in range(minlen, maxlen + 1):
        for seq in itertools.product(alphabet, repeat=n):
            yield list(seq)


def chunks(lst, n):
    for i in range(0, len(lst), n):
        yield lst[i : i + n]


def dcf_configs(level):
    """Which default config files exist and which payload kind each carries."""
    if level == "none":
        return [{}]
    if level == "two":  # nothing, or all four files with the standard kinds
        return [{}, {"D1": "R", "Ga": "A", "Gb": "R", "D3": "A"}]
    if level == "subsets":  # every subset of {D1, G, D3} with the standard kinds: 8
        out = []
        for d1, g, d3 in itertools.product([0, 1], repeat=3):
            c = {}
            if d1:
                c["D1"] = "R"
            if g:
                c["Ga"], c["Gb"] = "A", "R"
            if d3:
                c["D3"] = "A"
            out.append(c)
        return out
    if level == "empties":  # every one of the four files absent / R / A / empty values / 0 bytes, >= 1 of the latter two
        out = []
        for ks in itertools.product((None, "R", "A", "Z", "E0"), repeat=4):
            if "Z" in ks or "E0" in ks:
                out.append({slot: k for slot, k in zip(DCF_SLOTS, ks) if k})
        return out
    if level == "kinds":  # every slot absent / R / A, the glob with (A,R), (R,A) or one file only: 3*5*3 = 45
        out = []
        for d1 in (None, "R", "A"):
            for g in (None, ("A", "R"), ("R", "A"), ("A1", None), (None, "N")):
                for d3 in (None, "R", "A"):
                    c = {}
                    if d1:
                        c["D1"] = d1
                    if g:
                        if g[0]:
                            c["Ga"] = g[0]
                        if g[1]:
                            c["Gb"] = g[1]
                    if d3:
                        c["D3"] = d3
                    out.append(c)
        return out
    raise AssertionError(level)


ENVVARS_ALL = ["a", "n.x", "l", "d", "t", "m"]
ENVVARS_EMPTY = ["a0", "n.x0", "l0", "d0", "t0", "m0"]  # every variable present, carrying the empty value of its type


def env_configs(level):
    """(envcfg, envvars) combinations."""
    if level == "none":
        return [(None, [])]
    cfgs = [None, ["R", "str"], ["A", "str"]]
    if level == "wide":
        cfgs += [["R", "file"], ["A", "file"], ["A1", "str"], ["N", "str"]]
    evs = [[], ENVVARS_ALL]
    if level == "wide":
        evs += [["a"], ["l"], ["d"], ["n.x", "n.y"]]
    return [(c, e) for c in cfgs for e in evs]


def empties_bases(shape, small=False, method="parse_args", givens=(None,), modes=("on",)):
    """Every non-CLI source class is absent / carries its standard payload / carries EMPTY content: default config
    files with empty values, of 0 bytes, whitespace only; an env config that assigns empty values (or nothing: {});
    env variables that are present with the empty value of their type.  small: the three default config slots go
    together (all absent / all standard / all empty) and the env config may also be the document {}; small="diag":
    additionally env config and env variables go together (both absent / standard / empty)."""
    d1s = (None, "R", "Z")
    gs = (None, ("A", "R"), ("E0", "Z"))
    d3s = (None, "A", "EW")
    if small:
        dcfs = [{}, {"D1": "R", "Ga": "A", "Gb": "R", "D3": "A"}, {"D1": "Z", "Ga": "E0", "Gb": "Z", "D3": "EW"}]
    else:
        dcfs = []
        for d1, g, d3 in itertools.product(d1s, gs, d3s):
            c = {}
            if d1:
                c["D1"] = d1
            if g:
                c["Ga"], c["Gb"] = g
            if d3:
                c["D3"] = d3
            dcfs.append(c)
    envcfgs = [None, ["R", "str"], ["Z", "str"]] + ([["E", "str"]] if small else [])
    envs = [(c, e) for c in envcfgs for e in ([], ENVVARS_ALL, ENVVARS_EMPTY)]
    if small == "diag":  # the two environment sources go together as well: 3 x 3 bases
        envs = [(None, []), (["R", "str"], ENVVARS_ALL), (["Z", "str"], ENVVARS_EMPTY)]
    for dcf in dcfs:
        for envcfg, envvars in envs:
            for mode in modes:
                for given in givens:
                    b = {"shape": shape, "mode": mode, "listed": "all", "dcf": dcf, "envcfg": envcfg, "envvars": envvars, "method": method}
                    if given:
                        b["given"] = given
                    yield b


def bases(shape, dcf_level, env_level, modes=("on",), listed=("all",), method="parse_args", givens=(None,)):
    for dcf in dcf_configs(dcf_level):
        for envcfg, envvars in env_configs(env_level):
            for mode in modes:
                for ls in listed:
                    for given in givens:
                        b = {"shape": shape, "mode": mode, "listed": ls, "dcf": dcf, "envcfg": envcfg, "envvars": envvars, "method": method}
                        if given:
                            b["given"] = given
                        yield b


SUB_ITEMS = ["a", "n.x", "l", "l+", "d", "d.k", "cfgfile:A", "cfgstr:R"]  # items of the subcommand's own parser


def sub_sequences_over(root_items, sub_items, maxlen, root_max=2):
    """Subcommand shape: root-level --cfg items (before the subcommand token), then items of the subcommand."""
    out = []
    for n in range(0, maxlen + 1):
        for r in range(0, min(n, root_max) + 1):
            for rs in itertools.product(root_items, repeat=r):
                for ss in itertools.product(sub_items, repeat=n - r):
                    out.append(list(rs) + list(ss))
    return out


def sub_sequences(maxlen, root_max=2):
    return sub_sequences_over(ROOT_ITEMS, SUB_ITEMS, maxlen, root_max)


ALL_MODES = ("on", "off", "envon", "envoff", "argon", "argoff")


def selectable(b):
    """Subcommand shape, non-CLI methods: the subcommand must be selected by something (C17 judges selection)."""
    if b["shape"] != "sub" or b.get("method", "parse_args") == "parse_args":
        return True
    if b.get("given"):
        return True
    if b.get("env_subcommand") and env_enabled(b):
        return True
    return bool(b.get("dcf")) or bool(b.get("envcfg") and env_enabled(b))


def plan(ctx):
    """The blocks of the enumerated space: [(name, bases, command lines)]; every block is a full product."""
    quick = ctx.quick
    only = os.environ.get("VERIF_C04_ONLY")
    blocks = []
    A = CLI_ITEMS
    # B1 depth on the command line: every sequence up to the bound on {no default config file, all four} x
    #    {no env config, replacing, appending} x {no env variables, all}
    # quick: n.y behaves like n.x, an appending config string like an appending config file (file A and string R
    # stay, so both forms and both kinds are there at depth 3); both items stay in B3 / B4 up to length 2
    deep = [x for x in A if x not in ("n.y", "cfgstr:A")] if quick else A
    # 8 of the 12 combinations: with an env config, the env variables go together with the default config files
    # (the other four are covered one notch shallower by B3); quick: they always go together (6 combinations)
    deep_bases = [b for b in bases("flat", "two", "std") if bool(b["dcf"]) == bool(b["envvars"]) or (b["envcfg"] is None and not quick)]
    blocks.append(("deep-cli", deep_bases, list(sequences(deep, 3 if quick else 4))))
    # B1b the quantifier speaks of up to 6 command line items: longer histories over the four items that build on
    #     the state (append, config with append, dict item, replacing config string), on the fullest non-CLI base
    full = [b for b in bases("flat", "two", "std") if b["dcf"] and b["envcfg"] == ["R", "str"] and b["envvars"]]
    blocks.append(("long-cli", full, list(sequences(["l+", "cfgfile:A", "d.k", "cfgstr:R"], 5 if quick else 6))))
    # B2 breadth on the non-CLI sources: every payload kind in every default config slot; the wide env alphabet
    std = list(bases("flat", "subsets", "std"))
    wide = list(bases("flat", "kinds", "std")) + [b for b in bases("flat", "subsets", "wide") if b not in std]
    probe = [[], ["l+"], ["d.k"], ["cfgfile:A"], ["cfgstr:R"], ["cfgfile:A1"], ["cfgstr:N"], ["d.p"]]
    # quick (since round 3) without d.p (an item of the code default of the dict: behaves like d.k; stays in thorough)
    blocks.append(("wide-sources", wide, probe[:7] if quick else list(sequences(A, 2)) + probe[5:]))
    # B3 every subset of the default config files x env configs, medium command lines
    # quick: on the six proper, non-empty subsets the env config and the env variables go together (3 instead of 6
    # environment combinations; the other 18 bases stay in B2 with every single item, and in the thorough tier)
    mid = [b for b in std if not quick or len(b["dcf"]) in (0, 4) or bool(b["envcfg"]) == bool(b["envvars"])]
    blocks.append(("subsets-mid", mid, list(sequences(A, 2 if quick else 3))))
    # B4 other declarations of the same keys: the group as a dataclass (whole-group option --n); list / dict unset
    # quick (since round 3): on 6 of the 12 bases - default config files and env variables go together, as in B1
    def six(shape):
        return [b for b in bases(shape, "two", "std") if not quick or bool(b["dcf"]) == bool(b["envvars"])]

    blocks.append(("shape-dc", six("dc"), list(sequences(A + ["n", "nfile"], 2 if quick else 3))))
    blocks.append(("shape-flat0", six("flat0"), list(sequences(A, 2 if quick else 3))))
    # B4b the same keys one level deeper, inside a group g (options --g.l+, documents {g: {"l+": ..}}, variables APP_G__L):
    #     a list / dict typed key with a dotted name, the group n at depth two
    blocks.append(("shape-nest", [b for b in six("nest") if bool(b["dcf"]) == bool(b["envvars"])], list(sequences(A, 2 if quick else 3))))
    # B5 every way of switching the environment on and off, both ways of listing the default config files
    modes = list(bases("flat", "two", "std", modes=ALL_MODES, listed=("all", "existing")))
    if quick:  # (since round 3) the second way of listing with the two plain modes only: it is orthogonal to the switches
        modes = [b for b in modes if b["listed"] == "all" or b["mode"] in ("on", "off")]
    blocks.append(("env-modes", modes, list(sequences(A, 1 if quick else 2))))
    # B6 the same keys inside a subcommand
    subb = []
    for b in bases("sub", "two", "std", modes=("on", "off")):
        for es in (False, True) if b["mode"] == "on" else (False,):
            subb.append(dict(b, env_subcommand=es))
    if quick:
        # environment switched off: what differs from "on" is only that the variables must be ignored, which does not
        # depend on the command line -> single items there (the pairs run on the 24 bases with the environment on)
        # (since round 3) subcommand named by APP_SUBCOMMAND: pairs on the 6 bases on which default config files and env
        # variables go together, single items on the other 6
        def pairs(b):
            return b["mode"] == "on" and (not b["env_subcommand"] or bool(b["dcf"]) == bool(b["envvars"]))

        blocks.append(("subcommand", [b for b in subb if pairs(b)], sub_sequences(2)))
        blocks.append(("subcommand", [b for b in subb if not pairs(b)], sub_sequences(1)))
    else:
        blocks.append(("subcommand", subb, sub_sequences(3)))
    # B7 the non-CLI parse methods
    for shape in ("flat", "dc", "flat0", "nest", "sub"):
        dcf_level = "subsets" if quick else "kinds"
        if shape == "nest":
            dcf_level = "two" if quick else "subsets"
        if shape != "sub":
            gd = list(bases(shape, "kinds", "none", listed=("all", "existing"), method="get_defaults"))
            blocks.append((f"get_defaults-{shape}", gd, [[]]))
        pe = []
        for m in ("parse_env", "parse_env_dict"):
            pe += list(bases(shape, dcf_level if shape != "sub" else "two", "wide" if shape != "sub" else "std", modes=("on",), method=m))
            pe += list(bases(shape, "two", "std", modes=("off",), method=m))
        given = []
        for m in ("parse_string", "parse_object", "parse_path"):
            kinds = ("R", "A", "A1", "N") if shape != "sub" or not quick else ("R", "A")
            # quick: that a switched-off environment is ignored by these methods is shown on flat and sub only
            gm = ("on",) if quick and shape in ("dc", "flat0", "nest") else ("on", "off")
            if quick and shape == "flat":  # switched off: on the two extreme default config settings only (since round 3)
                given += list(bases(shape, dcf_level, "std", modes=("on",), method=m, givens=kinds))
                given += list(bases(shape, "two", "std", modes=("off",), method=m, givens=kinds))
                given += list(bases(shape, "two", "std", modes=ALL_MODES[2:], method=m, givens=kinds))
                continue
            # quick (since round 3): dc / flat0 on the two extreme default config settings, like nest
            gl = "two" if shape == "sub" or (quick and shape in ("dc", "flat0")) else dcf_level
            given += list(bases(shape, gl, "std", modes=gm, method=m, givens=kinds))
            if shape == "flat":
                given += list(bases(shape, "two", "std", modes=ALL_MODES[2:], method=m, givens=kinds))
        if shape == "sub":
            pe = [dict(b, env_subcommand=es) for b in pe for es in (False, True)]
            given = [dict(b, env_subcommand=es) for b in given for es in ((False, True) if b["mode"] == "on" else (False,))]
        blocks.append((f"parse_env-{shape}", [b for b in pe if selectable(b)], [[]]))
        blocks.append((f"given-config-{shape}", given, [[]]))
    # B8 EMPTY values and EMPTY documents (every one is falsy in Python: the class "given but empty = not given").
    # B8a default config files: every one of the four files absent / R / A / empty values / 0 bytes
    for shape in ("flat",) if quick else ("flat", "dc", "flat0"):
        ls = ("all",) if quick else ("all", "existing")
        blocks.append((f"empty-default-config-{shape}", list(bases(shape, "empties", "none", listed=ls, method="get_defaults")), [[]]))
    # B8b every non-CLI source class absent / standard / empty x every single item of the empties alphabet, and
    #     every sequence of two such items (incl. l=[] then l+, d={} then d.k, t= then t=v) on the small bases
    E1 = ["t0", "a0", "l0", "d0", "l+", "d.k", "cfgstr:Z"]
    E2 = CLI_EMPTY + ["l+", "d.k"]
    blocks.append(("empty-values-wide", list(empties_bases("flat")), list(sequences(E1 if quick else E2, 1))))
    diag = list(empties_bases("flat", small="diag"))
    blocks.append(("empty-values-cli", diag, list(sequences(E2, 2))))
    if not quick:
        blocks.append(("empty-values-cli2", list(empties_bases("flat", small=True)), list(sequences(E2, 2))))
        # all sources absent / all standard / all empty x sequences of three
        line = [b for b in diag if {"": None, "R": "R", "Z": "Z"}[b["dcf"].get("D1", "")] == (b["envcfg"] or [None])[0]]
        blocks.append(("empty-values-cli3", line, list(sequences(E2, 3))))
    for shape in ("dc", "flat0", "nest"):
        blocks.append((f"empty-values-{shape}", list(empties_bases(shape, small="diag" if quick or shape == "nest" else True)), list(sequences(E2, 1 if quick else 2))))
    # B8c the other parse methods and the environment switches on the same bases
    em = []
    for m in ("parse_env", "parse_env_dict"):
        em += list(empties_bases("flat", small=quick, method=m))
    for m in ("parse_string", "parse_object", "parse_path"):
        em += list(empties_bases("flat", small=True, method=m, givens=("R", "A", "Z", "E")))
    em += list(empties_bases("flat", small=True, modes=ALL_MODES[1:]))
    blocks.append(("empty-values-methods", em, [[]]))
    # B8d inside a subcommand (root-level documents with s: {...}, variables APP_S__*)
    sube = []
    for b in empties_bases("sub", small="diag" if quick else True, modes=("on", "off")):
        for es in (False, True) if b["mode"] == "on" else (False,):
            sube.append(dict(b, env_subcommand=es))
    SE = ["t0", "l0", "l+", "d.k", "rootcfgstr:Z", "cfgstr:Z"]
    blocks.append(("empty-values-sub", sube, [[]] + [[x] for x in SE] if quick else sub_sequences_over(["rootcfgstr:Z", "rootcfgstr:R"], SE[:4] + ["cfgstr:Z"], 2)))
    # B9 THE SAME FILE applied more than once in one history: twice (or more) on the command line with other items in
    #    between, the file that APP_CFG names / a default config file given again on the command line or to
    #    parse_path, APP_CFG naming a default config file, a default config file listed twice.  The fold needs no
    #    change: every application is one more source at its position.
    full_dcf = {"D1": "R", "Ga": "A", "Gb": "R", "D3": "A"}
    app_dcf = {"D1": "A", "Ga": "R"}  # the first default config file appends
    n_same = 3 if quick else 4

    def sbase(shape, dcf, envcfg, **kw):
        # only ONE individual environment variable: with all of them every key the env config writes would be
        # overwritten right away and a second application of its file that is skipped could not be seen
        return dict({"shape": shape, "mode": "on", "listed": "all", "dcf": dcf, "envcfg": envcfg, "envvars": ["a"] if dcf else [], "method": "parse_args"}, **kw)

    S = ["samefile:R", "samefile:A", "a", "l+", "d.k"]
    same_bases = [sbase("flat", dcf, e) for dcf in ({}, full_dcf) for e in (None, ["R", "file"], ["A", "file"]) if dcf or not e or not quick]
    same_bases += [sbase("flat", full_dcf, ["=D1", "file"]), sbase("flat", app_dcf, ["=D1", "file"])]
    for b in same_bases:
        again = [x for x in ("again:env", "again:D1") if applicable(b, x)]
        if b["envcfg"] and b["envcfg"][0] == "=D1":
            again = ["again:D1"]  # one and the same file
        blocks.append(("same-file-cli", [b], list(sequences(S + again, n_same))))
    for shape in ("dc", "flat0", "nest"):
        blocks.append((f"same-file-{shape}", [sbase(shape, full_dcf, ["A", "file"])], list(sequences(S[:4] + ["again:env"], n_same))))
    for dcf, envcfg, es in (({}, None, False), (full_dcf, ["A", "file"], False), (full_dcf, ["R", "file"], True)):
        b = sbase("sub", dcf, envcfg, env_subcommand=es)
        roots = ["rootsamefile:A"] + [x for x in (["rootagain:env"] if quick else ["rootagain:env", "rootagain:D1", "rootsamefile:R"]) if applicable(b, x)]
        blocks.append(("same-file-sub", [b], sub_sequences_over(roots, S[:3], n_same)))
    sm = []
    for e in (["R", "file"], ["A", "file"]):  # parse_path is given the file of the env config / a default config file
        for mode in ("on", "off"):
            sm += [sbase("flat", full_dcf, e, mode=mode, method="parse_path", given=g) for g in ("=env", "=D1")]
    sm.append(sbase("flat", app_dcf, ["R", "str"], method="parse_path", given="=D1"))
    for dcf in (full_dcf, app_dcf):  # APP_CFG names the first default config file
        sm += [sbase("flat", dcf, ["=D1", "file"], method=m) for m in ("parse_env", "parse_env_dict")]
        sm += [sbase("flat", dcf, ["=D1", "file"], method=m, given=g) for m, g in (("parse_string", "R"), ("parse_object", "A"), ("parse_path", "=D1"))]
    blocks.append(("same-file-methods", sm, [[]]))
    # the first default config file listed a second time at the end of the list
    blocks.append(("same-file-listed-twice", list(bases("flat", "kinds", "none", listed=("again",), method="get_defaults")), [[]]))
    twice = [b for b in bases("flat", "kinds", "std", listed=("again",)) if bool(b["envcfg"]) == bool(b["envvars"]) and (b["envcfg"] or ["A"])[0] == "A"]
    blocks.append(("same-file-listed-twice", twice, [[], ["l+"]] if quick else list(sequences(A, 1))))
    # B10 the SHAPE OF THE NAMES from which the prefix of the environment variables is derived (explicit prefix with a
    #     dash / in mixed case, prefix derived from prog with dash and extension, no prefix at all): the environment
    #     sources must apply at their position whatever the prefix looks like
    P6 = [[], ["a"], ["l+"], ["d.k"], ["cfgfile:A"], ["cfgstr:R"]]
    for naming in [n for n in NAMING if n != "APP"]:
        nb = [dict(b, naming=naming) for b in bases("flat", "two", "std")]
        blocks.append(("env-prefix-shapes", nb, P6 if quick else list(sequences(A, 2))))
        nm = [dict(b, naming=naming) for b in bases("flat", "two", "std", modes=("envon", "argon", "off"))]
        for m in ("parse_env", "parse_env_dict"):
            nm += [dict(b, naming=naming) for b in bases("flat", "two", "std", method=m)]
        for m, gs in (("parse_string", "R"), ("parse_object", "A"), ("parse_path", "A")) if quick else [(m, "RA") for m in ("parse_string", "parse_object", "parse_path")]:
            nm += [dict(b, naming=naming) for b in bases("flat", "two", "std", method=m, givens=tuple(gs))]
        blocks.append(("env-prefix-shapes-methods", nm, [[]]))
        ns = [dict(b, naming=naming, env_subcommand=es) for b in bases("sub", "two", "std") for es in (False, True)]
        blocks.append(("env-prefix-shapes-sub", ns, [[], ["l+"]] if quick else sub_sequences(1)))
    # B11 A USED PARSER: the parser object has served one call in another world (see before_world) before the judged call
    P2 = [[], ["l+"]]
    full_env = (["R", "str"], ENVVARS_ALL)

    def used(b, first, **before):
        return dict(b, reuse={"first": first, "before": before})

    def other_env(b):
        # what the variables under the OLD names carry (they stay in the environment): the other env config, the individual
        # variables present instead of absent and vice versa - so that reading them instead of the new ones shows
        return {
            "envcfg": {None: ["R", "str"], "R": ["A", "str"], "A": ["R", "str"]}[(b["envcfg"] or [None])[0]],
            "envvars": [] if b["envvars"] else ENVVARS_ALL,
        }

    # B11a nothing changes between the two calls (the first call must not leave anything behind in the parser: defaults
    #      appended to in place, a remembered config, a remembered subcommand ...)
    for shape in ("flat", "flat0", "dc", "nest", "sub"):
        two = [b for b in bases(shape, "two", "std") if (not b["dcf"] and not b["envcfg"] and not b["envvars"]) or (b["dcf"] and (b["envcfg"], b["envvars"]) == full_env)]
        if shape == "sub":
            two = [dict(b, env_subcommand=False) for b in two]
        firsts = ("args", "defaults", "same") + (("env",) if shape != "sub" else ())
        clis = [[], ["l+"], ["d.k"], ["cfgfile:A"]] + ([["cfgstr:R"], ["a"]] if shape != "sub" else [["rootcfgstr:A"]])
        blocks.append((f"used-parser-nothing-changed-{shape}", [used(b, f) for b in two for f in firsts], clis if quick else P6 + clis[4:]))
        if shape != "sub":
            for m in ("parse_env", "get_defaults"):
                blocks.append((f"used-parser-nothing-changed-{shape}", [used(dict(b, method=m), f) for b in two for f in ("args", "same")], [[]]))
    # B11b env_prefix assigned after the first call: every ordered pair of namings (prog itself is not a property, so
    #      not between the two namings that derive the prefix from different progs)
    env3 = [(["R", "str"], ENVVARS_ALL), (["A", "str"], []), (None, ENVVARS_ALL)]
    nb = [b for b in bases("flat", "two", "std") if (b["envcfg"], b["envvars"]) in env3]
    if quick:  # the default config files only together with the fullest environment
        nb = [b for b in nb if not b["dcf"] or (b["envcfg"], b["envvars"]) == full_env]
    for new_n in NAMING:
        for old_n in NAMING:
            if old_n == new_n or ("prog" in NAMING[old_n] and "prog" in NAMING[new_n]):
                continue
            tb = [dict(b, naming=new_n) for b in nb]
            blocks.append(("used-parser-env-prefix-changed", [used(b, "env", naming=old_n, **other_env(b)) for b in tb], P2))
            blocks.append(("used-parser-env-prefix-changed", [used(b, "args", naming=old_n, **other_env(b)) for b in tb], [[]] if quick else P2))
            blocks.append(("used-parser-env-prefix-changed", [used(dict(b, method="parse_env"), "env", naming=old_n, **other_env(b)) for b in tb], [[]]))
    # B11c default_env assigned after the first call (on -> off, off -> on)
    for b in bases("flat", "two", "std", modes=("on", "off")):
        other = "off" if b["mode"] == "on" else "on"
        blocks.append(("used-parser-default-env-changed", [used(b, f, mode=other) for f in ("args", "env", "defaults")], P2))
    # B11d default_config_files assigned after the first call
    for b in bases("flat", "two", "std", listed=("all", "none", "again")):
        if not b["dcf"]:
            continue
        for was in {"all": ("none", "again"), "none": ("all",), "again": ("existing",)}[b["listed"]]:
            blocks.append(("used-parser-default-config-files-changed", [used(b, f, listed=was) for f in ("args", "defaults")], P2))
            blocks.append(("used-parser-default-config-files-changed", [used(dict(b, method="get_defaults"), "defaults", listed=was)], [[]]))
    # B11e the CONTENT of the sources differs during the first call (other kinds in the default config files, the other
    #      env config, the env variables present instead of absent and vice versa): nothing read then may be remembered
    # the files of the case exist with another kind of content (D1, Gb) or not at all (Ga, D3) during the first call; for a
    # case without default config files all four exist then: files change, appear and disappear between the calls
    swapped = {"D1": "A", "Gb": "A"}
    for shape in ("flat", "nest", "sub"):
        for b in bases(shape, "two", "std"):
            if shape == "sub":
                b = dict(b, env_subcommand=False)
            was = dict(other_env(b), dcf=swapped if b["dcf"] else full_dcf)
            firsts = ("args", "defaults") + (("env",) if shape != "sub" else ())
            blocks.append((f"used-parser-content-changed-{shape}", [used(b, f, **was) for f in firsts], P2))
            if shape != "sub":
                for m in ("parse_env", "get_defaults"):
                    blocks.append((f"used-parser-content-changed-{shape}", [used(dict(b, method=m), "same", **was)], [[]]))
    if only:
        blocks = [b for b in blocks if any(b[0].startswith(o) for o in only.split(","))]
    return blocks


def prefix_chunks(clis, target=200):
    """Split a prefix-closed set of command lines into batches that contain the prefixes of their members
    (so that the pre-state of a step is usually available without an auxiliary run)."""
    if len(clis) <= target:
        return [clis]
    groups = {}
    for c in clis:
        groups.setdefault(tuple(c[:1]), []).append(c)
    out = []
    for g in groups.values():
        if len(g) <= 2500:
            out.append(g)
        else:  # split once more, by the first two items
            sub = {}
            for c in g:
                sub.setdefault(tuple(c[:2]), []).append(c)
            out.extend(sub.values())
    return out


def explore(ctx):
    import collections

    blocks = plan(ctx)
    items = []
    block_sizes = collections.OrderedDict()
    seen_cases = set()
    for name, bs, clis in blocks:
        n = 0
        for b in bs:
            bkey = json.dumps(b, sort_keys=True)
            todo = [c for c in clis if (bkey, tuple(c)) not in seen_cases]  # a case shared by two blocks runs once
            seen_cases.update((bkey, tuple(c)) for c in todo)
            for ch in prefix_chunks(todo):
                if ch:
                    items.append((dict(b, _block=name), ch))
                    n += len(ch)
        block_sizes[name] = block_sizes.get(name, 0) + n
    tot = collections.Counter()
    models, ops, last = set(), set(), set()
    nothing, empty = set(), set()
    cpu_per_block = collections.Counter()
    per_axis = collections.Counter()
    for base, devs, st in ctx.pmap(_worker, items, chunk=1):
        cpu_per_block[base.pop("_block")] += st["cpu"]
        for k in ("n", "steps", "multi", "ok", "agree", "inherited", "aux", "empty_overrides", "file_twice"):
            tot[k] += st[k]
        nothing.update(st["nothing"])
        empty.update(st["empty"])
        for axis in ("shape", "method", "mode"):
            per_axis[axis + "=" + str(base.get(axis))] += st["n"]
        if env_enabled(base) and (base.get("envcfg") or base.get("envvars")):
            per_axis["env-prefix=" + (base.get("naming") or "APP")] += st["n"]
        per_axis["environment=" + ("applies" if env_enabled(base) else "ignored")] += st["n"]
        if base.get("reuse"):
            tot["used_parser"] += st["n"]
            for w in what_changed(base).split("+"):
                per_axis["used-parser:changed-after-the-first-call=" + w] += st["n"]
            per_axis["used-parser:first-call=" + base["reuse"]["first"]] += st["n"]
        models.update(st["models"])
        ops.update(st["ops"])
        last.update(st["last"])
        for cli, dl in devs:
            case = dict(base, cli=cli)
            for dv in dl:
                ctx.deviation(dv["signature"], case, dv["detail"])
    for name, bs, clis in blocks:
        ctx.sample(dict(bs[len(bs) // 2], cli=clis[len(clis) // 2]), limit=40)
    for k, v in tot.items():
        ctx.count(k, v)
    ctx.cover(
        evaluations=tot["n"] + tot["aux"],
        states=tot["n"],
        transitions=tot["steps"],
        traces_validated_against_impl=tot["n"],
        distinct_nontrivial=tot["multi"],
        rule="a case is one history (which default config files exist and what they carry, env config, env variables, "
        "env mode, parser shape, parse method, command line item sequence), executed once on a fresh parser and "
        "compared with the fold on every key; cases are distinct by construction (deduplicated across blocks); "
        "non-trivial = at least one key is written by two or more different sources, so that an override / append / "
        "item merge actually has to be ordered. states = histories, transitions = source applications executed by "
        "the implementation over all histories; evaluations additionally counts the auxiliary runs that localise a "
        "deviation",
        exhaustive=not os.environ.get("VERIF_C04_ONLY"),
        caps_hit=[],
        bounds={
            "cases_per_block": dict(block_sizes),
            "cli_alphabet": CLI_ITEMS,
            "cli_alphabet_extra": CLI_EXTRA,
            "root_level_items": ROOT_ITEMS,
            "keys": KEYS,
            "cli_alphabet_empty_values": CLI_EMPTY,
            "cli_alphabet_same_file_again": CLI_SAME + ROOT_SAME,
            "payload_kinds": {k: payload(k, 0) for k in ("R", "A", "A1", "N", "Z", "E")},
            "empty_default_config_file_contents": RAW_CONTENT,
        },
        worker_cpu_seconds_per_block={k: round(v, 1) for k, v in cpu_per_block.items()},
        histories_per_axis_value=dict(sorted(per_axis.items())),
        distinct_model_states=len(models),
        histories_accepted=tot["ok"],
        histories_agreeing_with_fold=tot["agree"],
        histories_with_only_inherited_deviation=tot["inherited"],
        auxiliary_runs=tot["aux"],
        last_source_classes=sorted(last),
        histories_in_which_an_empty_value_overrides_or_is_built_upon=tot["empty_overrides"],
        histories_in_which_the_same_config_file_is_applied_more_than_once=tot["file_twice"],
        histories_on_a_used_parser=tot["used_parser"],
        env_prefix_shapes=NAMING,
        source_classes_assigning_an_empty_value=sorted(empty),
        source_classes_giving_a_document_that_assigns_nothing=sorted(nothing),
    )
    ctx.assume("the explicit config of parse_string / parse_object / parse_path is the last source (after the environment)")
    ctx.assume("bookkeeping keys (cfg, __default_config__, __path__) are not judged")
    if not os.environ.get("VERIF_C04_ONLY"):
        ctx.require(tot["n"] > 20000, "more than 20000 histories executed")
        ctx.require(len(models) > 1000, "more than 1000 distinct final states of the fold")
        ctx.require({"set", "append", "item"} <= ops, "all three update rules exercised")
        want_axes = (
            [f"shape={x}" for x in ("flat", "dc", "flat0", "nest", "sub")]
            + [f"mode={x}" for x in ALL_MODES]
            + [f"method={x}" for x in ("parse_args", "get_defaults", "parse_env", "parse_env_dict", "parse_string", "parse_object", "parse_path")]
            + ["environment=applies", "environment=ignored"]
        )
        ctx.require(all(per_axis[a] >= 50 for a in want_axes), "every shape, env mode and parse method has at least 50 histories")
        ctx.require(
            {"code_default", "default_config", "env_config", "env_var", "cli", "given", "root-level-config"} <= last,
            "every source class is the last writer in some history",
        )
        ctx.require(
            {"default_config", "env_config", "env_var", "cli", "given", "root-level-config"} <= empty,
            "every source class assigns an empty value (\"\" / 0 / [] / {}) in some history",
        )
        ctx.require({"default_config", "env_config", "cli", "given"} <= nothing, "every config source class gives an empty document in some history")
        ctx.require(tot["empty_overrides"] >= 2000, "at least 2000 histories in which an empty value overrides a non-empty one or is built upon")
        ctx.require(tot["file_twice"] >= 1000, "at least 1000 histories in which one and the same config file is applied more than once")
        ctx.require(
            all(per_axis["env-prefix=" + n] >= 100 for n in NAMING),
            "every shape of the environment prefix has at least 100 histories in which environment sources are given and apply",
        )
        used_axes = [f"used-parser:changed-after-the-first-call={w}" for w in ("nothing", "env_prefix", "default_env", "default_config_files", "content-of-the-sources")]
        used_axes += [f"used-parser:first-call={f}" for f in ("args", "env", "defaults", "same")]
        ctx.require(
            all(per_axis[a] >= 50 for a in used_axes),
            "a used parser: every kind of change between the first and the judged call, and every kind of first call, has at least 50 histories",
        )
