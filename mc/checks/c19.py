"""C19 - path types accept exactly what the mode says; relative paths follow the config.

Exhaustive enumeration of environment answers, executed on the real `jsonargparse.Path` / `path_type` classes and on
real parsers:

 (1) virtual file system (c19_vfs): every mutually consistent abstract state of the chain
     prefix / grandparent / parent / leaf (kind and R, W, X answer of every node)  x  every admissible mode string of
     up to 3 (quick) / 4 (thorough) flags over fdrwxcFDRWX + cc in every character order  x  absolute / cwd-relative
     spelling  x  4 ways of constructing the path object;
 (2) real file system (c19_real): ~55 path kinds x 3 working directories x 3 resolutions x every flag set (one
     spelling each), as root and in a forked child running as uid nobody; plus the same kinds through a parser argument;
 (3) relative-path clause (c19_nest): chains of up to 3 nested files in all assignments of directories, reached through
     --config / parse_path / default_config_files / parse_string / a sub-config argument, nested through ActionParser,
     dataclass group, subclass argument or list file; one slot per case invalid or broken, or one level appending to
     its list of paths with `files+:`; parse_path also given Path / os.PathLike objects that remember another
     directory; cwd and the context variable compared before / after every parse; nested relative_path_context()
     blocks of Path objects created here, elsewhere or with cwd=;
 (4) the admission rule of the mode language itself (every string of up to 4 / 5 characters).

Judged by the mode predicate of c19_oracle (written from the documented flag meanings).
"""
from __future__ import annotations

import contextlib
import itertools
import json
import os

from mc.checks import c19_nest, c19_oracle, c19_real, c19_vfs
from mc.checks.c19_oracle import flags_of, path_class, violated, without_flag

META = {
    "id": "C19",
    "level": "fault_enumeration",
    "engine": "exhaustive environment-answer enumeration on the real Path class (mc/checks/c19.py: virtual file system, "
    "real-file-system conformance run incl. an unprivileged child, nested-config directory enumeration)",
    "technique": "exhaustive enumeration of file-system answers (virtual FS states x all modes) and of nested config "
    "directory layouts, judged by an os-level mode predicate and a directory-resolution oracle",
    "level_text": "Every mutually consistent abstract file state of a 3-deep directory chain (kind and R/W/X answer of "
    "each node) is combined with every admissible mode string up to the stated number of flags, in every character "
    "order, and executed on the real Path class with os.stat/os.lstat/os.access answered from the abstract state; the "
    "same flag sets (one spelling each) are run against ~55 real path kinds from 3 working directories as root and as uid nobody; nested "
    "config chains up to 3 deep are enumerated over all directory assignments, reference spellings, entry channels, "
    "nesting mechanisms and single invalid/broken positions, plus '+' appends of relative paths inside the files and "
    "entry files handed over as Path / os.PathLike objects that remember another directory. Acceptance, the exception type, .relative/.absolute and "
    "the restored working directory are judged on every case. The verdict is exhaustive within these bounds.",
    "level_note": "Trusted: the mode predicate (c19_oracle.violated, 50 lines, from the Path docstring), the kernel-walk "
    "model of the virtual file system (c19_vfs.lookup, no symbolic links), os.stat/os.access/os.path.realpath as the "
    "observation of the real file system. Not explored: url / fsspec modes (u, s), Windows paths, symbolic-link loops, "
    "races between check and use, ACLs. 'c' is judged as documented (parent directory exists and is writeable), not "
    "as 'open(path, \"w\") would succeed'.",
    "design_ref": "DESIGN.md §5 C19",
}

APIS = ["Path", "type", "rewrap", "pathlike"]


def max_flags(tier):
    return 3 if tier == "quick" else 4


# =====================================================================================================
# judging one (path, environment) against all modes


class _PL:
    """Minimal os.PathLike that preserves the spelling exactly."""

    def __init__(self, s):
        self.s = s

    def __fspath__(self):
        return self.s


def construct(J, api, spelling, mode, cwd_arg):
    kw = {} if cwd_arg is None else {"cwd": cwd_arg}
    if api == "Path":
        return J.Path(spelling, mode=mode, **kw)
    if api == "type":
        from jsonargparse.typing import path_type

        return path_type(mode)(spelling, **kw)
    if api == "rewrap":
        return J.Path(J.Path(spelling, mode="", **kw), mode=mode)
    if api == "pathlike":
        return J.Path(_PL(spelling), mode=mode, **kw)
    raise AssertionError(api)


def attempt(J, api, spelling, mode, cwd_arg):
    """-> ("accept", obj) | ("reject", exc) | ("escape", exc)"""
    try:
        return "accept", construct(J, api, spelling, mode, cwd_arg)
    except TypeError as ex:
        return "reject", ex
    except Exception as ex:  # noqa: BLE001
        return "escape", ex


def _minimal(J, api, spelling, mode, cwd_arg, stop, facts):
    """Smallest sub-mode (flags removed one at a time while the deviation persists) -> (flag text, class).

    An escape is wrong for any mode; a rejection is wrong for every sub-mode that the oracle still accepts.  The
    reduced mode names the flags that are needed to provoke the deviation."""
    cur = mode
    for f in flags_of(mode):
        cand = without_flag(cur, f)
        if stop == "reject" and violated(cand, facts) != ([], None):
            continue  # (removing c changes what f / d demand: the reduced mode must still be one that holds)
        if attempt(J, api, spelling, cand, cwd_arg)[0] == stop:
            cur = cand
    flags = flags_of(cur)
    if not flags:
        return "any-mode", facts["kind"]
    creat = [f for f in flags if f in ("c", "cc")]
    cls = path_class(creat[0], facts) if creat and len(flags) > 1 or flags[0] in ("c", "cc") else facts["kind"]
    return "+".join(flags), cls


def _api_prefix(J, api, spelling, mode, cwd_arg, res):
    """A construction route is named in the signature only when the plain constructor behaves differently."""
    if api == "Path":
        return ""
    base, _ = attempt(J, "Path", spelling, mode, cwd_arg)
    return "" if base == res else f"via-{api}:"


def judge(J, api, spelling, mode, cwd_arg, facts, abs_check, verdict=None):
    """Run ONE construction on the real code and compare with the oracle.  -> (list of (signature, detail), outcome)."""
    bad, unjudged = verdict if verdict is not None else violated(mode, facts)
    res, val = attempt(J, api, spelling, mode, cwd_arg)
    devs = []
    if res == "escape":
        flag, cls = _minimal(J, api, spelling, mode, cwd_arg, "escape", facts)
        devs.append((f"{_api_prefix(J, api, spelling, mode, cwd_arg, res)}escape:{type(val).__name__}:{flag}:{cls}", f"{type(val).__name__}: {val}"))
        return devs, res
    if unjudged is None:
        if res == "accept" and bad:
            flag = bad[0]
            devs.append((f"{_api_prefix(J, api, spelling, mode, cwd_arg, res)}accepts:{flag}:{path_class(flag, facts)}", f"accepted although {bad} do not hold; facts {json.dumps(facts)}"))
        elif res == "reject" and not bad:
            flag, cls = _minimal(J, api, spelling, mode, cwd_arg, "reject", facts)
            devs.append((f"{_api_prefix(J, api, spelling, mode, cwd_arg, res)}rejects:{flag}:{cls}", f"rejected ({val}) although every flag holds; facts {json.dumps(facts)}"))
    if res == "accept":
        obj = val
        if obj.relative != spelling or str(obj) != spelling or obj(absolute=False) != spelling:
            devs.append((f"wrong-relative:{api}", f".relative={obj.relative!r} str={str(obj)!r}, given {spelling!r}"))
        if obj.mode != mode and api != "type":
            devs.append((f"wrong-mode-attribute:{api}", f".mode={obj.mode!r}, given {mode!r}"))
        if abs_check is not None:
            a = obj.absolute
            if obj() != a or os.fspath(obj) != a:
                devs.append((f"absolute-inconsistent:{api}", f".absolute={a!r} ()={obj()!r} fspath={os.fspath(obj)!r}"))
            problem = abs_check(a)
            if problem:
                devs.append((f"wrong-absolute:{api}", problem))
    return devs, res


def _maker(J, api, cwd_arg):
    """Construction route as a two-argument function (kept flat: this is the hot loop)."""
    Path = J.Path
    if api == "Path":
        if cwd_arg is None:
            return lambda sp, mode: Path(sp, mode=mode)
        return lambda sp, mode: Path(sp, mode=mode, cwd=cwd_arg)
    if api == "type":
        from jsonargparse.typing import path_type

        if cwd_arg is None:
            return lambda sp, mode: path_type(mode)(sp)
        return lambda sp, mode: path_type(mode)(sp, cwd=cwd_arg)
    if api == "rewrap":
        if cwd_arg is None:
            return lambda sp, mode: Path(Path(sp, mode=""), mode=mode)
        return lambda sp, mode: Path(Path(sp, mode="", cwd=cwd_arg), mode=mode)
    if cwd_arg is None:
        return lambda sp, mode: Path(_PL(sp), mode=mode)
    return lambda sp, mode: Path(_PL(sp), mode=mode, cwd=cwd_arg)


def run_block(J, modes, canon_modes, spelling, cwd_arg, facts, abs_check, base_case, counters, skip_pathlike=False):
    """All modes x all construction routes for one path in one environment state.  -> (devs [(sig, case, detail)], n)

    The loop body is the fast path (construction + comparison of the verdict and the attributes); any disagreement is
    re-executed through `judge`, which derives the signature."""
    devs = []
    n = 0
    verdicts = {}
    abs_ok = {}
    fspath = os.fspath
    n_accept = n_reject = n_escape = n_unjudged = n_nontrivial = 0
    for api in APIS:
        if api == "pathlike" and skip_pathlike:
            continue
        make = _maker(J, api, cwd_arg)
        check_mode_attr = api != "type"
        for mode, flags in modes if api == "Path" else canon_modes:
            v = verdicts.get(flags)
            if v is None:
                v = verdicts[flags] = violated(mode, facts)
                for f in flags:
                    key = "flag:" + f + (":violated" if f in v[0] else ":holds")
                    counters[key] = counters.get(key, 0) + 1
            n += 1
            slow = False
            try:
                obj = make(spelling, mode)
            except TypeError:
                n_reject += 1
                if v[1] is None and not v[0]:
                    slow = True
            except Exception:  # noqa: BLE001
                n_escape += 1
                slow = True
            else:
                n_accept += 1
                if v[1] is None and v[0]:
                    slow = True
                else:
                    a = obj.absolute
                    if obj.relative != spelling or str(obj) != spelling or obj() != a or fspath(obj) != a or (check_mode_attr and obj.mode != mode):
                        slow = True
                    elif abs_check is not None:
                        ok = abs_ok.get(a)
                        if ok is None:
                            ok = abs_ok[a] = abs_check(a) is None
                        if not ok:
                            slow = True
            if v[1] is not None:
                n_unjudged += 1
            elif flags and len(v[0]) <= 1:
                n_nontrivial += 1
            if slow:
                d, _ = judge(J, api, spelling, mode, cwd_arg, facts, abs_check, v)
                for sig, detail in d:
                    devs.append((sig, dict(base_case, api=api, mode=mode), detail))
    for key, val in (("accept", n_accept), ("reject", n_reject), ("escape", n_escape), ("unjudged", n_unjudged), ("nontrivial", n_nontrivial)):
        counters[key] = counters.get(key, 0) + val
    return devs, n


# =====================================================================================================
# (1) virtual file system


VFS_SPELLINGS = {
    "abs": (c19_vfs.LEAF, None),
    "rel": ("leaf", c19_vfs.P),
}


def _vfs_abs_check(expected):
    def check(a):
        if not os.path.isabs(a) or os.path.normpath(a) != expected:
            return f".absolute={a!r}, expected {expected!r}"
        return None

    return check


def vfs_item(arg):
    """Worker: a chunk of abstract states x all modes."""
    import jsonargparse as J

    states, tier = arg
    modes = c19_oracle.all_modes(max_flags(tier), True)
    canon = c19_oracle.all_modes(max_flags(tier), False)
    out = {"devs": [], "n": 0, "counters": {}, "states": 0, "kinds": set()}
    with c19_vfs.installed() as vfs:
        for state in states:
            vfs.nodes = c19_vfs.nodes_of(state)
            facts = c19_vfs.facts_for(vfs.nodes, c19_vfs.LEAF)
            out["kinds"].add(f"{facts['kind']}/{facts['parent']['kind']}/{facts['nearest']['kind']}")
            for sp_name, (spelling, cwd_arg) in VFS_SPELLINGS.items():
                base = {"env": "vfs", "state": state, "spelling": sp_name}
                devs, n = run_block(J, modes, canon, spelling, cwd_arg, facts, _vfs_abs_check(c19_vfs.LEAF), base, out["counters"])
                out["devs"] += devs
                out["n"] += n
                out["states"] += 1
        out["counters"]["vfs-os-calls"] = vfs.calls
        out["asked"] = sorted(vfs.asked)
    out["kinds"] = sorted(out["kinds"])
    return _shrink(out)


def _shrink(out, keep=40):
    """Keep the result picklable and small: at most `keep` deviations per signature (smallest first)."""
    by = {}
    for sig, case, detail in out["devs"]:
        by.setdefault(sig, []).append((len(json.dumps(case, sort_keys=True)), json.dumps(case, sort_keys=True), case, detail))
    devs = []
    counts = {}
    for sig, lst in by.items():
        counts[sig] = len(lst)
        lst.sort(key=lambda t: t[:2])
        devs += [(sig, c, d) for _, _, c, d in lst[:keep]]
    out["devs"] = devs
    out["dev_counts"] = counts
    return out


def run_vfs_case(case):
    import jsonargparse as J

    spelling, cwd_arg = VFS_SPELLINGS[case["spelling"]]
    with c19_vfs.installed() as vfs:
        vfs.nodes = c19_vfs.nodes_of(case["state"])
        facts = c19_vfs.facts_for(vfs.nodes, c19_vfs.LEAF)
        devs, _ = judge(J, case["api"], spelling, case["mode"], cwd_arg, facts, _vfs_abs_check(c19_vfs.LEAF))
    return devs


# =====================================================================================================
# (2) real file system

@contextlib.contextmanager
def _scratch(build):
    """A fresh fixture tree for ONE work item, world-traversable (for the nobody child), removed afterwards.

    The driver terminates its workers without running their exit handlers, so nothing is kept per process: the tree is
    rebuilt per item (a few ms) and the per-process scratch root is removed again when it is empty."""
    from mc.util import scratch_dir, scratch_root

    os.chmod(scratch_root(), 0o755)
    try:
        with scratch_dir() as root:
            try:
                build(root)
                yield root
            finally:
                _make_removable(root)
    finally:
        try:
            os.rmdir(scratch_root())
        except OSError:
            pass


def _real_abs_check(expected_real):
    def check(a):
        if not os.path.isabs(a) or os.path.realpath(a) != expected_real:
            return f".absolute={a!r} (real {os.path.realpath(a)!r}), the oracle resolves to {expected_real!r}"
        return None

    return check


def _real_setup(root, kind, cwd_name, resolution):
    """-> (spelling, process cwd, cwd argument, oracle's absolute path, oracle's real path)"""
    for res, spelling, proc_cwd, cwd_arg in c19_real.spellings(root, kind, cwd_name):
        if res == resolution:
            break
    else:
        raise KeyError(resolution)
    base_dir = cwd_arg or proc_cwd
    expanded = os.path.expanduser(spelling)
    oracle_abs = expanded if os.path.isabs(expanded) else os.path.join(base_dir, expanded)
    return spelling, proc_cwd, cwd_arg, oracle_abs


def _real_block(root, kind, cwd_name, tier, uid):
    """All resolutions x all modes for one (path kind, working directory) with the current credentials."""
    import jsonargparse as J

    # character order of a mode is an axis of the virtual-file-system run; here every flag set is spelled once
    canon = c19_oracle.all_modes(max_flags(tier), False)
    modes = canon
    out = {"devs": [], "n": 0, "counters": {}, "states": 0, "kinds": []}
    saved = os.getcwd()
    try:
        for resolution, _, _, _ in c19_real.spellings(root, kind, cwd_name):
            spelling, proc_cwd, cwd_arg, oracle_abs = _real_setup(root, kind, cwd_name, resolution)
            os.chdir(proc_cwd)
            facts = c19_real.real_facts(oracle_abs)
            out["kinds"].append(f"{facts['kind']}/{facts['parent']['kind']}/{facts['nearest']['kind']}/{facts['R']}{facts['W']}{facts['X']}")
            base = {"env": "real", "uid": uid, "kind": kind, "cwd": cwd_name, "resolution": resolution}
            if kind == "-":
                devs, n = _stdio_block(J, modes, canon, spelling, cwd_arg, base, out["counters"])
            else:
                check = _real_abs_check(os.path.realpath(oracle_abs))
                devs, n = run_block(J, modes, canon, spelling, cwd_arg, facts, check, base, out["counters"])
            out["devs"] += devs
            out["n"] += n
            out["states"] += 1
            if os.getcwd() != proc_cwd:
                out["devs"].append(("cwd-changed-by-Path", dict(base, api="Path", mode=""), f"{proc_cwd!r} -> {os.getcwd()!r}"))
    finally:
        os.chdir(saved)
    out = _shrink(out)
    out["kinds"] = sorted(set(out["kinds"]))
    return out


def _stdio_block(J, modes, canon, spelling, cwd_arg, base, counters):
    """'-' stands for standard input / output: accepted whatever the mode, spelled '-' (documented in the class)."""
    devs, n = [], 0
    for api in ("Path", "type", "rewrap"):
        for mode, _ in modes if api == "Path" else canon:
            res, val = attempt(J, api, spelling, mode, cwd_arg)
            n += 1
            counters["stdio"] = counters.get("stdio", 0) + 1
            if res != "accept":
                devs.append((f"stdio-dash:{res}", dict(base, api=api, mode=mode), f"{type(val).__name__}: {val}"))
            elif val.relative != "-" or str(val) != "-":
                devs.append(("stdio-dash:wrong-relative", dict(base, api=api, mode=mode), repr(val.relative)))
    return devs, n


def _merge(a, b):
    a["devs"] += b["devs"]
    a["n"] += b["n"]
    a["states"] += b["states"]
    a["kinds"] = sorted(set(a["kinds"]) | set(b["kinds"]))
    for k, v in b["counters"].items():
        a["counters"][k] = a["counters"].get(k, 0) + v
    for k, v in b.get("dev_counts", {}).items():
        a.setdefault("dev_counts", {})[k] = a.get("dev_counts", {}).get(k, 0) + v
    return a


def _warm_up():
    """Import everything the unprivileged child will need (it cannot read the interpreter's library directory)."""
    import jsonargparse as J
    import jsonargparse.typing  # noqa: F401

    for api in APIS:
        for mode in ("", "fr", "dcc", "FDRWX"):
            attempt(J, api, "/", mode, None)
            attempt(J, api, "~", mode, "/")
    json.dumps({"a": [1.5, None, True]})
    os.path.realpath("/tmp/../tmp")
    os.path.relpath("/tmp", "/")


def real_item(arg):
    """Worker: one (path kind, working directory): as root in-process, then as nobody in a forked child."""
    kind, cwd_name, tier = arg
    saved_home = os.environ.get("HOME")
    with _scratch(c19_real.build_fixture) as root:
        os.environ["HOME"] = os.path.join(root, "base", "home")
        try:
            _warm_up()
            out = _real_block(root, kind, cwd_name, tier, "root")
            out["nobody"] = False
            if c19_real.can_drop_privileges():
                try:
                    child = c19_real.as_nobody(_real_block, root, kind, cwd_name, tier, "nobody")
                except RuntimeError as ex:
                    out["nobody_error"] = str(ex)[:600]
                else:
                    child["devs"] = [tuple(d) for d in child["devs"]]
                    child["counters"] = {"nobody:" + k: v for k, v in child["counters"].items()}
                    _merge(out, child)
                    out["nobody"] = True
        finally:
            if saved_home is None:
                os.environ.pop("HOME", None)
            else:
                os.environ["HOME"] = saved_home
    return out


def _real_one(root, case):
    import jsonargparse as J

    spelling, proc_cwd, cwd_arg, oracle_abs = _real_setup(root, case["kind"], case["cwd"], case["resolution"])
    saved = os.getcwd()
    try:
        os.chdir(proc_cwd)
        if case["kind"] == "-":
            devs, _ = _stdio_block(J, [(case["mode"], ())], [], spelling, cwd_arg, {}, {})
            return [(s, d) for s, _, d in devs] if case["api"] == "Path" else []
        facts = c19_real.real_facts(oracle_abs)
        devs, _ = judge(J, case["api"], spelling, case["mode"], cwd_arg, facts, _real_abs_check(os.path.realpath(oracle_abs)))
        return devs
    finally:
        os.chdir(saved)


def run_real_case(case):
    saved_home = os.environ.get("HOME")
    with _scratch(c19_real.build_fixture) as root:
        os.environ["HOME"] = os.path.join(root, "base", "home")
        try:
            _warm_up()
            if case["uid"] == "nobody":
                devs = [tuple(d) for d in c19_real.as_nobody(_real_one, root, case)]
            else:
                devs = _real_one(root, case)
        finally:
            if saved_home is None:
                os.environ.pop("HOME", None)
            else:
                os.environ["HOME"] = saved_home
    return devs


def _make_removable(root):
    for d, dirs, _ in os.walk(root):
        for name in dirs:
            p = os.path.join(d, name)
            if not os.path.islink(p):
                os.chmod(p, 0o755)


# ---- the same path kinds through a parser argument --------------------------------------------------

PREDEFINED = ["fr", "fc", "dw", "dc", "drw"]


def parser_modes(tier):
    k = 1 if tier == "quick" else 2
    modes = [m for m, _ in c19_oracle.all_modes(k, False)]
    return modes + [m for m in PREDEFINED if m not in modes]


def _parse_one(J, mode, spelling, facts, oracle_real, proc_cwd):
    """parse_args(['--p=<spelling>']) with a path_type(mode) argument.  -> (devs, outcome kind)"""
    from jsonargparse.typing import path_type

    from mc.util import outcome

    parser = J.ArgumentParser(exit_on_error=False)
    parser.add_argument("--p", type=path_type(mode))
    o = outcome(parser.parse_args, ["--p=" + spelling])
    stdio = spelling == "-"  # standard input / output: accepted whatever the mode, no location to compare
    bad, unjudged = ([], None) if stdio else violated(mode, facts)
    devs = []
    if os.getcwd() != proc_cwd:
        devs.append(("parser:cwd-changed", f"{proc_cwd!r} -> {os.getcwd()!r}"))
    # the type called directly: a deviation the parser merely passes on keeps the signature of the type-level one
    direct_devs, direct = judge(J, "type", spelling, mode, None, facts, None, (bad, unjudged))
    same = {"ok": "accept", "ArgumentError": "reject"}.get(o["kind"], "escape") == direct
    if o["kind"] not in ("ok", "ArgumentError"):
        if same:
            devs += [(s_, d_) for s_, d_ in direct_devs if "escape:" in s_]
        else:
            devs.append((f"parser:escape:{o.get('type', o['kind'])}:{facts['kind']}", str(o.get("message", ""))[:300]))
    elif unjudged is None:
        if o["kind"] == "ok" and bad:
            if same:
                devs += [(s_, d_) for s_, d_ in direct_devs if s_.startswith("accepts:")]
            else:
                devs.append((f"parser:accepts:{bad[0]}:{path_class(bad[0], facts)}", f"accepted although {bad} do not hold"))
        elif o["kind"] == "ArgumentError" and not bad:
            if same:
                devs += [(s_, d_) for s_, d_ in direct_devs if s_.startswith("rejects:")]
            else:
                devs.append((f"parser:rejects:{facts['kind']}", o["message"][:300]))
    if o["kind"] == "ok":
        p = o["value"].p
        if not isinstance(p, J.Path):
            devs.append(("parser:value-not-a-Path", repr(p)))
        else:
            if p.relative != spelling:
                devs.append(("parser:wrong-relative", f"{p.relative!r}, given {spelling!r}"))
            if not stdio and (not os.path.isabs(p.absolute) or os.path.realpath(p.absolute) != oracle_real):
                devs.append(("parser:wrong-absolute", f"{p.absolute!r}, oracle {oracle_real!r}"))
    return devs, o["kind"]


def realparse_item(arg):
    import jsonargparse as J

    kind, cwd_name, tier = arg
    out = {"devs": [], "n": 0, "counters": {}, "states": 0, "kinds": []}
    saved = os.getcwd()
    saved_home = os.environ.get("HOME")
    with _scratch(c19_real.build_fixture) as root:
        os.environ["HOME"] = os.path.join(root, "base", "home")
        try:
            for resolution, _, _, cwd_arg in c19_real.spellings(root, kind, cwd_name):
                if cwd_arg is not None:
                    continue  # a parser has no cwd argument
                spelling, proc_cwd, _, oracle_abs = _real_setup(root, kind, cwd_name, resolution)
                os.chdir(proc_cwd)
                facts = c19_real.real_facts(oracle_abs)
                out["states"] += 1
                for mode in parser_modes(tier):
                    devs, res = _parse_one(J, mode, spelling, facts, os.path.realpath(oracle_abs), proc_cwd)
                    out["n"] += 1
                    out["counters"]["parser:" + res] = out["counters"].get("parser:" + res, 0) + 1
                    base = {"env": "real-parser", "kind": kind, "cwd": cwd_name, "resolution": resolution, "mode": mode}
                    out["devs"] += [(s, base, d) for s, d in devs]
        finally:
            os.chdir(saved)
            if saved_home is None:
                os.environ.pop("HOME", None)
            else:
                os.environ["HOME"] = saved_home
    return _shrink(out)


def run_realparse_case(case):
    import jsonargparse as J

    saved = os.getcwd()
    saved_home = os.environ.get("HOME")
    with _scratch(c19_real.build_fixture) as root:
        os.environ["HOME"] = os.path.join(root, "base", "home")
        try:
            spelling, proc_cwd, _, oracle_abs = _real_setup(root, case["kind"], case["cwd"], case["resolution"])
            os.chdir(proc_cwd)
            facts = c19_real.real_facts(oracle_abs)
            devs, _ = _parse_one(J, case["mode"], spelling, facts, os.path.realpath(oracle_abs), proc_cwd)
        finally:
            os.chdir(saved)
            if saved_home is None:
                os.environ.pop("HOME", None)
            else:
                os.environ["HOME"] = saved_home
    return devs


# =====================================================================================================
# (3) nested configs

def nest_item(arg):
    cases = arg
    out = {"devs": [], "n": 0, "counters": {}, "states": 0, "kinds": []}
    with _scratch(c19_nest.build_tree) as root:
        for case in cases:
            devs, info = c19_nest.run_nest(case, root)
            out["n"] += 1
            key = f"nest:{info['kind']}:{'valid' if info['want_ok'] else 'invalid'}"
            out["counters"][key] = out["counters"].get(key, 0) + 1
            axes = []
            if "app" in case:
                axes += [f"app={case['app'][1]}", f"appshape={case['app'][3] if len(case['app']) > 3 else 'list'}"]
            if "entry" in case:
                axes.append(f"entry={case['entry']}")
            if case.get("exit"):
                axes.append(f"exit={case['channel']}")
            for axis in axes:
                key = f"axis:{axis}:{info['kind']}:{'valid' if info['want_ok'] else 'invalid'}"
                out["counters"][key] = out["counters"].get(key, 0) + 1
            out["devs"] += [(s, case, d) for s, d in devs]
    return _shrink(out)


def ctx_item(arg):
    cases = arg
    out = {"devs": [], "n": 0, "counters": {}, "states": 0, "kinds": []}
    with _scratch(c19_nest.build_tree) as root:
        for case in cases:
            devs, info = c19_nest.run_ctx(case, root)
            out["n"] += 1
            key = f"ctx:entered={info['entered']}:{'raised' if info['raised'] else 'returned'}"
            out["counters"][key] = out["counters"].get(key, 0) + 1
            if info["entered"] == 3:
                out["counters"][f"axis:ctx-body={case['raise']}"] = out["counters"].get(f"axis:ctx-body={case['raise']}", 0) + 1
            for step in info["valid_kinds"]:
                out["counters"]["axis:ctx-step-valid=" + step] = out["counters"].get("axis:ctx-step-valid=" + step, 0) + 1
            out["devs"] += [(s, case, d) for s, d in devs]
    return _shrink(out)


def run_ctx_case(case):
    with _scratch(c19_nest.build_tree) as root:
        devs, _ = c19_nest.run_ctx(case, root)
    return devs


def run_nest_case(case):
    with _scratch(c19_nest.build_tree) as root:
        devs, _ = c19_nest.run_nest(case, root)
    return devs


# =====================================================================================================
# (4) admission rule of the mode language


def mode_strings_upto(n):
    for k in range(n + 1):
        for t in itertools.product(c19_oracle.ALPHABET + "z", repeat=k):
            yield "".join(t)


def _admission(J, mode):
    from jsonargparse.typing import path_type

    want = c19_oracle.admissible(mode)
    devs = []
    if want:
        # path_type keeps ONE class per flag set (first spelling wins): register the canonical spelling first, so that
        # which class a worker process holds never depends on the order in which work items reach it
        try:
            path_type("".join(flags_of(mode)))
        except Exception:  # noqa: BLE001 - reported below through the canonical string's own case
            pass
    for name, fn in (("Path", lambda: J.Path("-", mode=mode)), ("path_type", lambda: path_type(mode))):
        try:
            fn()
            got = True
        except ValueError:
            got = False
        except Exception as ex:  # noqa: BLE001
            devs.append((f"mode-admission:escape:{type(ex).__name__}:{name}", f"{mode!r}: {ex}"))
            continue
        if got != want:
            devs.append((f"mode-admission:{'admits-invalid' if got else 'refuses-valid'}:{name}", f"mode {mode!r}"))
    return devs


def admission_item(arg):
    import jsonargparse as J

    out = {"devs": [], "n": 0, "counters": {}, "states": 0, "kinds": []}
    for mode in arg:
        devs = _admission(J, mode)
        out["n"] += 1
        key = "admission:" + ("valid" if c19_oracle.admissible(mode) else "invalid")
        out["counters"][key] = out["counters"].get(key, 0) + 1
        out["devs"] += [(s, {"env": "mode", "mode": mode}, d) for s, d in devs]
    return _shrink(out)


# =====================================================================================================
# driver interface


def run_case(case):
    env = case["env"]
    if env == "vfs":
        devs = run_vfs_case(case)
    elif env == "real":
        devs = run_real_case(case)
    elif env == "real-parser":
        devs = run_realparse_case(case)
    elif env == "nest":
        devs = run_nest_case(case)
    elif env == "ctx":
        devs = run_ctx_case(case)
    elif env == "mode":
        import jsonargparse as J

        devs = _admission(J, case["mode"])
    else:
        raise ValueError(env)
    return [{"signature": s, "detail": d} for s, d in devs]


def _work(arg):
    kind, payload = arg
    fn = {"vfs": vfs_item, "real": real_item, "realparse": realparse_item, "nest": nest_item, "ctx": ctx_item, "admission": admission_item}[kind]
    out = fn(payload)
    out["part"] = kind
    return out


def _chunks(seq, n):
    return [seq[i : i + n] for i in range(0, len(seq), n)]


def explore(ctx):
    tier = ctx.tier
    items = []
    states = c19_vfs.all_states(full_ancestor_perms=not ctx.quick)
    items += [("vfs", (chunk, tier)) for chunk in _chunks(states, 2 if ctx.quick else 1)]
    kinds = c19_real.TREE_KINDS + c19_real.SPECIAL_KINDS
    items += [("real", (k, c, tier)) for k in kinds for c in c19_real.CWDS]
    items += [("realparse", (k, c, tier)) for k in kinds for c in c19_real.CWDS]
    nest = c19_nest.nest_cases(tier)
    items += [("nest", chunk) for chunk in _chunks(nest, 60)]
    ctxc = c19_nest.ctx_cases(tier)
    items += [("ctx", chunk) for chunk in _chunks(ctxc, 100)]
    adm = list(mode_strings_upto(4 if ctx.quick else 5))
    items += [("admission", chunk) for chunk in _chunks(adm, 4000)]

    total = {"vfs": 0, "real": 0, "realparse": 0, "nest": 0, "ctx": 0, "admission": 0}
    env_states = dict(total)
    counters = {}
    kinds_seen = {"vfs": set(), "real": set()}
    nobody_runs = nobody_fail = 0
    nobody_error = None
    asked = set()
    dev_counts = {}
    for out in ctx.pmap(_work, items, chunk=1):
        part = out["part"]
        total[part] += out["n"]
        env_states[part] += out["states"]
        prefix = part + ":" if part in ("vfs", "real") else ""
        for k, v in out["counters"].items():
            counters[prefix + k] = counters.get(prefix + k, 0) + v
        if part in kinds_seen:
            kinds_seen[part].update(out["kinds"])
        if part == "real":
            if out.get("nobody"):
                nobody_runs += 1
            elif "nobody_error" in out:
                nobody_fail += 1
                nobody_error = out["nobody_error"]
        asked.update(out.get("asked", ()))
        for sig, case, detail in out["devs"]:
            ctx.deviation(sig, case, detail)
        for sig, n in out.get("dev_counts", {}).items():
            dev_counts[sig] = dev_counts.get(sig, 0) + n
    # occurrences: the workers keep at most 40 witnesses per signature, the true count is carried separately
    for sig, n in dev_counts.items():
        if sig in ctx.deviations:
            ctx.deviations[sig]["_count"] = n
    for k, v in sorted(counters.items()):
        ctx.count(k, v)

    nmodes = len(c19_oracle.all_modes(max_flags(tier), True))
    evaluations = sum(total.values())
    nontrivial = counters.get("vfs:nontrivial", 0) + counters.get("real:nontrivial", 0) + counters.get("real:nobody:nontrivial", 0)
    nest_nontrivial = sum(v for k, v in counters.items() if k.startswith(("nest:", "ctx:")))
    ctx.sample({"env": "vfs", "state": states[0], "spelling": "abs", "api": "Path", "mode": "fr"})
    ctx.sample({"env": "vfs", "state": states[len(states) // 2], "spelling": "rel", "api": "type", "mode": "dcc"})
    ctx.sample({"env": "vfs", "state": states[-1], "spelling": "abs", "api": "Path", "mode": "WcFc"[: max_flags(tier) + 1]})
    ctx.sample({"env": "real", "uid": "nobody", "kind": "dir_ro/nodir/missing", "cwd": "nested", "resolution": "rel", "api": "Path", "mode": "dcc"})
    ctx.sample({"env": "real-parser", "kind": "link_dangling", "cwd": "other", "resolution": "abs", "mode": "fc"})
    for c in (nest[0], nest[len(nest) // 2], nest[-1]):
        ctx.sample(c)
    ctx.sample(ctxc[len(ctxc) // 2])
    ctx.sample({"env": "mode", "mode": "cfc"})
    ctx.cover(
        evaluations=evaluations,
        states=sum(env_states.values()) + total["nest"] + total["ctx"],
        transitions=evaluations,
        traces_validated_against_impl=evaluations,
        distinct_nontrivial=nontrivial + nest_nontrivial,
        rule="a case is one construction of a path object (environment state, spelling, construction route, mode "
        "string) or one parse of a nested-config layout, each enumerated exactly once; non-trivial = the mode has at "
        "least one flag and the oracle's verdict hinges on at most one flag (accepted, or exactly one flag violated), "
        "plus every nested-config parse and every nested-context sequence (each a distinct layout / invalid position)",
        exhaustive=True,
        caps_hit=[],
        bounds={
            "max_flags": max_flags(tier),
            "mode_strings": nmodes,
            "flag_sets": len(c19_oracle.flag_sets(max_flags(tier))),
            "vfs_states": len(states),
            "vfs_spellings": list(VFS_SPELLINGS),
            "construction_routes": APIS,
            "real_path_kinds": len(kinds),
            "working_directories": list(c19_real.CWDS),
            "nest_depth": 3,
            "nest_dirs": c19_nest.DIRS[tier],
            "nest_matrix": [list(p) for p in c19_nest.matrix(tier)],
            "nest_append_modes": c19_nest.APPEND_MODES,
            "nest_append_shapes": c19_nest.APPEND_SHAPES,
            "nest_exit_on_error": [False, True],
            "context_body_exits": c19_nest.CTX_EXITS,
            "nest_entry_forms": c19_nest.ENTRY_FORMS,
            "context_steps": c19_nest.CTX_STEPS,
            "admission_string_length": 4 if ctx.quick else 5,
        },
        per_part_evaluations=total,
        per_part_environment_states=env_states,
        vfs_state_classes=sorted(kinds_seen["vfs"]),
        real_fact_classes=len(kinds_seen["real"]),
        unprivileged_child_runs=nobody_runs,
        unprivileged_child_failures=nobody_fail,
        vfs_calls_answered=sorted(asked),
        trusted_base=["mc/checks/c19_oracle.py:violated", "mc/checks/c19_vfs.py:lookup", "os.stat/os.access/os.path.realpath"],
    )
    if nobody_fail or not nobody_runs:
        ctx.note(f"privileges could not be dropped ({nobody_error}); permission denial is covered by the virtual file system only")
        ctx.assume("uid nobody run unavailable: real-file-system conformance ran as root only")
    ctx.assume("'c' means what the Path docstring says (parent directory exists and is writeable), for existing paths too")
    ctx.assume("an existing FIFO with f+c is not judged; '-' is accepted for every mode; flags u and s are excluded")

    # vacuity guards
    ctx.require(total["vfs"] >= len(states) * 2 * nmodes, "every vfs state x spelling x mode string was executed")
    ctx.require(counters.get("vfs:accept", 0) > 1000 and counters.get("vfs:reject", 0) > 1000, "vfs: both accepted and rejected constructions")
    ctx.require(counters.get("real:accept", 0) > 1000 and counters.get("real:reject", 0) > 1000, "real fs: both accepted and rejected constructions")
    for f in c19_oracle.FLAGS:
        for part in ("vfs", "real"):
            ctx.require(counters.get(f"{part}:flag:{f}:holds", 0) > 0 and counters.get(f"{part}:flag:{f}:violated", 0) > 0, f"{part}: flag {f} both holds and is violated")
    ctx.require({"stat", "access"} <= asked, "the code under test consulted the virtual os.stat and os.access")
    want_classes = {"dir/dir/dir", "fifo/dir/dir", "file/dir/dir", "missing/dir/dir", "missing/missing/dir", "noaccess/dir/dir", "noaccess/noaccess/dir", "notdir/file/file", "notdir/notdir/file"}
    ctx.require(want_classes <= kinds_seen["vfs"], "all 9 (leaf / parent / nearest existing ancestor) classes occur in the vfs")
    if nobody_runs:
        ctx.require(counters.get("real:nobody:flag:R:holds", 0) > 0 and counters.get("real:nobody:flag:W:holds", 0) > 0, "uid nobody: R and W hold somewhere (permission bits deny)")
        ctx.require(counters.get("real:nobody:accept", 0) > 1000, "uid nobody: accepted constructions")
    ctx.require(counters.get("nest:ok:valid", 0) > 100 and counters.get("nest:ArgumentError:invalid", 0) > 100, "nested configs: both accepted and rejected layouts")
    def _axis(name, verdict):
        return sum(v for k, v in counters.items() if k.startswith(f"axis:{name}:") and k.endswith(":" + verdict))

    # (the new axes are guarded by the ORACLE's verdicts only: a defect that makes every such parse fail must be
    # reported as a violation, not as a vacuous run)
    for mode in c19_nest.APPEND_MODES:
        ctx.require(_axis(f"app={mode}", "valid") > 10, f"'files+' appends inside config files ({mode}): layouts the oracle accepts occur")
    ctx.require(_axis("app=after-set", "invalid") > 10 and _axis("app=onto-argv", "invalid") > 10, "'files+' appends inside config files: layouts with an invalid appended item occur")
    for shape in c19_nest.APPEND_SHAPES:
        # (quick writes a single item only with the file that exists next to the config: every such layout is valid)
        ctx.require(
            _axis(f"appshape={shape}", "valid") > 10 and (_axis(f"appshape={shape}", "invalid") > 10 or (ctx.quick and shape == "scalar")),
            f"'files+' value written as {shape}: layouts that must parse (and, except quick single items, layouts that must fail)",
        )
    for ch in c19_nest.CHANNELS:
        ctx.require(_axis(f"exit={ch}", "valid") > 5 and _axis(f"exit={ch}", "invalid") > 10, f"default-settings parsers through channel {ch}: layouts that must parse and layouts that must fail")
    for form in c19_nest.ENTRY_FORMS[1:]:
        if ctx.quick and form == "path-cwdarg":
            continue
        ctx.require(
            _axis(f"entry={form}", "valid") > 10 and _axis(f"entry={form}", "invalid") > 10,
            f"parse_path given the entry file as {form}: layouts that must parse and layouts that must fail",
        )
    for step in c19_nest.CTX_STEPS:
        ctx.require(counters.get("axis:ctx-step-valid=" + step, 0) > 10, f"context manager: step kind {step} occurs where the model allows entering it")
    for how in c19_nest.CTX_EXITS:
        ctx.require(counters.get(f"axis:ctx-body={how}", 0) > 10, f"context manager: 3 nested blocks entered and left by body exit kind {how!r}")
    ctx.require(counters.get("ctx:entered=3:raised", 0) > 10 and counters.get("ctx:entered=3:returned", 0) > 10, "context manager: 3 nested blocks entered, with and without exception")
    ctx.require(counters.get("parser:ok", 0) > 100 and counters.get("parser:ArgumentError", 0) > 100, "parser level: both accepted and rejected paths")
    ctx.require(counters.get("admission:valid", 0) > 100 and counters.get("admission:invalid", 0) > 100, "mode admission: valid and invalid strings")
