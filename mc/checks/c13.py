"""C13 - parameters resolved through **kwargs are exactly those the code accepts.

Bounded exhaustive enumeration of PROGRAMS: every skeleton of **kwargs forwarding (documented AST-resolver patterns,
see c13_gen.py) up to a depth, with every assignment of a per-level behaviour alphabet over a two-name pool that
forces collisions, is rendered to a real source module, imported, and judged by the interpreter itself:

* the family of keyword subsets of {a, b, zz} for which calling the root (plus the deferred follow-up uses) raises
  nothing gives `required` (intersection) and `accepted` (union); a sentinel run per name shows which level binds it;
* `get_signature_parameters` and `add_class/function/method_arguments` must offer exactly the accepted-and-bound
  names, with the annotation / default of the signature that binds the name, required iff the interpreter requires
  it; a call with all offered parameters must succeed; parsing + instantiating through a parser must deliver the
  values to the binding levels; resolving the program again after another program must give the same answer.

Statement forms added after the independent seeded defects (notes/C13.md §8): keyword hard-coded after the unpacking
(`f(**kwargs, a=1)`), kwargs.pop/get written inline as an argument of the forwarding call (the sentinel is then traced
by value: a lower level that sees it under another key was handed it, it does not bind the name), and class
hierarchies with one class without __init__ at every position of every multiple-inheritance layout.
"""
from __future__ import annotations

import contextvars
import importlib.util
import inspect
import itertools
import linecache
import logging
import os
import sys

from mc.checks import c13_gen as gen

META = {
    "id": "C13",
    "level": "exploration",
    "engine": "exhaustive program generator + interpreter oracle on real source modules (mc/checks/c13.py, c13_gen.py)",
    "technique": "bounded exhaustive enumeration of generated **kwargs-forwarding programs; acceptance decided by "
    "executing each program for every keyword subset, compared with the resolver's answer",
    "level_text": "Every program within the stated bound (all link-pattern sequences up to the depth, all inheritance "
    "layouts of the super-chains, every per-level behaviour of the stated alphabet) is written to a real module and "
    "resolved by the real resolver; the expected answer is not modelled but measured by running the program under "
    "CPython for every subset of the name universe. The verdict is exhaustive for the stated program space; programs "
    "outside it (other statement forms, more names, deeper chains) are not covered.",
    "level_note": "Trusted: the renderer in c13_gen.py (the programs are what it claims: checked by executing them), "
    "the instrumentation (_log/_defer calls unrelated to **kwargs), CPython's call binding as the oracle. Judged only "
    "against what the documentation promises: names removed by kwargs.pop(name) without default and the shape of "
    "legitimately 'conditional' parameters are not demanded.",
    "design_ref": "DESIGN.md §5 C13",
}

UNIVERSE = gen.NAMES + [gen.FOREIGN]
EMPTY = inspect.Parameter.empty

# ---------------------------------------------------------------------------------------------------
# loading generated programs as real modules

_dir = None
_counter = itertools.count()


def _scratch():
    global _dir
    if _dir is None or not os.path.isdir(_dir):
        from mc.util import scratch_root

        _dir = os.path.join(scratch_root(), "c13_programs")
        os.makedirs(_dir, exist_ok=True)
        sys.path.insert(1, _dir)
    return _dir


def load(spec, with_siblings=False):
    """Write the program to a fresh file with a never-used module name and import it."""
    src = gen.render(spec, with_siblings)
    name = f"c13p_{os.getpid()}_{next(_counter)}"
    path = os.path.join(_scratch(), name + ".py")
    with open(path, "w") as f:
        f.write(src)
    mspec = importlib.util.spec_from_file_location(name, path)
    mod = importlib.util.module_from_spec(mspec)
    sys.modules[name] = mod
    try:
        mspec.loader.exec_module(mod)
        if spec.get("entry") == "heir_file" and spec["root"] != "F":
            # second source file: the subclass through which the program is entered; it imports its base class only
            name2 = name + "_heir"
            path2 = os.path.join(_scratch(), name2 + ".py")
            with open(path2, "w") as f:
                f.write(gen.render_heir_module(spec, name))
            mspec2 = importlib.util.spec_from_file_location(name2, path2)
            mod2 = importlib.util.module_from_spec(mspec2)
            sys.modules[name2] = mod2
            mod._heir_module = mod2
            mspec2.loader.exec_module(mod2)
            mod.ENTRY = mod2.Heir
            mod.ROOT = (mod2.Heir, mod.ROOT[1])
    except BaseException:
        unload(mod)
        raise
    return mod


def unload(mod):
    if getattr(mod, "_heir_module", None) is not None:
        m2, mod._heir_module = mod._heir_module, None
        unload(m2)
    sys.modules.pop(mod.__name__, None)
    path = getattr(mod, "__file__", None)
    if path:
        linecache.cache.pop(path, None)
        try:
            os.unlink(path)
        except OSError:
            pass


# ---------------------------------------------------------------------------------------------------
# the interpreter's view of a program


def call(mod, kw, pos=()):
    """Call the root with keyword arguments kw (and positional arguments pos), then every deferred use.
    -> ("ok", log) | (exc type name, message)."""
    mod.LOG.clear()
    mod.PENDING.clear()
    try:
        mod._invoke(*pos, **kw)
        k = 0
        while k < len(mod.PENDING):
            obj, attr = mod.PENDING[k]
            k += 1
            if isinstance(inspect.getattr_static(type(obj), attr), property):
                getattr(obj, attr)
            else:
                getattr(obj, attr)()
    except (TypeError, KeyError) as ex:
        return type(ex).__name__, str(ex)
    return "ok", list(mod.LOG)


def level_signature(mod, level):
    fn = mod.LEVELS[level]
    fn = getattr(fn, "__func__", fn)
    return inspect.signature(fn)


def interpreter_view(mod, spec):
    ok = []
    for r in range(len(UNIVERSE) + 1):
        for subset in itertools.combinations(UNIVERSE, r):
            res = call(mod, {n: gen.sentinel(n) for n in subset})
            if res[0] == "ok":
                ok.append(frozenset(subset))
    view = {"valid": bool(ok), "calls": 2 ** len(UNIVERSE)}
    if not ok:
        return view
    required = frozenset.intersection(*ok)
    accepted = frozenset.union(*ok)
    box = {frozenset(required | set(extra)) for r in range(len(accepted - required) + 1) for extra in itertools.combinations(sorted(accepted - required), r)}
    view.update(required=required, accepted=accepted, box=(set(ok) == box))
    bound, expect, renamed = {}, {}, {}
    for n in sorted(accepted):
        kind, log = call(mod, {m: gen.sentinel(m) for m in required | {n}})
        view["calls"] += 1
        assert kind == "ok"
        # value tracing: which level sees the sentinel of n, and under which key (the key differs from n when an
        # inline kwargs.pop/get hands the value on as another argument of the forwarding call)
        seen = [(lv, k) for lv, vals in log for k, val in vals.items() if type(val) is int and val == gen.sentinel(n)]
        levels = [lv for lv, k in seen if k == n]
        handed = [[lv, k] for lv, k in seen if k != n]
        inline = inline_popget_level(spec, n)
        if inline is not None and mod.SEL.get(inline, 1) == 1 and any(lv == f"L{inline}" for lv, _ in log):
            # the level with the inline pop/get was reached and its forwarding call is the live one: it binds the name
            # (its _log line runs before the call that contains the expression, so the value cannot show up there).
            # After an inline POP the name is gone from **kwargs: whatever a lower level sees of the value was handed
            # to it as the other argument of that call, it does not bind the name.
            if gen.op_popget(spec["levels"][inline][2])[0] == "P":
                below = [lv for lv in levels if lv[:1] == "L" and lv[1:].isdigit() and int(lv[1:]) > inline]
                handed += [[lv, n] for lv in below]
                levels = [lv for lv in levels if lv not in below]
            levels = [f"L{inline}"] + [lv for lv in levels if lv != f"L{inline}"]
        renamed[n] = handed
        bound[n] = levels
        cands = []
        for lv in levels:
            if lv not in mod.LEVELS:
                cands.append((lv, "?", "?"))  # a decoy or a skipped class received the value: generator bug
                continue
            sig = level_signature(mod, lv)
            if n in sig.parameters:
                p = sig.parameters[n]
                cands.append((lv, p.annotation, p.default))
            else:  # bound by kwargs.pop/get: no annotation; the default is the one written in the statement
                cands.append((lv, EMPTY, popget_default(spec, lv, n)))
        expect[n] = cands
    view["renamed"] = renamed
    view.update(bound=bound, expect=expect)
    # positional-only parameters (round 4): where the program has *args pass-through levels or positional-only
    # parameters, the root is also called with 1 and 2 positional arguments; the sentinel values show which level binds
    # them under which positional-only name
    posbound = {}
    if any(gen.own_star(l[1]) or gen.own_posonly(l[1]) for l in spec["levels"]):
        for k in range(1, len(gen.POSONLY) + 1):
            vals = [gen.positional_sentinel(j) for j in range(k)]
            kind, log = call(mod, {m: gen.sentinel(m) for m in required}, vals)
            view["calls"] += 1
            if kind != "ok":
                continue
            for lv, seen in log:
                for key, val in seen.items():
                    if key in gen.POSONLY and type(val) is int and val in vals and lv in mod.LEVELS:
                        p = level_signature(mod, lv).parameters[key]
                        posbound.setdefault(key, [])
                        if (lv, p.annotation, p.default) not in posbound[key]:
                            posbound[key].append((lv, p.annotation, p.default))
    view["posbound"] = posbound
    return view


def interpreter_views(mod, spec):
    """One view per assignment of the runtime selectors of non-constant conditionals (a single view without them)."""
    sels = gen.selector_levels(spec)
    views = []
    for choice in itertools.product((1, 2), repeat=len(sels)):
        mod.SEL.clear()
        mod.SEL.update(dict(zip(sels, choice)))
        v = interpreter_view(mod, spec)
        v["sel"] = dict(zip(sels, choice))
        views.append(v)
        if not v["valid"]:
            break
    mod.SEL.clear()
    return views


# ---------------------------------------------------------------------------------------------------
# the resolver's view


class _Collect(logging.Handler):
    def __init__(self):
        super().__init__(logging.DEBUG)
        self.failed = []

    def emit(self, record):
        if isinstance(record.msg, str) and record.msg.startswith("%s failed") and record.args:
            ex = record.args[-1]
            self.failed.append((str(record.args[0]), type(ex).__name__, str(ex)[:200]))


_ctxvars_cache = None


def _context_variables():
    """Every ContextVar found by reflection in the loaded jsonargparse modules (no internal name is spelled here)."""
    global _ctxvars_cache
    if _ctxvars_cache is None:
        from contextvars import ContextVar

        found = []
        for mname, m in sorted(sys.modules.items()):
            if m is not None and (mname == "jsonargparse" or mname.startswith("jsonargparse.")):
                for k, v in sorted(vars(m).items()):
                    if isinstance(v, ContextVar) and not any(v is f[2] for f in found):
                        found.append((mname, k, v))
        _ctxvars_cache = found
    return _ctxvars_cache


def _context_snapshot():
    return [v.get("<unset>") for _, _, v in _context_variables()]


def resolver_view(mod, root=None):
    """[(name, kind, annotation, default, origin)] as answered by get_signature_parameters (for the program's root,
    or for another (class, method) of its module), which resolvers crashed (seen through the public logger argument),
    and which context variables the call left changed."""
    from jsonargparse._parameter_resolvers import get_signature_parameters

    lg = logging.Logger("c13")
    lg.setLevel(logging.DEBUG)
    h = _Collect()
    lg.addHandler(h)
    old = logging.root.manager.disable
    logging.disable(logging.NOTSET)
    before = _context_snapshot()
    try:
        params = get_signature_parameters(*(root or mod.ROOT), logger=lg)
    finally:
        logging.disable(old)
    after = _context_snapshot()
    for (mname, k, var), b, a in zip(_context_variables(), before, after):
        if a is not b and a != b:
            h.failed.append(("context-variable", f"{mname.split('.')[-1]}.{k}", f"{b!r} -> {a!r}"[:200]))
    out = []
    for p in params:
        kind = getattr(p.kind, "name", str(p.kind))
        out.append((p.name, kind, p.annotation, p.default, p.origin))
    return out, h.failed


def _is_conditional(default):
    return type(default).__name__ == "ConditionalDefault"


def _cond_alternatives(default):
    data = str(getattr(default, "data", ""))
    return [x.strip() for x in data.strip("{}").split(",")]


def show(x):
    if x is EMPTY:
        return "<empty>"
    if isinstance(x, type):
        return x.__name__
    return repr(x)


def canon_params(params):
    return [[n, k, show(a), ("cond:" + str(d)) if _is_conditional(d) else show(d)] for n, k, a, d, _ in params]


# ---------------------------------------------------------------------------------------------------
# spec-derived shape facts (used for signatures and for what the documentation does not promise)


def popget_default(spec, level, name):
    """Default written in the kwargs.pop/get expression of a level (EMPTY for pop without default)."""
    i = int(level[1:])
    pg = gen.op_popget(spec["levels"][i][2])
    if pg and pg[1] == name and pg[0] in "PG":
        return gen.pdefault(i, name, spec.get("scheme", "diff"))
    return EMPTY


def inline_popget_level(spec, name):
    """Index of the level whose kwargs.pop/get of the name feeds an argument of its own forwarding call - written inline
    in that call, or (op R) popped into a variable that is given again under the same name - or None."""
    for i, (_, _, op) in enumerate(spec["levels"]):
        pg = gen.op_popget(op)
        if pg and pg[1] == name and (pg[2] or op[:1] == "R"):
            return i
    return None


def callee_chain_takes(spec, j, name):
    """Do the levels from j downwards take the name out of the **kwargs they are handed, in a form the documentation
    says is resolved (signature parameter, kwargs.pop/get with default, the alternative callee of a runtime branch)?
    A shape fact of the spec, used only to name the class of a name."""
    levels = spec["levels"]
    while j < len(levels):
        link, own, op = levels[j]
        if name in own.lower():
            return True
        pg = gen.op_popget(op)
        if pg and pg[1] == name:
            return pg[0] in "PG"
        if link in gen.TERMINALS or link == "inst_method":
            return False
        if gen.op_hard(op) == name and link != "dict_update":
            return False  # given at the forwarding call: below, the name does not come from **kwargs
        if link == "ncc":
            return True  # the alternative callee names the whole pool
        if gen.op_hard_positional(op) and j + 1 < len(levels) and not gen.own_posonly(levels[j + 1][1]) and [p[0] for p in gen.own_params(levels[j + 1][1])[:1]] == [name]:
            return False
        j += 1
    return False


def roles(spec, name):
    """Role letters of a name over the levels: o(wn) P(op) G(et) N(pop without default) H(ard-coded before **kwargs)
    h(ard-coded after **kwargs) I / J (pop / get written inline as an argument of the forwarding call)."""
    r = set()
    for _, own, op in spec["levels"]:
        if name in own.lower():
            r.add("o")
        pg = gen.op_popget(op)
        if pg and pg[1] == name:
            r.add(pg[0] if not pg[2] else {"P": "I", "G": "J"}[pg[0]])
        if gen.op_hard(op) == name:
            r.add("h" if op[0] == "h" else "H")
    return r


def hard_coded(spec, name):
    return any(gen.op_hard(op) == name for _, _, op in spec["levels"])


def name_class(spec, name):
    if name == gen.FOREIGN:
        return "foreign-name"
    r = roles(spec, name)
    if any(link == "dict_literal" and gen.op_hard(op) == name for link, _, op in spec["levels"]):
        return "key-given-in-dict(key=..,**kwargs)"
    for i, (_, _, op) in enumerate(spec["levels"]):
        if gen.op_regiven(op) and gen.op_popget(op)[1] == name:
            if gen.op_popget(op)[0] == "P":
                return "popped-and-given-again-at-the-same-call"
            # kwargs.get leaves the name in **kwargs: giving it again makes every call that passes it fail.  Where no
            # callee takes the name this is the plain "get is treated as consuming" situation; where the callee does
            # take it, the name is hard-coded for that callee and must not be offered.
            if spec["levels"][i][0] != "inst_method" and callee_chain_takes(spec, i + 1, name):
                return "read-by-kwargs.get-and-given-again-to-a-callee-that-takes-it"
            return "read-by-kwargs.get"
    if r & {"G", "J"}:
        return "read-by-kwargs.get"
    if not r:
        links = {l[0] for l in spec["levels"]}
        if links & {"cc_if", "cc_elifnot", "cc_else", "super_skip"}:
            return "only-in-dead-branch-or-skipped-class"
        return "unused-name"
    return "roles=" + "".join(sorted(r))


def legit_conditional(spec, name):
    """A level pops/gets the name and the same or a lower level names it again in another use of **kwargs (a lower
    level's signature / pop / get, or the alternative callee of a runtime branch, which names the whole pool):
    two uses that may disagree - the documented 'conditional' situation."""
    seen_pg = False
    for link, own, op in spec["levels"]:
        pg = gen.op_popget(op)
        here_pg = bool(pg) and pg[0] in "PG" and pg[1] == name
        here_any = here_pg or name in own.lower()
        if seen_pg and here_any:
            return True
        seen_pg = seen_pg or here_pg
        if seen_pg and link == "ncc":
            return True
    return False


def popped_without_default(spec, name):
    return any(op == f"N:{name}" for _, _, op in spec["levels"])


def method_with_only_positional_only_parameters(spec):
    """A method level (self / cls first) that forwards **kwargs and whose signature has positional-only parameters and
    no named one: `def __init__(self, p=1, /, **kwargs)` - self itself is then a positional-only argument."""
    kinds = gen.kinds_of(spec["root"], [l[0] for l in spec["levels"]])
    return any(k != "F" and link != "T0" and gen.own_posonly(own) and not gen.own_names(own) for k, (link, own, _) in zip(kinds, spec["levels"]))


def stacked_multi_use_levels(spec):
    """Two levels that each use their **kwargs more than once (pop/get + forwarding call, or two conditional calls):
    the upper grouping then sees the lower level's grouped - possibly 'conditional' - parameters."""
    multi = 0
    for link, _, op in spec["levels"]:
        pg = gen.op_popget(op)
        multi += (bool(pg) and pg[0] in "PG") or link == "ncc"
    return multi >= 2


# ---------------------------------------------------------------------------------------------------
# judging one program


def first_binding_level(views, name):
    for v in views:
        if name in v["accepted"] and v["bound"][name]:
            lv = v["bound"][name][0]
            if lv[:1] == "L":
                return int(lv[1:])
    return None


def missing_class(spec, views, name):
    """Name class of a missing name: the documented-but-unresolvable link above its binding level, else its roles."""
    i = first_binding_level(views, name)
    if i is not None and any(l[0] == "inst_method" for l in spec["levels"][:i]):
        return "bound-behind-method-call-on-local-instance"
    lay = spec.get("layout")
    top = spec["levels"][0]
    # the first class level that is resolved with the entry class as parent: the root __init__, or the __init__ reached
    # by cls(**kwargs) from the root classmethod
    j = 0 if spec["root"] == "C" else 1 if spec["root"] == "K" and top[0] == "cls_call" and len(spec["levels"]) > 1 else None
    if spec.get("entry") == "heir_file" and j is not None and spec["levels"][j][0] == "super_skip" and i is not None and i > j:
        # the entry class lives in a second file and inherits an __init__ that calls super(OtherClass, self).__init__:
        # OtherClass is a global of the file the __init__ is written in, not of the entry class's file
        return "below-super(OtherClass,self)-call-of-init-inherited-in-another-file"
    if isinstance(lay, dict) and lay["blank"] == 0 and top[0] in gen.SUPER_LINKS and gen.op_hard_positional(top[2]) and i is not None and i >= 1:
        # the root class has no __init__ of its own and the __init__ it inherits gives the first positional parameter
        # at its super().__init__ call; the name is bound below that call
        return "below-positional-given-at-super-call-of-inherited-init"
    return name_class(spec, name)


def names_bound_below_branch(spec, view):
    """Names that the callee chain of the live branch of the (deepest reached) runtime conditional binds from
    **kwargs (a name the branching level hard-codes at that call does not count: it never comes from **kwargs)."""
    taken = [i for i, choice in sorted(view["sel"].items()) if choice == 1]
    if not taken:
        return set()
    i = taken[-1]
    hard = gen.op_hard(spec["levels"][i][2])
    pg = gen.op_popget(spec["levels"][i][2])
    if pg and pg[2] and pg[0] == "P":
        hard = (hard, pg[1])  # popped inline at the branching call: below it the value is an argument, not from **kwargs
    else:
        hard = (hard,)
    below = {m for m in view["accepted"] for lv in view["bound"][m] if lv[:1] == "L" and int(lv[1:]) > i}
    # kwargs.pop(name) without default is invisible to the resolver by design (undocumented form)
    return {m for m in below if m not in hard and not popped_without_default(spec, m)}


NOT_NAMED = ("VAR_POSITIONAL", "VAR_KEYWORD", "POSITIONAL_ONLY")  # a positional-only parameter can not be passed by name


def compare(spec, views, params, failed):
    """Deviations between the interpreter's views (one per runtime branch) and the resolver's answer."""
    devs = []

    def dev(sig, detail):
        devs.append({"signature": sig, "detail": detail})

    named = [p for p in params if p[1] not in NOT_NAMED]
    offered = [p[0] for p in named]
    if len(set(offered)) != len(offered):
        dev("duplicate-name-offered", f"offered {offered}")
    # positional-only entries of the answer (what *args can reach): exactly the positional-only parameters that some
    # level binds when the root is called with positional arguments, with that level's annotation and default
    posonly = [p for p in params if p[1] == "POSITIONAL_ONLY"]
    posbound = {}
    for v in views:
        for key, cands in v.get("posbound", {}).items():
            posbound.setdefault(key, []).extend(cands)
    if len({p[0] for p in posonly}) != len(posonly):
        dev("duplicate-name-offered", f"positional-only {[p[0] for p in posonly]}")
    for name, kind, ann, dflt, origin in posonly:
        if name not in posbound:
            dev("offered-but-rejected:positional-only-parameter", f"{name!r} is reported as positional-only but no positional argument ever reaches a parameter of that name")
        elif not any(ann is c[1] and type(dflt) is type(c[2]) and dflt == c[2] for c in posbound[name]):
            dev("wrong-default:positional-only-parameter", f"{name!r}: resolver ({show(ann)}, {show(dflt)}), binding {[(c[0], show(c[1]), show(c[2])) for c in posbound[name]]}")
    # group_parameters drops positional-only parameters on purpose where several uses of one **kwargs are merged
    # (kwargs.pop/get + a call, two runtime branches): a positional-only parameter is demanded only in programs
    # in which every level uses its **kwargs once
    single_use = not any(l[0] in ("ncc", "inst_method") or (gen.op_popget(l[2]) or "N")[0] in "PG" for l in spec["levels"])
    for name in sorted(set(posbound) - {p[0] for p in posonly}) if single_use else []:
        dev("missing:positional-only-parameter-reached-through-*args", f"{name!r} is bound by a positional argument at {[c[0] for c in posbound[name]]} but not reported; answer {canon_params(params)}")
    accepted_raw = set().union(*[v["accepted"] for v in views])
    expected = set().union(*[{n for n in v["accepted"] if v["bound"][n]} for v in views])
    symptoms = []
    for n in offered:
        if n not in accepted_raw:
            symptoms.append(("offered-but-rejected", name_class(spec, n), f"{n!r} is offered but every call passing it raises TypeError"))
        elif n not in expected:
            symptoms.append(("offered-but-never-bound", name_class(spec, n), f"{n!r} is offered but only swallowed by an unused **kwargs"))
    for n in sorted(expected - set(offered)):
        if popped_without_default(spec, n):
            continue  # kwargs.pop(name) without default is not a documented pattern: the name need not be offered
        if len(views) > 1 and hard_coded(spec, n) and any(n not in v["accepted"] for v in views):
            continue  # hard-coded at one of several calls: dropped everywhere on purpose (test_get_params_given_kwargs)
        where = [v["bound"][n] for v in views if n in v["accepted"]]
        symptoms.append(("missing", missing_class(spec, views, n), f"{n!r} is accepted and bound at {where} but not offered"))
    for name, kind, ann, dflt, origin in named:
        if name not in expected or popped_without_default(spec, name):
            continue
        cands = [c for v in views if name in v["accepted"] for c in v["expect"][name]]
        elsewhere = any(name not in v["accepted"] or not v["bound"][name] for v in views)
        distinct = {(show(c[1]), show(c[2])) for c in cands}
        if _is_conditional(dflt):
            if not (legit_conditional(spec, name) or elsewhere or (len(views) > 1 and len(distinct) > 1)):
                symptoms.append(("conditional-without-discrepancy", name_class(spec, name), f"{name!r} reported as {dflt} but all uses of **kwargs that name it agree"))
            else:
                alts = _cond_alternatives(dflt)
                have = [c for c in cands if c[2] is not EMPTY]
                if have and not any(str(c[2]) in alts for c in have):
                    symptoms.append(("conditional-omits-binding-default", name_class(spec, name), f"{name!r}: {dflt} vs binding {[(c[0], show(c[2])) for c in cands]}"))
            continue
        if any(name not in v["accepted"] for v in views):
            empty = all(not names_bound_below_branch(spec, v) for v in views if name not in v["accepted"])
            cls = "branch-callee-has-no-named-parameter" if empty else "branch-callee-names-others:" + name_class(spec, name)
            if name_class(spec, name) == "read-by-kwargs.get":
                # the branch rejects it because kwargs.get left it in the forwarded dict: same class as without branches
                symptoms.append(("offered-but-rejected", "read-by-kwargs.get", f"{name!r} is offered but the branch {[v['sel'] for v in views if name not in v['accepted']]} rejects it"))
                continue
            symptoms.append(("unconditional-but-rejected-in-a-branch", cls, f"{name!r} is offered as a normal parameter but the branch {[v['sel'] for v in views if name not in v['accepted']]} rejects it"))
            continue
        ok_pair = any(ann is c[1] and (dflt is c[2] or (type(dflt) is type(c[2]) and dflt == c[2])) for c in cands)
        if not ok_pair:
            ok_ann = any(ann is c[1] for c in cands)
            what = "wrong-default" if ok_ann else "wrong-annotation"
            symptoms.append((what, name_class(spec, name), f"{name!r}: resolver ({show(ann)}, {show(dflt)}), binding {[(c[0], show(c[1]), show(c[2])) for c in cands]}"))
    for f in failed:
        if f[0] == "context-variable":
            dev(f"resolver-leaves-context-variable-changed:{f[1]}", f[2])
    crashed = [f for f in failed if f[0] == "get_parameters_from_ast"]
    ctx_txt = f"; offered {canon_params(params)}; " + "; ".join(f"sel {v['sel']}: required {sorted(v['required'])} accepted {sorted(v['accepted'])}" for v in views)
    if crashed and symptoms:
        shape = "stacked-multi-use-levels" if stacked_multi_use_levels(spec) else "other-shape"
        if crashed[0][1] == "SourceNotAvailable" and method_with_only_positional_only_parameters(spec):
            shape = "method-whose-only-parameters-before-**kwargs-are-positional-only"
        dev(
            f"ast-resolver-crash:{crashed[0][1]}:{shape}",
            f"get_parameters_from_ast raised {crashed[0][1]}: {crashed[0][2]}; fallback answer {canon_params(params)}; "
            + "; ".join(s[2] for s in symptoms),
        )
    else:
        for what, cls, detail in symptoms:
            dev(f"{what}:{cls}", detail + ctx_txt)
    return devs, offered, bool(crashed)


def call_with_all_offered(mod, spec, views, params):
    devs = []
    for v in views:
        kw = {n: gen.sentinel(n) for n in v["required"]}
        for name, kind, ann, dflt, _ in params:
            if kind in NOT_NAMED or _is_conditional(dflt) or popped_without_default(spec, name):
                continue
            kw[name] = gen.sentinel(name)
        mod.SEL.clear()
        mod.SEL.update(v["sel"])
        res = call(mod, kw)
        mod.SEL.clear()
        if res[0] != "ok":
            devs.append({"signature": "call-with-all-offered-fails", "detail": f"{sorted(kw)} sel {v['sel']} -> {res[0]}: {res[1]}"})
    return devs


def parser_check(mod, spec, views, params):
    """End to end: add_*_arguments, get_defaults, parse_args, instantiate / call."""
    import jsonargparse

    devs = []

    def dev(sig, detail):
        devs.append({"signature": sig, "detail": detail})

    fc, meth = mod.ROOT
    parser = jsonargparse.ArgumentParser(exit_on_error=False)
    # positional-only parameters can not be given by name: that add_*_arguments offers them (for any signature, with or
    # without forwarding) is not a statement about **kwargs resolution; they are skipped, as a user has to
    skip = {p[0] for p in params if p[1] == "POSITIONAL_ONLY"} or None
    try:
        if meth is not None:
            added = parser.add_method_arguments(fc, meth, "r", skip=skip)
        elif inspect.isclass(fc):
            added = parser.add_class_arguments(fc, "r", skip=skip)
        else:
            added = parser.add_function_arguments(fc, "r", skip=skip)
    except Exception as ex:
        dev(f"parser:add-arguments-raises:{type(ex).__name__}", str(ex)[:300])
        return devs
    named = [p for p in params if p[1] not in NOT_NAMED]
    offered = [p[0] for p in named]
    got = [a.split(".", 1)[1] for a in added]
    if sorted(got) != sorted(set(offered)):
        dev("parser:arguments-differ-from-resolved-parameters", f"added {got}, resolved {offered}")
        return devs
    plain = [p for p in named if not _is_conditional(p[3])]
    try:
        defaults = parser.get_defaults()
    except Exception as ex:
        dev(f"parser:get_defaults-raises:{type(ex).__name__}", str(ex)[:300])
        return devs
    dflts = defaults.get("r")
    dflts = dflts.as_dict() if dflts is not None else {}
    for name, kind, ann, dflt, _ in plain:
        if dflt is EMPTY:
            continue
        if name not in dflts or dflts[name] != dflt:
            dev("parser:default-differs-from-resolved", f"{name}: get_defaults {dflts.get(name, '<absent>')!r}, resolved {dflt!r}")
    if any(popped_without_default(spec, n) for n in set(offered).union(*[v["required"] for v in views])):
        return devs  # a needed or offered name is consumed by the undocumented kwargs.pop(name): not judged end to end
    for iv in views:
        label = "all"
        names = [p[0] for p in plain if not popped_without_default(spec, p[0])]
        names += [n for n in sorted(iv["required"]) if n in offered and n not in names]
        args = [f"--r.{n}={gen.sentinel(n)}" for n in names]
        try:
            cfg = parser.parse_args(args)
        except Exception as ex:
            dev(f"parser:parse-raises:{type(ex).__name__}", f"{args}: {str(ex)[:300]}")
            continue
        mod.LOG.clear()
        mod.PENDING.clear()
        mod.SEL.clear()
        mod.SEL.update(iv["sel"])
        try:
            if meth is None and inspect.isclass(fc):
                parser.instantiate_classes(cfg)
            else:
                kw = cfg.r.as_dict() if "r" in cfg else {}
                if meth is None:
                    fc(**kw)
                elif isinstance(inspect.getattr_static(fc, meth), classmethod):
                    getattr(fc, meth)(**kw)
                else:
                    getattr(fc(), meth)(**kw)
            k = 0
            while k < len(mod.PENDING):
                obj, attr = mod.PENDING[k]
                k += 1
                if isinstance(inspect.getattr_static(type(obj), attr), property):
                    getattr(obj, attr)
                else:
                    getattr(obj, attr)()
        except Exception as ex:
            dev(f"parser:instantiate-{label}-fails:{type(ex).__name__}", f"{args} sel {iv['sel']}: {str(ex)[:300]}")
            continue
        finally:
            mod.SEL.clear()
        if label == "all":
            log = list(mod.LOG)
            for n in names:
                if n in iv["bound"] and iv["bound"][n]:
                    # where the interpreter run saw the value: under its own name at the binding levels, and - for a
                    # name popped / got inline - under the key of the argument it is handed on as
                    inline = inline_popget_level(spec, n)
                    where = [(lv, n) for lv in iv["bound"][n] if inline is None or lv != f"L{inline}"]
                    where += [(lv, k) for lv, k in iv["renamed"].get(n, [])]
                    if not where:
                        continue  # popped inline and handed to a level that never looks at it
                    lv, key = where[0]
                    seen = [vals[key] for l2, vals in log if l2 == lv and key in vals]
                    if not seen or seen[0] != gen.sentinel(n):
                        dev("parser:value-not-delivered-to-binding-level", f"{n}: level {lv} saw {key}={seen}")
    return devs


DISTURBER = {
    "root": "C",
    "levels": [["super", "a", "P:b"], ["super_skip", "", "H:a"], ["T0", "Ab", ""]],
    "layout": "mixin",
    "scheme": "diff",
}
_disturber = None


def disturb():
    """Resolve another program (a class hierarchy with a mixin, a skipped class, pop and a hard-coded name)."""
    global _disturber
    if _disturber is None or _disturber.__name__ not in sys.modules:
        _disturber = load(DISTURBER)
    return resolver_view(_disturber)


def sibling_check(spec, mod, own, root_answer=None):
    """History independence across SIBLING HIERARCHIES: further root classes over the run's non-root classes whose
    method resolution order continues differently after a shared class (gen.siblings).  In the program's module the
    run's top class is resolved first, then every sibling; in a fresh copy of the module (new class objects, nothing
    resolved yet) the siblings are resolved first, in reverse order, and the top class after them.  The
    answer for a class may not depend on which of its relatives was resolved before.  The two histories of every class
    are disjoint: in the program's module the order is top, Sib0, Sib1, ...; in the fresh copy ..., Sib1, Sib0, top.
    -> (deviations, resolver calls, siblings whose answer differs from the top class's)"""
    devs, resolves, distinct = [], 0, 0

    def answer(ctx, m, cls):
        return canon_params(ctx.run(resolver_view, m, (cls, None))[0])

    count = len(mod.SIBLINGS)
    # the run's top class is normally the program's root, which has been resolved first in this module already
    top_first = root_answer if root_answer is not None and mod.ROOT == (mod.RUN_TOP, None) else answer(own, mod, mod.RUN_TOP)
    after = [answer(own, mod, sib) for sib in mod.SIBLINGS]  # each after the top class and the earlier siblings
    m2 = load(spec, with_siblings=True)
    try:
        ctx2 = contextvars.copy_context()
        before = {n: answer(ctx2, m2, m2.SIBLINGS[n]) for n in reversed(range(count))}  # each after the LATER siblings only
        top_last = answer(ctx2, m2, m2.RUN_TOP)
    finally:
        unload(m2)
    resolves = 2 * count + 2
    described = gen.siblings(spec)
    for n in range(count):
        distinct += before[n] != top_first
        if after[n] != before[n]:
            devs.append(
                {
                    "signature": "answer-depends-on-previously-resolved-sibling-hierarchy",
                    "detail": f"class Sib({', '.join(described[n][1])}) resolved before {mod.RUN_TOP.__name__}: {before[n]}; resolved after it: {after[n]}",
                }
            )
    if top_last != top_first:
        devs.append(
            {
                "signature": "answer-depends-on-previously-resolved-sibling-hierarchy",
                "detail": f"{mod.RUN_TOP.__name__} resolved first: {top_first}; in a fresh copy of the module after the sibling classes "
                f"{['Sib(' + ', '.join(b) + ')' for _, b in described]}: {top_last}",
            }
        )
    return devs, resolves, distinct


def judge(spec, with_parser=True, with_order=True, with_siblings=True):
    """-> dict(valid, devs, stats)"""
    with_siblings = with_siblings and bool(gen.siblings(spec))
    mod = load(spec, with_siblings)
    out = {"valid": False, "devs": [], "offered": None, "box": True, "calls": 0, "resolves": 0, "crashed": False}
    # everything the library does for this program runs in one private copy of the context: a context variable that
    # the resolver leaves changed is seen by the later steps of this program, never by the next program
    own = contextvars.copy_context()
    try:
        views = interpreter_views(mod, spec)
        out["calls"] = sum(v["calls"] for v in views)
        if not all(v["valid"] for v in views):
            return out
        out["valid"] = True
        out["box"] = all(v["box"] for v in views)
        out["required"] = [sorted(v["required"]) for v in views]
        out["accepted"] = [sorted(v["accepted"]) for v in views]
        out["swallows"] = any(gen.FOREIGN in v["accepted"] for v in views)
        out["branches"] = len(views)
        if not out["box"]:
            return out
        try:
            params, failed = own.run(resolver_view, mod)
        except Exception as ex:
            out["devs"].append({"signature": f"resolver-raises:{type(ex).__name__}", "detail": str(ex)[:300]})
            return out
        out["resolves"] += 1
        devs, offered, crashed = compare(spec, views, params, failed)
        out["offered"] = canon_params(params)
        out["crashed"] = crashed
        out["conditional"] = any(_is_conditional(p[3]) for p in params)
        clean = not devs
        out["devs"] += devs
        if clean:
            out["devs"] += call_with_all_offered(mod, spec, views, params)
        if with_order:
            own.run(disturb)
            params2, _ = own.run(resolver_view, mod)
            out["resolves"] += 2
            if canon_params(params2) != canon_params(params):
                out["devs"].append(
                    {
                        "signature": "answer-depends-on-previous-resolution",
                        "detail": f"first {canon_params(params)}, after resolving another program {canon_params(params2)}",
                    }
                )
        if with_parser and clean:
            out["devs"] += own.run(parser_check, mod, spec, views, params)
            out["parsed"] = True
        if with_siblings:
            devs, n, distinct = sibling_check(spec, mod, own, canon_params(params))
            out["devs"] += devs
            out["resolves"] += n
            out["siblings"] = len(mod.SIBLINGS)
            out["siblings_distinct"] = distinct
    finally:
        unload(mod)
    return out


# ---------------------------------------------------------------------------------------------------
# driver


def run_case(case):
    res = judge(case["program"], with_parser=True, with_order=True, with_siblings=True)
    return res["devs"]


def _work(batch):
    """Worker: judge a batch of programs."""
    out = []
    for spec, with_parser, with_order, family, with_siblings in batch:
        try:
            res = judge(spec, with_parser, with_order, with_siblings)
        except Exception as ex:  # harness problem: surfaces as a deviation that cannot be a known finding
            import traceback

            res = {"valid": False, "devs": [{"signature": f"harness:{type(ex).__name__}", "detail": traceback.format_exc()[-600:]}], "calls": 0, "resolves": 0}
        res["spec"] = spec
        res["family"] = family
        out.append(res)
    return out


def _pure_hierarchy(root, links):
    return root == "C" and all(l == "super" for l in links[:-1])


def _pure_hierarchy_any_spelling(root, links):
    """super().__init__(**kwargs) or its explicit own-class spelling super(ThisClass, self).__init__(**kwargs) per level"""
    return root == "C" and all(l in gen.SUPER_LINKS for l in links[:-1])


def _pure_hierarchy_own_spelling(root, links):
    """pure hierarchies in which at least one level uses the explicit own-class spelling"""
    return _pure_hierarchy_any_spelling(root, links) and "super_own" in links


def _no_branching(root, links):
    return "inst_method" not in links and "ncc" not in links


def _at_most_one_branching(root, links):
    return "inst_method" not in links and links.count("ncc") <= 1


def _quick_depth3(root, links):
    """At most one runtime branch; the placement of the live branch of a constant conditional (elif-not / else) is
    varied at the root level only - below the root a constant conditional is always the `if` form (which branch of
    an if/elif/else is live is decided inside one level; all placements at every level are in depth 2)."""
    return _at_most_one_branching(root, links) and not any(l in ("cc_elifnot", "cc_else") for l in links[1:]) and _own_spelling_inside_super_chain(root, links)


_OWN_SPELLING = ("super_own", "super_method_own")
_SUPER_FAMILY = ("super", "super_own", "super_skip", "super_method", "super_method_own")


def _own_spelling_inside_super_chain(root, links):
    """The explicit own-class spelling super(ThisClass, self).m(**kwargs) is combined with every other link at depth 2;
    at depth 3 and 4 it is generated only where it matters beyond that - inside a chain of two super-type links
    (the position of the class in the method resolution order is then not the first one)."""
    return not any(l in _OWN_SPELLING for l in links) or all(l in _SUPER_FAMILY for l in links[:-1])


def _thorough_depth3(root, links):
    return _at_most_one_branching(root, links) and _own_spelling_inside_super_chain(root, links)


def _thorough_depth4(root, links):
    """No runtime branch; elif-not / else placement of a constant conditional at the root level only (as _quick_depth3;
    depth 3 of the thorough tier has every placement at every level)."""
    return _no_branching(root, links) and not any(l in ("cc_elifnot", "cc_else") for l in links[1:]) and _own_spelling_inside_super_chain(root, links)


def _has_star(levels):
    """at least one level takes *args and passes them on"""
    return any(gen.own_star(own) for _, own, _ in levels)


def _has_deferred(root, links):
    return any(l in gen.DEFERRED for l in links)


def _quick_depth3_deferred(root, links):
    return _has_deferred(root, links) and _quick_depth3(root, links)


_ARGS_CHAIN = ("super", "call_fn", "call_cls", "self_method", "super_method")


def _args_depth2(root, links):
    """no runtime branch / local instance (several uses of **kwargs: positional-only parameters are dropped by design,
    the named parameters behave as without *args, which depth2 covers); constant conditionals in the `if` form only"""
    return not any(l in ("ncc", "inst_method", "cc_elifnot", "cc_else") for l in links)


def _plain_depth3(root, links):
    """depth 3 of the inherited-entry axis: no runtime branch / local instance, constant conditionals in the `if` form"""
    return _quick_depth3(root, links) and not any(l in ("ncc", "inst_method", "cc_elifnot", "cc_else") for l in links)


def _args_chain(root, links):
    """depth 3 of the *args axis: chains of plain calls (no conditionals, no deferred uses, no local instance)"""
    return all(l in _ARGS_CHAIN for l in links[:-1])


_USE_ELSEWHERE = [{"use_in": "base"}, {"use_in": "mixin"}]
_INHERITED_ENTRY = [{"entry": "heir"}, {"entry": "heir_file"}]
_CLASS_ROOTS = ["C", "K", "M"]


def round4_families(tier):
    """Families of the round-4 axes (notes §8): *args pass-through / positional-only parameters, the member that uses a
    saved **kwargs attribute defined on another class, entry through a subclass that inherits the root's method
    (same file / second source file)."""
    quick = tier == "quick"
    return [
        dict(name="depth2/args-pass-through", depths=[2], size="args", checks="full", same=False, link_filter=_args_depth2, level_filter=_has_star),
        dict(name="depth3/args-pass-through", depths=[3], size="args3", checks="resolve", same=False, link_filter=_args_chain, level_filter=_has_star, aux=False),
        dict(name="depth2/deferred-use-in-another-class", depths=[2], size="small" if quick else "mid", checks="full", same=False, link_filter=_has_deferred, aux=False, variants=_USE_ELSEWHERE),
        dict(name="depth3/deferred-use-in-another-class", depths=[3], size="tiny" if quick else "small", checks="resolve", same=False, link_filter=_quick_depth3_deferred, aux=False, variants=_USE_ELSEWHERE[:1] if quick else _USE_ELSEWHERE),
        dict(name="depth1-2/inherited-entry/second-file", depths=[1, 2], size="small" if quick else "mid", checks="full", same=False, roots=_CLASS_ROOTS, aux=False, variants=_INHERITED_ENTRY[1:]),
        dict(name="depth1-2/inherited-entry/same-file", depths=[1, 2], size="small" if quick else "mid", checks="resolve", same=False, roots=_CLASS_ROOTS, aux=False, variants=_INHERITED_ENTRY[:1]),
        dict(name="depth3/inherited-entry/second-file", depths=[3], size="tiny" if quick else "tiny4", checks="resolve", same=False, roots=_CLASS_ROOTS, link_filter=_plain_depth3 if quick else _quick_depth3, aux=False, variants=_INHERITED_ENTRY[1:]),
    ]


def families(tier):
    """The stated program space: a list of families, each enumerated completely.

    checks: "full" = resolver vs interpreter + second resolution after another program + end-to-end parser run;
            "resolve" = resolver vs interpreter only."""
    if tier == "quick":
        return [
            dict(name="depth1", depths=[1], size="full", checks="full", same=True),
            dict(name="depth2", depths=[2], size="mid", checks="full", same=True),
            dict(name="depth3", depths=[3], size="small-get", checks="resolve", same=False, link_filter=_quick_depth3, aux=False, siblings=True),
            dict(name="hierarchy4", depths=[4], size="tiny4", checks="resolve", same=False, link_filter=_pure_hierarchy, rich=True, siblings=True),
            dict(name="hierarchy2+blank", depths=[2], size="small+", checks="full", same=True, link_filter=_pure_hierarchy, blank=True, siblings=True),
            dict(name="hierarchy2+blank/own-class-super", depths=[2], size="small", checks="resolve", same=False, link_filter=_pure_hierarchy_own_spelling, blank=True, siblings=True),
            dict(name="hierarchy3+blank", depths=[3], size="tiny4", checks="resolve", same=False, link_filter=_pure_hierarchy, blank=True),
        ] + round4_families(tier)
    return [
        dict(name="depth1", depths=[1], size="full", checks="full", same=True),
        dict(name="depth2", depths=[2], size="full", checks="full", same=True),
        dict(name="depth3", depths=[3], size="med", checks="resolve", same=True, link_filter=_thorough_depth3, siblings=True),
        dict(name="depth4", depths=[4], size="tiny", checks="resolve", same=False, link_filter=_thorough_depth4),
        dict(name="hierarchy4", depths=[4], size="small", checks="full", same=True, link_filter=_pure_hierarchy, rich=True, siblings=True),
        dict(name="hierarchy5", depths=[5], size="tiny4", checks="resolve", same=False, link_filter=_pure_hierarchy, rich=True),
        dict(name="hierarchy2+blank", depths=[2], size="mid", checks="full", same=True, link_filter=_pure_hierarchy_any_spelling, blank=True, siblings=True),
        dict(name="hierarchy3+blank", depths=[3], size="small", checks="resolve", same=False, link_filter=_pure_hierarchy, blank=True, siblings=True),
        dict(name="hierarchy3+blank/own-class-super", depths=[3], size="tiny", checks="resolve", same=False, link_filter=_pure_hierarchy_own_spelling, blank=True, siblings=True),
        dict(name="hierarchy4+blank", depths=[4], size="tiny", checks="resolve", same=False, link_filter=_pure_hierarchy, blank=True),
    ] + round4_families(tier)


def family_programs(fam):
    return gen.programs(
        fam["depths"],
        {d: fam["size"] for d in fam["depths"]},
        rich_layouts=fam.get("rich", False),
        link_filter=fam.get("link_filter"),
        same_scheme_depths=tuple(fam["depths"]) if fam.get("same") else (),
        aux_layouts=fam.get("aux", True),
        blank=fam.get("blank", False),
        roots=fam.get("roots", gen.ROOTS),
        level_filter=fam.get("level_filter"),
        variants=fam.get("variants"),
    )


def core_canon(x):
    import json

    return (len(json.dumps(x)), json.dumps(x, sort_keys=True))


def explore(ctx):
    fams = families(ctx.tier)
    batch, batches = [], []
    n_programs = 0
    per_family = {}
    for fam in fams:
        full = fam["checks"] == "full"
        n0 = n_programs
        for spec in family_programs(fam):
            n_programs += 1
            # the re-resolution after the fixed other program is skipped for the "same"-scheme twin of a program (same
            # statements, only the literal defaults / types agree): its "diff" twin gets it
            batch.append((spec, full, full and spec["scheme"] == "diff", fam["name"], bool(fam.get("siblings"))))
            if len(batch) >= 100:
                batches.append(batch)
                batch = []
        per_family[fam["name"]] = {"programs": n_programs - n0, "valid": 0, "alphabet": fam["size"], "checks": fam["checks"]}
    if batch:
        batches.append(batch)
    valid = invalid = calls = resolves = nonbox = crashed = parsed = swallow = cond = branching = 0
    inline = after = blank = regiven = own_spelling = sib_programs = sib_classes = sib_distinct = 0
    star = star_posonly = star_kwonly = 0
    use_elsewhere, entries = {}, {}
    blank_positions = set()
    answers = set()
    shapes_valid = set()
    links_valid = set()
    sample_pool = {}
    for results in ctx.pmap(_work, batches, chunk=1):
        for res in results:
            spec = res["spec"]
            calls += res["calls"]
            resolves += res["resolves"]
            case = {"program": spec}
            for dv in res["devs"]:
                ctx.deviation(dv["signature"], case, dv["detail"] + " | " + gen.describe(spec))
            if not res["valid"]:
                invalid += 1
                continue
            valid += 1
            per_family[res["family"]]["valid"] += 1
            if not res["box"]:
                nonbox += 1
                continue
            crashed += bool(res.get("crashed"))
            parsed += bool(res.get("parsed"))
            swallow += bool(res.get("swallows"))
            cond += bool(res.get("conditional"))
            branching += res.get("branches", 1) > 1
            inline += any(gen.op_inline(l[2]) for l in spec["levels"])
            after += any(l[2][:1] == "h" for l in spec["levels"])
            regiven += any(gen.op_regiven(l[2]) and gen.op_popget(l[2])[0] == "G" for l in spec["levels"])
            own_spelling += bool(res["offered"]) and any(l[0] in ("super_own", "super_method_own") for l in spec["levels"])
            sib_programs += bool(res.get("siblings"))
            sib_classes += res.get("siblings", 0)
            sib_distinct += res.get("siblings_distinct", 0)
            ans_kinds = {p[1] for p in (res["offered"] or [])}
            nonempty = bool(ans_kinds - {"VAR_POSITIONAL", "VAR_KEYWORD"})
            star += nonempty and any(gen.own_star(l[1]) for l in spec["levels"])
            star_posonly += "POSITIONAL_ONLY" in ans_kinds and any(gen.own_star(l[1]) for l in spec["levels"])
            star_kwonly += "POSITIONAL_ONLY" in ans_kinds and "KEYWORD_ONLY" in ans_kinds and gen.own_star(spec["levels"][0][1])
            use_elsewhere[spec.get("use_in", "own")] = use_elsewhere.get(spec.get("use_in", "own"), 0) + (nonempty and any(l[0] in gen.DEFERRED for l in spec["levels"]))
            entries[spec.get("entry", "own")] = entries.get(spec.get("entry", "own"), 0) + (nonempty and spec["levels"][0][0] not in gen.TERMINALS + list(gen.SUPER_LINKS))
            if isinstance(spec["layout"], dict):
                blank += 1
                if res["offered"]:
                    blank_positions.add((len(spec["levels"]), spec["layout"]["blank"]))
            shapes_valid.add(gen.describe(spec))
            links_valid.update(l[0] for l in spec["levels"])
            if res["offered"]:
                answers.add((gen.describe(spec), str(res["offered"])))
            key = (spec["root"], spec["levels"][0][0], len(spec["levels"]))
            cand = {"program": spec, "required": res["required"], "accepted": res["accepted"], "offered": res["offered"]}
            if res["offered"] and (key not in sample_pool or core_canon(cand) < core_canon(sample_pool[key])):
                sample_pool[key] = cand
    broken = sorted(sig for sig in ctx.deviations if sig.startswith("harness:"))
    if broken:
        from mc.core import HarnessError

        raise HarnessError(f"the generator / oracle itself failed: {broken[0]}: {ctx.deviations[broken[0]]['detail'][-400:]}")
    # samples: the smallest program with a non-empty answer for a spread of (root kind, first link, depth) classes,
    # chosen by content (independent of scheduling), plus the source text of one of them
    keys = sorted(sample_pool, key=lambda k: (-k[2], k[1], k[0]))
    for k in keys[:: max(1, len(keys) // 9)][:9]:
        ctx.sample(sample_pool[k])
    if ctx.samples:
        ctx.sample({"source_of_first_sample": gen.render(ctx.samples[0]["program"])})
    ctx.count("programs_generated", n_programs)
    ctx.count("programs_valid", valid)
    ctx.count("programs_invalid_discarded", invalid)
    ctx.count("programs_valid_but_acceptance_not_a_box", nonbox)
    ctx.count("programs_ast_resolver_crashed_fallback", crashed)
    ctx.count("programs_checked_through_parser", parsed)
    ctx.count("programs_with_swallowing_sink", swallow)
    ctx.count("programs_with_conditional_parameters", cond)
    ctx.count("programs_with_runtime_branches", branching)
    ctx.count("programs_with_pop_or_get_inline_in_the_forwarding_call", inline)
    ctx.count("programs_with_keyword_hard_coded_after_the_unpacking", after)
    ctx.count("programs_with_a_class_without_init_inside_the_hierarchy", blank)
    ctx.count("programs_with_kwargs_get_of_a_name_given_again_at_the_same_call", regiven)
    ctx.count("programs_with_explicit_own_class_super_spelling_and_non_empty_answer", own_spelling)
    ctx.count("programs_checked_against_sibling_hierarchies", sib_programs)
    ctx.count("sibling_hierarchies_resolved_before_and_after_the_program", sib_classes)
    ctx.count("sibling_hierarchies_whose_answer_differs_from_the_program_s", sib_distinct)
    ctx.count("programs_with_args_pass_through_and_non_empty_answer", star)
    ctx.count("programs_with_positional_only_parameters_resolved_through_args", star_posonly)
    ctx.count("programs_whose_root_has_keyword_only_parameters_between_resolved_args_and_kwargs", star_kwonly)
    ctx.count("programs_with_deferred_use_member_on_base_class_non_empty_answer", use_elsewhere.get("base", 0))
    ctx.count("programs_with_deferred_use_member_on_mixin_non_empty_answer", use_elsewhere.get("mixin", 0))
    ctx.count("programs_entered_through_inheriting_subclass_same_file_forwarding_to_a_module_global", entries.get("heir", 0))
    ctx.count("programs_entered_through_inheriting_subclass_in_second_file_forwarding_to_a_module_global", entries.get("heir_file", 0))
    ctx.cover(
        evaluations=n_programs,
        states=valid,
        transitions=calls + resolves,
        traces_validated_against_impl=valid,
        distinct_nontrivial=len(answers),
        rule="a case is one generated program (a real source module); it is valid when, in every runtime branch, some "
        "keyword subset of {a,b,zz} lets the root call and its deferred uses succeed; distinct_nontrivial = number of "
        "distinct (link-pattern sequence, non-empty resolver answer) pairs among valid programs; states = valid "
        "programs judged; transitions = interpreter calls + resolver calls",
        exhaustive=True,
        caps_hit=[],
        bounds={
            "families": [{k: (v if not callable(v) else v.__name__) for k, v in fam.items()} for fam in fams],
            "names": gen.NAMES,
            "foreign": gen.FOREIGN,
            "behaviours": {fam["size"]: [f"{o}|{p}" for o, p in gen.behaviours(fam["size"])] for fam in fams},
        },
        per_family=per_family,
        link_patterns=sorted(gen.TARGET),
        link_patterns_in_valid_programs=sorted(links_valid),
        distinct_valid_link_sequences=len(shapes_valid),
    )
    ctx.assume("names removed by kwargs.pop(name) without default are not required to be offered (undocumented form)")
    ctx.assume("a parameter reported as Conditional<ast-resolver> is accepted when two uses of one **kwargs really disagree about it")
    ctx.require(valid > 1000, "more than 1000 valid programs judged")
    ctx.require(invalid > 0, "the interpreter discards some programs as invalid (the validity filter is live)")
    ctx.require(nonbox == 0, "the accepted keyword sets of every valid program form a box (required <= S <= accepted)")
    ctx.require(len(answers) > 200, "more than 200 distinct non-empty resolver answers")
    ctx.require(swallow > 0 and cond > 0 and branching > 0, "programs with swallowing sinks, conditional parameters and runtime branches occur")
    ctx.require(parsed > 500, "more than 500 programs also checked end to end through a parser")
    ctx.require(inline > 100 and after > 100, "valid programs with an inline kwargs.pop/get and with a keyword hard-coded after **kwargs occur")
    want_positions = {(d, j) for fam in fams if fam.get("blank") for d in fam["depths"] for j in range(d + 1)}
    ctx.require(blank > 100 and blank_positions == want_positions, "a class without __init__ occurs at every position of the hierarchies (with a non-empty answer)")
    ctx.require(links_valid == set(gen.TARGET) | set(gen.TERMINALS), "every link pattern occurs in a valid program")
    ctx.require(regiven > 100 and own_spelling > 100, "valid programs with kwargs.get of a name given again at the same call, and with the explicit own-class super spelling (non-empty answer), occur")
    ctx.require(star > 500 and star_posonly > 200 and star_kwonly > 50, "programs with *args pass-through: non-empty answers, positional-only parameters resolved through *args, keyword-only own parameters between them and **kwargs")
    ctx.require(use_elsewhere.get("base", 0) > 100 and use_elsewhere.get("mixin", 0) > 50, "deferred uses of a saved **kwargs attribute in a member of a base class and of a mixin (non-empty answer)")
    ctx.require(entries.get("heir", 0) > 100 and entries.get("heir_file", 0) > 100, "programs entered through a subclass that inherits the root's method, in the same and in a second source file, whose root level forwards to a callable other than super (non-empty answer)")
    ctx.require(sib_programs > 100 and sib_distinct > 100, "programs are re-resolved around sibling hierarchies whose own answer differs from theirs")
