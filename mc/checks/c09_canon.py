"""C09 helper: reflective, over-fine canonical form of the (parsers, process) state.

Nothing in here names an attribute of jsonargparse.  The walk starts from

  * the live parser objects of the world (their whole reachable object graph through vars() / __slots__),
  * every module `jsonargparse` / `jsonargparse.*` in sys.modules: each global that is a ContextVar (current
    value), a container (dict / list / set / deque ...) or an instance of a class defined in jsonargparse,
  * every class defined in a jsonargparse module (found as a module global or met during the walk) and every
    class of the fixture modules: their own non-callable, non-descriptor class attributes,
  * process facts: cwd, os.environ, argparse.Namespace, sys.argv, the stdio objects' types, warnings filters length.

The result is a flat list of text lines ("<path> = <token>") -- hashable and diffable.  Objects are numbered in
first-visit order, so aliasing (copy vs. alias) and cycles are part of the form; dict order and list order are
kept (over-fine on purpose); sets are sorted by the canonical text of their elements.

What is NOT walked (named by type only; listed in the notes as the assumed-irrelevant rest): loggers, locks,
streams, typing / inspect / ast / importlib objects, code objects, third-party module state, functools caches
beyond their current size.
"""
from __future__ import annotations

import argparse
import collections
import contextvars
import enum
import functools
import hashlib
import os
import re
import sys
import types

_ATOMS = (type(None), bool, int, float, complex, str, bytes)
_MISSING = object()

# stdlib / third-party infrastructure whose instances are named, not entered
_OPAQUE_MODULE_PREFIXES = (
    "logging",
    "threading",
    "_thread",
    "io",
    "_io",
    "typing",
    "inspect",
    "ast",
    "_ast",
    "weakref",
    "_weakref",
    "importlib",
    "_frozen_importlib",
    "typeshed_client",
    "docstring_parser",
    "yaml",
    "_yaml",
    "ruyaml",
    "jsonnet",
    "_jsonnet",
    "jsonschema",
    "pydantic",
    "attr",
    "abc",
    "_abc",
    "codecs",
    "encodings",
    "tempfile",
    "subprocess",
    "string",
    "random",
    "_random",
    "zipimport",
    "shtab",
    "argcomplete",
)

_ADDR = re.compile(r" at 0x[0-9a-fA-F]+")


def _qual(t):
    return f"{getattr(t, '__module__', '?')}.{getattr(t, '__qualname__', getattr(t, '__name__', '?'))}"


def _is_opaque_module(mod):
    return any(mod == p or mod.startswith(p + ".") for p in _OPAQUE_MODULE_PREFIXES)


class Canon:
    def __init__(self, interesting_prefixes=("jsonargparse", "mc.fixtures.c09"), paths=True):
        self.paths = paths  # False: hash-only mode (tokens without access paths, refs by first-visit number)
        self.lines = []
        self.ids = {}
        self.keep = []  # keep temporaries alive so ids are not reused during one walk
        self.class_queue = []
        self.classes_seen = set()
        self.interesting = tuple(interesting_prefixes)
        self.opaque_types = collections.Counter()
        self.unordered_complex = 0

    # -- helpers -------------------------------------------------------------------------------------
    def sub(self, path, suffix):
        return path + suffix if self.paths else suffix

    def emit(self, path, token):
        self.lines.append(f"{path} = {token}")

    def _interesting_class(self, cls):
        mod = getattr(cls, "__module__", "") or ""
        return any(mod == p or mod.startswith(p + ".") for p in self.interesting)

    def note_class(self, cls):
        if id(cls) not in self.classes_seen and self._interesting_class(cls):
            self.classes_seen.add(id(cls))
            self.class_queue.append(cls)

    def atom_token(self, v):
        t = type(v)
        if t is str:
            return "s:" + repr(v)
        if t is float:
            return "f:" + repr(v)
        return f"{t.__name__}:{v!r}"

    def shallow_token(self, v):
        """Order-independent token for sorting set elements."""
        if type(v) in _ATOMS:
            return "0" + self.atom_token(v)
        if isinstance(v, type):
            return "1class:" + _qual(v)
        if isinstance(v, enum.Enum):
            return "1enum:" + _qual(type(v)) + "." + v.name
        if isinstance(v, tuple):
            return "2tuple:(" + ",".join(self.shallow_token(x) for x in v) + ")"
        if isinstance(v, (types.FunctionType, types.BuiltinFunctionType)):
            return "1func:" + _qual(v)
        return "9obj:" + _qual(type(v))

    # -- the walk ------------------------------------------------------------------------------------
    def walk(self, path, v, depth=0):
        t = type(v)
        if t in _ATOMS:
            self.emit(path, self.atom_token(v))
            return
        if depth > 200:
            self.emit(path, "TOO-DEEP")
            return
        if isinstance(v, type):
            self.emit(path, "class:" + _qual(v))
            self.note_class(v)
            return
        if isinstance(v, types.ModuleType):
            self.emit(path, "module:" + v.__name__)
            return
        if isinstance(v, enum.Enum):
            self.emit(path, "enum:" + _qual(t) + "." + v.name)
            return
        oid = id(v)
        if oid in self.ids:
            self.emit(path, f"ref:{self.ids[oid]}")
            return
        self.ids[oid] = path if self.paths else len(self.ids)
        self.keep.append(v)
        d = depth + 1
        if t is dict or t is collections.OrderedDict or t is collections.defaultdict:
            self.emit(path, f"{t.__name__}[{len(v)}]")
            for i, (k, x) in enumerate(list(v.items())):
                if type(k) is str:
                    self.walk(self.sub(path, f"[{k!r}]"), x, d)
                else:
                    self.walk(self.sub(path, f".key{i}"), k, d)
                    self.walk(self.sub(path, f".val{i}"), x, d)
            return
        if t in (list, tuple, collections.deque):
            self.emit(path, f"{t.__name__}[{len(v)}]")
            for i, x in enumerate(list(v)):
                self.walk(self.sub(path, f"[{i}]"), x, d)
            return
        if t in (set, frozenset):
            items = sorted(v, key=self.shallow_token)
            toks = [self.shallow_token(x) for x in items]
            if any(tok.startswith("9") for tok in toks) and len(toks) > 1:
                self.unordered_complex += 1
            self.emit(path, f"{t.__name__}[{len(v)}]")
            for i, x in enumerate(items):
                self.walk(self.sub(path, f"{{{i}}}"), x, d)
            return
        if isinstance(v, contextvars.ContextVar):
            self.emit(path, f"ContextVar:{v.name}")
            cur = v.get(_MISSING)
            if cur is _MISSING:
                self.emit(self.sub(path, ".value"), "UNSET")
            else:
                self.walk(self.sub(path, ".value"), cur, d)
            return
        if isinstance(v, (types.FunctionType, types.LambdaType)):
            self.emit(path, f"func:{_qual(v)}")
            for i, cell in enumerate(v.__closure__ or ()):
                try:
                    self.walk(self.sub(path, f".closure[{v.__code__.co_freevars[i]}]"), cell.cell_contents, d)
                except ValueError:
                    self.emit(self.sub(path, f".closure[{i}]"), "EMPTY-CELL")
            return
        if isinstance(v, types.MethodType):
            self.emit(path, f"method:{_qual(v.__func__)}")
            self.walk(self.sub(path, ".__self__"), v.__self__, d)
            return
        if isinstance(v, (types.BuiltinFunctionType, types.MethodDescriptorType, types.WrapperDescriptorType)):
            self.emit(path, f"builtin:{_qual(v)}")
            return
        if isinstance(v, functools.partial):
            self.emit(path, f"partial")
            self.walk(self.sub(path, ".func"), v.func, d)
            self.walk(self.sub(path, ".args"), v.args, d)
            self.walk(self.sub(path, ".keywords"), v.keywords, d)
            return
        if hasattr(v, "cache_info") and hasattr(v, "__wrapped__"):
            self.emit(path, f"lru_cache:{_qual(v.__wrapped__)} currsize={v.cache_info().currsize}")
            return
        if isinstance(v, re.Pattern):
            self.emit(path, f"re:{v.pattern!r}:{v.flags}")
            return
        if isinstance(v, (property, staticmethod, classmethod)):
            self.emit(path, "descriptor:" + t.__name__)
            return
        mod = getattr(t, "__module__", "") or ""
        if _is_opaque_module(mod) or isinstance(v, (types.CodeType, types.FrameType, types.GeneratorType)):
            self.opaque_types[_qual(t)] += 1
            extra = ""
            if mod == "logging":
                extra = f":{getattr(v, 'name', '')}:{getattr(v, 'level', '')}:{getattr(v, 'disabled', '')}"
            elif mod in ("typing", "inspect", "types"):
                extra = ":" + _ADDR.sub("", repr(v))[:200]
            self.emit(path, f"opaque:{_qual(t)}{extra}")
            return
        if t.__name__ in ("GenericAlias", "UnionType", "_GenericAlias"):
            self.emit(path, "typing:" + _ADDR.sub("", repr(v))[:200])
            return
        if isinstance(v, os.PathLike) and mod in ("pathlib",):
            self.emit(path, f"pathlib:{v!r}")
            return
        # generic object: instance dict and slots
        fields = None
        try:
            fields = vars(v)
        except TypeError:
            pass
        slots = []
        for klass in t.__mro__:
            for s in getattr(klass, "__slots__", ()) or ():
                if isinstance(s, str) and s not in ("__dict__", "__weakref__"):
                    slots.append(s)
        if fields is None and not slots:
            self.opaque_types[_qual(t)] += 1
            self.emit(path, f"opaque:{_qual(t)}:{_ADDR.sub('', repr(v))[:120]}")
            return
        self.emit(path, f"obj:{_qual(t)}")
        self.note_class(t)
        if isinstance(v, (dict, list, tuple, set)):  # subclasses of containers: content too
            if isinstance(v, dict):
                for i, (k, x) in enumerate(list(v.items())):
                    self.walk(self.sub(path, f".item{i}.k"), k, d)
                    self.walk(self.sub(path, f".item{i}.v"), x, d)
            else:
                seq = sorted(v, key=self.shallow_token) if isinstance(v, set) else list(v)
                for i, x in enumerate(seq):
                    self.walk(self.sub(path, f".item{i}"), x, d)
        for k, x in list((fields or {}).items()):
            self.walk(self.sub(path, f".{k}"), x, d)
        for s in slots:
            x = getattr(v, s, _MISSING)
            if x is not _MISSING:
                self.walk(self.sub(path, f".{s}"), x, d)

    # -- roots ---------------------------------------------------------------------------------------
    def walk_class_attrs(self, cls):
        path = "class<" + _qual(cls) + ">"
        for k, x in list(vars(cls).items()):
            if k in ("__dict__", "__weakref__", "__doc__", "__module__", "__qualname__", "__annotations__",
                     "__slots__", "__abstractmethods__", "_abc_impl", "__parameters__", "__orig_bases__",
                     "__dataclass_fields__", "__dataclass_params__", "__match_args__", "__firstlineno__",
                     "__static_attributes__", "__hash__"):
                continue
            if isinstance(x, (types.FunctionType, staticmethod, classmethod, property, types.MemberDescriptorType,
                              types.GetSetDescriptorType, types.WrapperDescriptorType, types.MethodDescriptorType,
                              types.BuiltinFunctionType, functools.cached_property)):
                continue
            self.walk(self.sub(path, f".{k}"), x, 1)

    def walk_modules(self):
        names = sorted(n for n in sys.modules if n == "jsonargparse" or n.startswith("jsonargparse.")
                       or n.startswith("mc.fixtures.c09"))
        for name in names:
            mod = sys.modules.get(name)
            if mod is None:
                continue
            for k, x in list(vars(mod).items()):
                if k.startswith("__") and k.endswith("__"):
                    continue
                if isinstance(x, type):
                    self.note_class(x)
                    continue
                if isinstance(x, (types.ModuleType, types.FunctionType, types.BuiltinFunctionType)):
                    if hasattr(x, "cache_info"):
                        self.walk(f"mod<{name}>.{k}", x, 1)
                    continue
                if type(x) in _ATOMS:
                    self.emit(f"mod<{name}>.{k}", self.atom_token(x))
                    continue
                self.walk(f"mod<{name}>.{k}", x, 1)

    def walk_process(self):
        self.emit("proc.cwd", "s:" + repr(os.getcwd()))
        env = {k: v for k, v in os.environ.items()}
        for k in sorted(env):
            self.emit(f"proc.environ[{k!r}]", "s:" + repr(env[k]))
        self.emit("proc.argparse.Namespace", "class:" + _qual(argparse.Namespace))
        self.emit("proc.sys.argv", repr(sys.argv[1:]))
        self.emit("proc.stdio", ",".join(_qual(type(s)) for s in (sys.stdin, sys.stdout, sys.stderr)))
        self.emit("proc.recursionlimit", str(sys.getrecursionlimit()))

    def drain_classes(self):
        while self.class_queue:
            batch, self.class_queue = self.class_queue, []
            for cls in sorted(batch, key=_qual):
                self.walk_class_attrs(cls)


def canonical_state(roots, paths=True):
    """roots: ordered dict name -> object (the world's parsers).  Returns (hash, lines, stats).

    paths=True (default) gives diffable lines "<access path> = <token>" with back-references by the access path
    of the first visit; paths=False gives "<last path step> = <token>" lines with back-references by first-visit
    number (same walk, shorter text; not faster in practice)."""
    c = Canon(paths=paths)
    for name, obj in roots.items():
        c.walk(f"root<{name}>", obj)
    c.walk_modules()
    c.drain_classes()
    c.walk_process()
    h = hashlib.sha1("\n".join(c.lines).encode("utf-8", "backslashreplace")).hexdigest()[:20]
    stats = {"lines": len(c.lines), "objects": len(c.ids), "opaque": dict(c.opaque_types),
             "unordered_complex_sets": c.unordered_complex}
    return h, c.lines, stats
