"""C12 - auto_cli calls the component with exactly the parsed values.

Bounded exhaustive exploration over PROGRAMS x INPUTS.  A generator (c12_gen.py) writes real source modules, one
per program: every Python-legal signature of up to N parameters over 8 type hints x {required, default} x
{positional-or-keyword, keyword-only}, as a single function, a list of two functions, a nested dict of functions, a
class with __init__ parameters and one or two methods (with parameter names shared between __init__ and the method;
methods plain / @classmethod / @staticmethod, methods and constructor defined in the class or inherited from a base
class), a function + class mixture (class with one or two methods, in a list or nested in a dict group), a dataclass
and a plain class without methods.  A second alphabet (Optional of str / enum / List / Dict / Tuple / a Union, Tuple,
a dataclass, Optional[dataclass], a class given by class_path, Optional[class]) is put at every position of the 1-
and 2-parameter patterns for every component form.  Every input of the plan (each parameter omitted / on the command
line / in a --config file, plus value, layout, option style, config placement and as_positional variations;
sub-command levels selected by their tokens or by explicit "subcommand" keys of the config, alone and next to
sections of siblings; the settings of one path distributed over TWO config files, the second one given at the top
level, at an intermediate sub-command level or at the component's own level; round 4: zero values 0 / '' / false /
[] / {}, values containing '=' and '.', dict items and dataclass fields given one by one as --name.key=value, inputs
under set_parsing_settings(parse_optionals_as_positionals=True) with options given as extra positionals, and
two-call histories in one process with relative --config paths after valid / rejected first calls) is
run through the real ``auto_cli(components, args=[...])``.  The generated callees log
what they are called with; the log is compared with the binding computed from the signature alone.
"""
from __future__ import annotations

import json
import os
import sys

from mc.checks import c12_gen as gen

META = {
    "id": "C12",
    "level": "exploration",
    "engine": "generated-program enumerator + logging callees on the real auto_cli (mc/checks/c12.py, c12_gen.py)",
    "technique": "bounded exhaustive enumeration of generated signatures x component forms x input assignments; "
    "each case executed through the real auto_cli and judged by a signature-derived reference binding",
    "level_text": "Every Python-legal signature within the stated bound (parameter count, type alphabet, default / "
    "kind pattern) is written out as a real module for every component form, and every input of the stated plan "
    "(per parameter: omitted / argv / --config) is executed through the unmodified auto_cli. The callee itself logs "
    "its bound arguments, so the verdict is about what the user's code receives, not about the parsed namespace. "
    "The oracle is derived from the signature alone (value given -> typed value; else default; Optional without "
    "default -> None; required and missing -> exit status 2; exactly one call; return value passed through).",
    "level_note": "Trusted: the 25-line rule that maps an assignment to a command line (required non-Optional "
    "parameters are positionals in signature order when as_positional=True, everything else is --name; a "
    "dataclass-typed parameter is never positional, its fields are --name.field; positional "
    "tokens are consumed in order; under parse_optionals_as_positionals extra positionals go in order to the options "
    "of the leaf parser), two valid values, a zero value and two defaults per type hint, CPython's own binding of the "
    "call the library makes. Bounded by parameter count and the type alphabet; parameter names are p0.. (no clashes "
    "with --config / --help / sub-command names).",
    "design_ref": "DESIGN.md §5 C12",
}

_scratch = None
_cfg_dir = None
_cfg_serial = 0


def _config_dir():
    """Per-process directory for the --config files of the current case (rewritten for every case)."""
    global _cfg_dir
    if _cfg_dir is None or not os.path.isdir(_cfg_dir):
        from mc.util import scratch_root

        _cfg_dir = os.path.join(scratch_root(), "c12_cfg")
        os.makedirs(_cfg_dir, exist_ok=True)
    return _cfg_dir


def _scratch_path():
    """Per-process directory for generated modules, on sys.path."""
    global _scratch
    if _scratch is None or not os.path.isdir(_scratch):
        from mc.util import scratch_root

        _scratch = os.path.join(scratch_root(), "c12_modules")
        os.makedirs(_scratch, exist_ok=True)
    if _scratch not in sys.path:
        sys.path.insert(1, _scratch)
    return _scratch


class Loaded:
    """Write the program's module to the scratch dir, import it under its unique name; remove both afterwards."""

    def __init__(self, program):
        self.program = program

    def __enter__(self):
        import importlib.util

        d = _scratch_path()
        self.name = gen.module_name(self.program)
        self.path = os.path.join(d, self.name + ".py")
        with open(self.path, "w") as f:
            f.write(gen.source(self.program))
        # the file lies in a directory on sys.path under its unique name; it is loaded from its location directly
        # (same result as import_module, without a directory rescan per program)
        sys.modules.pop(self.name, None)
        spec = importlib.util.spec_from_file_location(self.name, self.path)
        self.mod = importlib.util.module_from_spec(spec)
        sys.modules[self.name] = self.mod
        spec.loader.exec_module(self.mod)
        return self.mod

    def __exit__(self, *exc):
        sys.modules.pop(self.name, None)
        try:
            os.unlink(self.path)
        except OSError:
            pass
        return False


# ------------------------------------------------------------------------------------------------------
# judging one (program, input)


def _role(callee):
    if callee == "K.__init__":
        return "init"
    if callee.startswith("K.m"):
        return "method"
    if callee == "D":
        return "class"
    return "function"


def _sources(stages, inp):
    """For every parameter of the selected leaf: how its value gets there (shape words used in signatures)."""
    out = {}
    for si, st in enumerate(stages):
        for i, (p, n) in enumerate(zip(st["sig"], st["names"])):
            ch = inp["assign"][si][i][0]
            if ch == "a":
                src = "argv-positional" if gen.is_positional(p, inp["as_pos"]) else "argv-option"
            elif ch == "p":  # an option given as an extra positional (parse_optionals_as_positionals)
                src = "argv-extra-positional"
            elif ch in "cd":  # first / second config file
                src = "config"
            elif gen.is_required(p):
                src = "missing"
            elif p[1]:
                src = "default"
            else:
                src = "optional-none"
            out[(st["callee"], n)] = (p, src)
    return out


def _misbinding(callee, name, got, expected, want, stages, ns, p, src):
    """Shape of a wrong value (root-cause words, no raw values): where does the received value come from?"""
    from mc.util import tcanon

    g = tcanon(got)
    for other, okw, _ in want:
        if other != callee and name in okw and tcanon(eval(okw[name], ns)) == g:  # noqa: S307
            return f"receives-the-value-of-the-same-named-parameter-of-{_role(other)}"
    for other, okw, _ in want:
        for n2, e2 in okw.items():
            if (other, n2) != (callee, name) and tcanon(eval(e2, ns)) == g:  # noqa: S307
                return "receives-the-value-of-another-parameter"
    for st in stages:
        if st["callee"] == callee:
            i = st["names"].index(name)
            if p[1] and src not in ("default",) and tcanon(eval(gen.default_src(p, i, st["role"]), ns)) == g:  # noqa: S307
                return f"given-value-replaced-by-default:{src}"
    try:
        if got == expected and type(got) is not type(expected):
            return f"{p[0]}:not-converted-to-declared-type:{src}"
    except Exception:  # noqa: BLE001
        pass
    return f"{p[0]}:{src}"


def judge(program, mod, inp, cfg_dir, seen=None):
    """Run one input on the real auto_cli.

    Returns (kind of case by the plan: "valid" | "missing-required" | "inexpressible", [(signature, detail)],
    cover words = what the case exercises by the plan)."""
    import jsonargparse
    from mc.util import outcome, tcanon

    form = program["form"]
    all_leaves = gen.leaves(program)
    stages = all_leaves[inp["sel"]]
    b = gen.build(stages, inp, all_leaves)
    if b is None:
        return "inexpressible", [], []
    if seen is not None:
        key = json.dumps([b["argv"], b["files"], inp["as_pos"], inp.get("optpos"), inp.get("hist"), inp.get("relcfg")], sort_keys=True)
        if key in seen:
            return "same-command-line-as-an-earlier-input", [], []
        seen.add(key)
    global _cfg_serial
    modname = gen.module_name(program)  # class_path values name classes of the generated module
    comps = gen.components(program, mod)
    kw = {} if inp["as_pos"] else {"as_positional": False}
    hist = inp.get("hist")
    first = None  # history inputs: what the earlier call of the same process is and how it ended
    if hist:
        # the process works in directory A; B next to it holds a same-named config file with the other values
        b1 = _first_call(stages, inp, all_leaves)
        if b1 is None or len(b["files"]) != 1:
            return "inexpressible", [], []
        _cfg_serial += 1
        base = os.path.join(cfg_dir, f"h{_cfg_serial}")
        dir_a, dir_b = os.path.join(base, "A"), os.path.join(base, "B")
        os.makedirs(dir_a)
        os.makedirs(dir_b)
        file_dir = dir_a
    else:
        file_dir = cfg_dir

    def write(d, name, content):
        path = os.path.join(d, name)
        with open(path, "w") as f:
            f.write(json.dumps(content).replace("@MOD", modname))
        return path

    argv, paths = [], []
    for content in b["files"]:
        _cfg_serial += 1  # always a new file: truncating an existing one is far more expensive than creating one
        paths.append(write(file_dir, f"cfg{_cfg_serial}.json", content))
    for tok in b["argv"]:
        if tok.startswith("@CFG"):
            path = paths[int(tok[4:])]
            argv.append(os.path.basename(path) if inp.get("relcfg") else path)
        else:
            argv.append(tok.replace("@MOD", modname))
    old_cwd = os.getcwd()
    try:
        if inp.get("relcfg") and not hist:
            os.chdir(file_dir)
        if hist:
            os.chdir(dir_a)
            name2 = os.path.basename(paths[0])
            write(dir_b, name2, b1["same_named"])
            d1 = dir_a if hist["dir"] == "cwd" else dir_b
            p1 = write(d1, "first.json", b1["files"][0])
            if hist["path"] == "rel":
                p1 = "first.json" if hist["dir"] == "cwd" else os.path.join("..", "B", "first.json")
            argv1 = [p1 if t.startswith("@CFG") else t.replace("@MOD", modname) for t in b1["argv"]]
            mod.CALLS.clear()
            mod.TOKENS.clear()
            o1 = outcome(jsonargparse.auto_cli, comps, args=argv1, as_positional=False)
            first = f"first call {argv1} with {b1['files'][0]} ended {o1['kind']}" + (
                f" {o1.get('code')}: {(o1.get('stderr') or '').strip().splitlines()[-1:]}" if o1["kind"] == "exit" else ""
            )
        mod.CALLS.clear()
        mod.TOKENS.clear()
        if inp.get("optpos"):
            jsonargparse.set_parsing_settings(parse_optionals_as_positionals=True)
        try:
            o = outcome(jsonargparse.auto_cli, comps, args=list(argv), **kw)
        finally:
            if inp.get("optpos"):
                jsonargparse.set_parsing_settings(parse_optionals_as_positionals=False)
    finally:
        os.chdir(old_cwd)
        if hist:
            import shutil

            shutil.rmtree(base, ignore_errors=True)
        else:
            for path in paths:
                os.unlink(path)
    if hist:
        # one root cause per kind of history: the signature names how the earlier call ended, not what it was
        kind, devs, cover = _verdict(program, mod, inp, stages, b, o)
        tag = "valid" if hist["first"] == "valid" else "rejected"
        path = "relative" if inp.get("relcfg") else "absolute"
        devs = [(f"history:{sig.split(':')[0]}:second-call-after-a-{tag}-call:{path}-config-path", f"{sig} | {detail} | {first}") for sig, detail in devs]
        if kind == "valid":
            cover = cover + [f"history:{hist['first']}:config-in-{hist['dir']}:{hist['path']}-path:then-{'relative' if inp.get('relcfg') else 'absolute'}-path"]
        return kind, devs, cover
    if program.get("pname"):
        return _names_verdict(program, comps, kw, inp, stages, *_verdict(program, mod, inp, stages, b, o))
    return _verdict(program, mod, inp, stages, b, o)


_refusals = {}


def _names_verdict(program, comps, kw, inp, stages, kind, devs, cover):
    """Parameter-name axis: (1) a (name, form) pair that the library refuses when the parser is built - whatever the
    command line is - with an error that names the parameter is outside the judged space ("refused-at-declaration");
    (2) deviations are re-labelled by the class of the name and the role of the component that owns the parameter:
    one signature per root cause."""
    import jsonargparse
    from mc.util import outcome

    pn = program["pname"]
    name, cls = pn["name"], gen.NAME_CLASS[pn["name"]]
    owner = next(st for st in stages if name in st["names"])
    role = _role(owner["callee"])
    t = owner["sig"][owner["names"].index(name)][0]
    word = f"{role}:{name}:{'as-positional' if inp['as_pos'] else 'as-option'}"
    if devs and all(s.startswith("escape:") for s, _ in devs):
        key = (gen.module_name(program), inp["as_pos"])
        if key not in _refusals:
            o = outcome(jsonargparse.auto_cli, comps, args=["--help"], **kw)
            msg = o.get("message", "")
            _refusals[key] = (
                (o["kind"] == "ArgumentError" or (o["kind"] == "escape" and o["type"] in ("builtins.ValueError", "argparse.ArgumentError")))
                and f"'{name}'" in msg
                and ("already exists" in msg or "conflict" in msg or "clashes" in msg)
            )
        if _refusals[key]:
            return "refused-at-declaration", [], []
    out = []
    for sig, detail in devs:
        parts = sig.split(":")
        dropped = f"missing 1 required positional argument: '{name}'" in detail or "given-value-replaced-by-default" in sig
        if cls == "subcommand" and role == "init":
            # one key of the parsed namespace is both the constructor's parameter and the selector of the method
            new = "names:constructor-parameter-shares-the-key-of-the-method-selector:parameter-named-subcommand"
        elif cls == "subcommand" and role == "class":
            # a class without methods: the popped value is taken for the name of a method to run
            new = "names:value-taken-for-a-method-name:class:parameter-named-subcommand"
        elif (parts[0] == "wrong-binding" or sig.startswith("escape:builtins.TypeError")) and dropped:
            new = f"names:value-dropped-before-the-call:{role}:parameter-named-{cls}"
        elif cls == "like-Namespace-attribute" and t == "dict" and ("Got value: Namespace(" in detail or "required-but-not-included" in sig):
            new = f"names:valid-input-rejected:parameter-named-{cls}:{t}"
        else:
            new = f"names:{parts[0]}{':' + parts[1] if parts[0] == 'escape' else ''}:{role}:parameter-named-{cls}:{t}"
        out.append((new, f"{sig} | parameter {name!r} ({gen.TYPES[t][0]}) of the {role} | {detail}"))
    if kind == "valid" and not devs and cls == "neutral-control":
        cover = cover + [f"names:control-agrees:{word}:{c}" for c in cover if c.startswith(t + ":")]
    return kind, out, cover


def _first_call(stages, inp, all_leaves):
    """The earlier call of a history input, derived from the same leaf: everything in one top-level config with the
    OTHER values (as_positional=False, so every parameter is an option); `missing`: without the first required
    parameter; `rejected-config`: the file also has a key that nothing accepts; `mistyped-config`: the first parameter has
    a value its type refuses.  same_named = the valid variant, put
    under the name of the second call's file into the other directory."""
    hist = inp["hist"]
    a1 = gen._all(stages, "c", 1)
    valid = gen.build(stages, gen._inp(inp["sel"], a1, as_pos=False), all_leaves)
    if valid is None or len(valid["files"]) != 1:
        return None
    if hist["first"] == "missing":
        si, i = gen._required(stages)[0]
        a1[si][i] = ["-", 0]
    b1 = gen.build(stages, gen._inp(inp["sel"], a1, as_pos=False), all_leaves)
    if b1 is None or len(b1["files"]) != 1:
        return None
    if hist["first"] == "rejected-config":
        b1["files"][0] = dict(b1["files"][0], zz_nobody_accepts_this=1)
    if hist["first"] == "mistyped-config":
        # the value of the first parameter of the path is one that none of the types accepts (a dict holding a list)
        node = b1["files"][0] = json.loads(json.dumps(b1["files"][0]))
        for st in stages:
            if st["token"] is not None and st["token"] in node:
                node = node[st["token"]]
            if st["sig"]:
                node[st["names"][0]] = {"zz": [1]}
                break
    b1["same_named"] = valid["files"][0]
    return b1


def _verdict(program, mod, inp, stages, b, o):
    """Compare what the generated callees logged (and how auto_cli ended) with the binding derived from the signature."""
    from mc.util import tcanon

    form = program["form"]
    calls = list(mod.CALLS)
    tokens = list(mod.TOKENS)
    srcs = _sources(stages, inp)
    leaf_role = _role(stages[-1]["callee"])
    chans = "+".join(sorted({s for _, s in srcs.values() if s.startswith(("argv", "config"))})) or "nothing-given"
    devs = []
    exp = b["expect"]
    shown = f"argv={b['argv']} files={b['files']}" + (" under parse_optionals_as_positionals=True" if inp.get("optpos") else "")
    # what this case exercises, by the plan (independent of what the implementation does with it)
    kind = "valid" if exp["kind"] == "ok" else "missing-required"
    cover = [f"{p[0]}:{src}" for p, src in srcs.values()] if kind == "valid" else []
    if kind == "valid":
        if inp.get("selcfg"):
            cover.append(
                "select-by-config:"
                + ("nested" if len(stages) >= 3 else "first-level")
                + (":with-sibling-section" if inp.get("sib") is not None else ":alone")
            )
        if inp.get("optpos"):
            cover.append("optionals-as-positionals:" + ("extra-positionals" if any(s == "argv-extra-positional" for _, s in srcs.values()) else "ordinary-input"))
            if any(c[1] == 2 and gen.is_positional(p, inp["as_pos"]) and p[0] in gen.ZERO for row, st in zip(inp["assign"], stages) for c, p in zip(row, st["sig"])) and "optionals-as-positionals:extra-positionals" in cover:
                cover.append("optionals-as-positionals:extra-positionals-after-a-zero-valued-positional")
        for row, st in zip(inp["assign"], stages):
            for c, p in zip(row, st["sig"]):
                if c[1] == 2 and c[0] in "acp" and p[0] in gen.ZERO:
                    cover.append(f"zero-value:{p[0]}:{'config' if c[0] == 'c' else 'argv'}")
        if form in ("list", "dict", "mixed") and any(p[0] in gen.CLASS_TYPED for p, _ in srcs.values()):
            cover.append("class-typed-parameter-in-a-list-or-dict-of-components")
        if inp.get("cfg2") is not None:
            lvl = inp["cfg2"]
            both = any({"c", "d"} <= {c[0] for c in row} for row in inp["assign"])
            cover.append(
                "two-configs:"
                + ("both-at-the-top-level" if lvl == 0 else "second-at-the-component-level" if lvl == len(stages) - 1 else "second-at-an-intermediate-level")
                + (":same-component" if both else ":constructor-and-method")
            )
        for st in stages:
            if st.get("mkind"):
                cover.append(f"method:{st['mkind']}:{'inherited' if program.get('inh') in ('meth', 'all') else 'own'}")
            if st["callee"] == "K.__init__" and st["sig"]:
                cover.append(f"init:{'inherited' if program.get('inh') in ('init', 'all') else 'own'}")

    if o["kind"] == "timeout":
        return kind, [(f"timeout:{leaf_role}", shown)], cover
    if o["kind"] == "escape":
        what = "valid-input" if kind == "valid" else "missing-required"
        return kind, [(f"escape:{o['type']}:{leaf_role}:{what}", f"{o['message']} | {shown}")], cover
    if o["kind"] == "ArgumentError":
        return kind, [(f"escape:ArgumentError-raised-instead-of-exit:{leaf_role}", f"{o['message']} | {shown}")], cover

    if exp["kind"] == "exit2":
        si, i = exp["missing"][0]
        p = stages[si]["sig"][i]
        shape = f"{_role(stages[si]['callee'])}:{'keyword-only' if p[2] == 'K' else 'positional-or-keyword'}"
        if o["kind"] == "ok":
            devs.append((f"missing-required-accepted:{shape}", f"returned {o['value']!r}; calls {calls!r} | {shown}"))
        elif o["code"] != 2:
            devs.append((f"missing-required-exit-status-{o['code']}:{leaf_role}", shown))
        if calls and o["kind"] != "ok":
            devs.append((f"component-called-before-rejection:{leaf_role}", f"calls {calls!r} | {shown}"))
        return kind, devs, [f"missing:{shape}:{'as-positional' if inp['as_pos'] else 'as-option'}"]

    # a valid input
    if o["kind"] == "exit":
        text = o.get("stderr") or ""
        err = text.strip().splitlines()
        reason = "other"
        for word, pat in (
            ("unrecognized-arguments", "nrecognized arguments"),
            ("required-but-not-included", "is required but not included"),
            ("expected-subcommand", 'expected "subcommand"'),
            ("value-refused-by-type", "Expected a "),
            ("value-refused-by-type", "invalid "),
            ("value-refused-by-type", "Does not validate against"),
            ("arguments-are-required", "arguments are required"),
            ("key-not-accepted", "does not accept nested key"),
        ):
            if pat in text:
                reason = word
                break
        devs.append(
            (f"valid-input-rejected:{leaf_role}:{reason}", f"exit {o['code']}: {' / '.join(err[-3:])[:400]} | channels {chans} | {shown}")
        )
        return kind, devs, cover
    want = exp["calls"]
    got_names = [c[0] for c in calls]
    if got_names != [c[0] for c in want]:
        w_roles = "+".join(_role(c[0]) for c in want)
        g_roles = "+".join(_role(n) + ("" if n in [c[0] for c in want] else "(not-selected)") for n in got_names) or "none"
        devs.append((f"calls:expected-{w_roles}:got-{g_roles}", f"expected {[c[0] for c in want]}, log {got_names} | {shown}"))
        return kind, devs, cover
    ns = vars(mod)
    for (callee, wkw, owner), (_, gkw, gowner) in zip(want, calls):
        role = _role(callee)
        if sorted(gkw) != sorted(wkw):
            devs.append((f"parameter-set:{form}:{role}", f"{callee} received {sorted(gkw)}, owns {sorted(wkw)} | {shown}"))
            continue
        for n, src_expr in wkw.items():
            p, src = srcs[(callee, n)]
            expect_v = eval(src_expr, ns)  # noqa: S307 - generator-owned literals evaluated in the generated module
            if tcanon(gkw[n]) != tcanon(expect_v):
                shape = _misbinding(callee, n, gkw[n], expect_v, want, stages, ns, p, src)
                devs.append(
                    (
                        f"wrong-binding:{form}:{role}:{shape}",
                        f"{callee}({n}) received {gkw[n]!r} ({type(gkw[n]).__name__}), expected {expect_v!r} | {shown}",
                    )
                )
        if owner is not None and gowner != owner:
            what = {"class:K": "classmethod-not-bound-to-the-given-class", "static": "staticmethod-received-an-owner"}.get(
                owner, "method-not-on-the-constructed-object"
            )
            devs.append((f"{what}:{form}", f"{callee} ran on {gowner!r}, expected {owner!r} (int = object of that call) | {shown}"))
    value = o["value"]
    if exp["ret"] == "token":
        if not (len(tokens) == 1 and value is tokens[0] and tokens[0].name == want[-1][0]):
            devs.append((f"return-value:{form}:{leaf_role}", f"auto_cli returned {value!r}, callee returned {tokens!r} | {shown}"))
    else:
        if not (type(value) is mod.D and getattr(value, "_id", None) == 0):
            devs.append((f"return-value:{form}:{leaf_role}", f"auto_cli returned {value!r}, expected the instance built | {shown}"))
    return kind, devs, cover


def run_program(arg):
    """Worker: one program, every input of its plan."""
    from mc.util import restored_process_state

    program, plan = arg
    out = {"program": program, "devs": [], "n": {}, "cover": set(), "sample": None}
    cfg_dir = _config_dir()
    seen = set()
    with restored_process_state(), Loaded(program) as mod:
        for inp in gen.inputs(program, plan):
            kind, devs, cover = judge(program, mod, inp, cfg_dir, seen)
            out["n"][kind] = out["n"].get(kind, 0) + 1
            out["cover"].update(cover)
            for sig, detail in devs:
                out["devs"].append((sig, inp, detail))
            if devs:
                out["n"]["deviating"] = out["n"].get("deviating", 0) + 1
            if kind in ("valid", "missing-required") and not any(st["sig"] for st in gen.leaves(program)[inp["sel"]]):
                out["n"]["parameterless"] = out["n"].get("parameterless", 0) + 1
            if out["sample"] is None and kind == "valid" and not devs and inp["sel"] == 0:
                b = gen.build(gen.leaves(program)[0], inp, gen.leaves(program))
                out["sample"] = {"program": program, "argv": b["argv"], "config_files": b["files"], "expect": b["expect"]}
    out["cover"] = sorted(out["cover"])
    return out


def run_case(case):
    from mc.util import restored_process_state

    program, inp = case["program"], case["input"]
    cfg_dir = _config_dir()
    with restored_process_state(), Loaded(program) as mod:
        _, devs, _ = judge(program, mod, inp, cfg_dir)
    return [{"signature": s, "detail": d} for s, d in devs]


# ------------------------------------------------------------------------------------------------------
# the space


def class_programs(pairs, max_dev=None):
    """init x method signatures for the given (len(init), len(meth)) pairs."""
    for a, b in pairs:
        for init in gen.signatures(a, max_dev):
            for meth in gen.signatures(b, max_dev):
                yield a, b, init, meth


def space(quick):
    """-> list of (block name, program, plan), simplest first."""
    out = []

    def flat(form, n, plan, max_dev=None, tag="", flip=0, mark=None):
        for sig in gen.signatures(n, max_dev):
            prog = {"form": form, "sig": sig}
            if flip:
                prog["flip"] = 1
            if mark:  # same program as in another block, run with other inputs: gets its own module
                prog["block"] = mark
            out.append((f"{form}/{n}{tag}" + ("-flipped" if flip else ""), prog, plan))

    def xflat(form, n, plan, flip=0):
        """One parameter of the signature typed from the second alphabet (Optional[generic], Tuple, class types)."""
        for sig in gen.xsignatures(n):
            prog = {"form": form, "sig": sig}
            if flip:
                prog["flip"] = 1
            out.append((f"{form}/{n}-second-alphabet" + ("-flipped" if flip else ""), prog, plan))

    def xklass(pairs, plan, form="class", flip=0):
        for a, b in pairs:
            for init in gen.xsignatures(a) if a else [[]]:
                for meth in gen.xsignatures(b) if b else [[]]:
                    prog = {"form": form, "init": init, "meth": meth}
                    if form == "class":
                        prog.update({"naming": "shared", "nmeth": 2})
                    if flip:
                        prog["flip"] = 1
                    out.append((f"{form}/{a}+{b}-second-alphabet" + ("-flipped" if flip else ""), prog, plan))

    def klass(pairs, plan, namings, nmeths, form="class", max_dev=None, flip=0, nest=0, tag2="", mark=None):
        for a, b, init, meth in class_programs(pairs, max_dev):
            if form == "mixed":
                prog = {"form": "mixed", "init": init, "meth": meth}
                if mark:
                    prog["block"] = mark
                    out.append((f"mixed/{a}+{b}{tag2}", prog, plan))
                    continue
                if nmeths:  # the class inside the list / dict has the second method m2 as well
                    prog["nmeth"] = 2
                if nest:  # {"fa": fa, "grp": {"K": K}} instead of [fa, K]
                    prog["nest"] = 1
                out.append((f"mixed/{a}+{b}" + ("-two-methods" if nmeths else "") + ("-nested" if nest else ""), prog, plan))
                continue
            for naming in namings if (a and b) else namings[:1]:
                for nmeth in nmeths:
                    prog = {"form": "class", "init": init, "meth": meth, "naming": naming, "nmeth": nmeth}
                    if flip:
                        prog["flip"] = 1
                    if mark:
                        prog["block"] = mark
                    tag = ("-reduced" if max_dev is not None else "") + ("-flipped" if flip else "") + tag2
                    out.append((f"class/{a}+{b}{tag}", prog, plan))

    def kinds(pairs, plan, variants, naming="shared"):
        """Classes whose methods are plain / @classmethod / @staticmethod, defined in the class or inherited."""
        for a, b, init, meth in class_programs(pairs):
            for k1, k2, inh in variants:
                prog = {"form": "class", "init": init, "meth": meth, "naming": naming, "nmeth": 2}
                prog.update({"mkind": k1, "m2kind": k2, "inh": inh})
                out.append((f"class/{a}+{b}-method-kinds-and-inheritance", prog, plan))

    K3 = gen.KINDS
    # both methods of the same kind x each way of inheriting (nothing / the methods / the constructor / everything);
    # m2 of the next kind with nothing / everything inherited; the plain class (inst, inst, "") is in the class
    # blocks already
    kind_variants = [(k, k, inh) for inh in gen.INHERIT for k in K3 if (k, inh) != ("inst", "")]
    mixed_kind_variants = [(k, K3[(i + 1) % 3], inh) for inh in ("", "all") for i, k in enumerate(K3)]
    # for the parameterless method only the constructor side matters: own and inherited constructor x method kind
    init_variants = [(k, k, inh) for inh in ("", "init") for k in K3 if (k, inh) != ("inst", "")] + [("inst", "inst", "all")]

    def second_alphabet_and_two_configs():
        # second alphabet (Optional[generic] without default -> None, class-typed parameters), every component form
        deep = not quick
        xflat("func", 1, "full")
        xflat("func", 2, "lean" if deep else "lean3")
        xflat("list", 1, "full")
        xflat("dict", 1, "lean" if deep else "lean3")
        xflat("dataclass", 1, "full")
        xflat("plainclass", 1, "lean")
        xklass([(0, 1), (1, 0)], "full" if deep else "lean")
        xklass([(0, 1), (1, 0)], "lean", form="mixed")
        for form in ("func", "list"):
            xflat(form, 1, "lean", flip=1)
        # settings from two config sources (plan "none" = only the two-config inputs; the other inputs of these
        # programs are in the blocks above).  Types: vectors differing from int in at most 1 position for the
        # function and the list of functions (quick) / everywhere (thorough), int only for the other forms (quick)
        two = {"mark": "two-configs"}
        dev = 1 if deep else 0
        flat("func", 2, "none:two", max_dev=1, tag="-reduced-two-configs", **two)
        flat("list", 2, "none:two", max_dev=1, tag="-reduced-two-configs", **two)
        flat("dict", 2, "none:deep:two", max_dev=dev, tag="-reduced-two-configs", **two)
        klass([(0, 2)], "none:two", ["shared"], (2,), max_dev=dev, tag2="-two-configs", **two)
        klass([(1, 1)], "none:two", ["shared"], (2,), max_dev=0, tag2="-two-configs", **two)
        klass([(0, 2)], "none:two", None, (2,), form="mixed", max_dev=dev, tag2="-reduced-two-configs", **two)

    def zero_optpos_history():
        """Round 4: zero values (0, '', false, [], {}), the parsing setting parse_optionals_as_positionals, and
        histories of two calls in one process with relative --config paths.  Plan "none" + suffixes: the other inputs
        of these programs are in the blocks above."""
        r4 = {"mark": "round4"}
        flat("func", 1, "none:zero:optpos", tag="-zero-optpos", **r4)
        flat("func", 2, "none:zero:optpos", max_dev=1 if quick else None, tag="-reduced-zero-optpos" if quick else "-zero-optpos", **r4)
        flat("list", 1, "none:zero:optpos", tag="-zero-optpos", **r4)
        flat("dict", 1, "none:deep:zero:optpos", tag="-zero-optpos", **r4)
        flat("dataclass", 1, "none:zero:optpos", tag="-zero-optpos", **r4)
        klass([(0, 1), (1, 0)], "none:zero:optpos", ["shared"], (2,), tag2="-zero-optpos", **r4)
        klass([(0, 2)], "none:optpos", ["shared"], (2,), max_dev=0 if quick else 1, tag2="-optpos", **r4)
        klass([(0, 1)], "none:zero:optpos", None, None, form="mixed", tag2="-zero-optpos", **r4)
        h4 = {"mark": "round4-history"}
        flat("func", 1, "none:hist", max_dev=0, tag="-reduced-history", **h4)
        flat("func", 2, "none:hist", max_dev=0, tag="-reduced-history", **h4)
        flat("list", 1, "none:hist", max_dev=0, tag="-reduced-history", **h4)
        flat("dict", 1, "none:deep:hist", max_dev=0, tag="-reduced-history", **h4)
        klass([(0, 1), (1, 0)], "none:hist", ["shared"], (2,), max_dev=0, tag2="-history", **h4)
        klass([(0, 1)], "none:hist", None, None, form="mixed", max_dev=0, tag2="-reduced-history", **h4)

    def names_axis():
        """Parameter-name axis: ONE parameter of the enumerated component carries a name the library itself uses
        (gen.NAMES, with two neutral control names) x component form and position x type x {default, required}."""
        other_after, other_before = ["int", 1, "K"], ["int", 0, "P"]
        for name in gen.NAMES:
            for t in gen.NAME_TYPES:
                for d in (1, 0):
                    me = [t, d, "P"]
                    progs = [
                        ("func/1", {"form": "func", "sig": [me]}, {"at": "leaf", "i": 0}),
                        ("func/2-first", {"form": "func", "sig": [me, other_after]}, {"at": "leaf", "i": 0}),
                        ("func/2-second", {"form": "func", "sig": [other_before, me]}, {"at": "leaf", "i": 1}),
                        ("class/1+1-constructor", {"form": "class", "init": [me], "meth": [["int", 1, "P"]], "naming": "distinct", "nmeth": 1}, {"at": "init", "i": 0}),
                        ("class/1+1-method", {"form": "class", "init": [["int", 1, "P"]], "meth": [me], "naming": "distinct", "nmeth": 1}, {"at": "meth", "i": 0}),
                        ("list/1", {"form": "list", "sig": [me]}, {"at": "leaf", "i": 0}),
                        ("dict/1", {"form": "dict", "sig": [me]}, {"at": "leaf", "i": 0}),
                        ("plainclass/1", {"form": "plainclass", "sig": [me]}, {"at": "leaf", "i": 0}),
                    ]
                    for where, prog, pn in progs:
                        prog["pname"] = dict(pn, name=name)
                        out.append((f"names/{where}", prog, "none:deep:names" if prog["form"] == "dict" else "none:names"))

    if quick:
        flat("func", 1, "full")
        flat("func", 2, "full")
        flat("func", 3, "lean3:first2")
        flat("list", 1, "full:sel")
        flat("list", 2, "lean3")
        flat("dataclass", 1, "full")
        flat("dataclass", 2, "lean")
        flat("plainclass", 1, "full")
        flat("dict", 1, "full:sel")
        flat("dict", 2, "lean3:deep", max_dev=1, tag="-reduced")
        klass([(0, 0), (0, 1), (1, 0)], "full:sel", ["shared", "distinct"], (2, 1))
        klass([(1, 1)], "lean", ["shared"], (2,))
        klass([(2, 0), (0, 2)], "lean3", ["shared"], (2,), max_dev=1)
        klass([(0, 1), (1, 0)], "lean", None, None, form="mixed")
        klass([(0, 1), (1, 0)], "lean:sel", None, (2,), form="mixed")
        klass([(0, 1)], "argv:sel", None, (2,), form="mixed", nest=1)
        kinds([(0, 1)], "lean", kind_variants)
        kinds([(1, 0)], "lean", init_variants)
        # the other default / the other value at position 0 (e.g. Optional[int] = 4 given null, bool = False)
        for form in ("func", "list", "dataclass"):
            flat(form, 1, "full", flip=1)
        klass([(0, 1), (1, 0)], "full", ["shared"], (2,), flip=1)
        second_alphabet_and_two_configs()
        zero_optpos_history()
        names_axis()
    else:
        flat("func", 1, "full")
        flat("func", 2, "full")
        flat("func", 3, "product")
        flat("func", 4, "lean3", max_dev=2, tag="-reduced")
        for form in ("list", "dataclass", "plainclass"):
            flat(form, 1, "full:sel" if form == "list" else "full")
            flat(form, 2, "full")
        for form in ("list", "dataclass", "plainclass"):
            flat(form, 3, "lean3", max_dev=2, tag="-reduced")
        flat("dict", 1, "full:sel")
        flat("dict", 2, "lean")
        flat("dict", 3, "lean3:deep", max_dev=2, tag="-reduced")
        klass([(0, 0), (0, 1), (1, 0)], "full:sel", ["shared", "distinct"], (2, 1))
        klass([(1, 1)], "full", ["shared"], (2,))
        klass([(1, 1)], "product", ["distinct"], (2,))
        klass([(1, 1)], "lean", ["shared", "distinct"], (1,))
        klass([(0, 2), (2, 0)], "product", ["shared"], (2,))
        klass([(1, 2), (2, 1)], "lean3", ["shared"], (2,), max_dev=1)
        klass([(0, 1), (1, 0), (1, 1), (0, 2), (2, 0)], "lean", None, None, form="mixed")
        klass([(0, 1), (1, 0)], "lean:sel", None, (2,), form="mixed")
        klass([(0, 1), (1, 0)], "argv:sel", None, (2,), form="mixed", nest=1)
        kinds([(0, 1)], "full", kind_variants + mixed_kind_variants)
        kinds([(1, 0)], "lean", init_variants)
        kinds([(1, 1)], "lean", [("cls", "cls", "all"), ("static", "static", "meth")])
        for form in ("func", "list", "dataclass", "plainclass", "dict"):
            flat(form, 1, "full", flip=1)
        flat("func", 2, "full", flip=1)
        klass([(0, 1), (1, 0)], "full", ["shared"], (2,), flip=1)
        second_alphabet_and_two_configs()
        zero_optpos_history()
        names_axis()
    return out


def explore(ctx):
    items = space(ctx.quick)
    # development switch: VERIF_C12_ONLY=<substring of a block name> runs only those blocks (e.g. "names/"); the run
    # then says so in caps_hit, is not exhaustive, and the guards of the other blocks are not evaluated
    only = os.environ.get("VERIF_C12_ONLY")
    if only:
        items = [it for it in items if only in it[0]]
    names_stat = {}  # (form and position, name) -> [programs, judged runs, refused runs, deviating runs]
    for name, p, _ in items:
        if p.get("pname"):
            names_stat[(name[len("names/"):], p["pname"]["name"])] = [0, 0, 0, 0]
    blocks = {}
    for name, _, plan in items:
        b = blocks.setdefault(f"{name} [{plan}]", {"programs": 0, "cases": 0})
        b["programs"] += 1
    totals = {}
    cover = set()
    n_programs = 0
    sampled = set()
    index = {json.dumps(p, sort_keys=True): f"{name} [{plan}]" for name, p, plan in items}
    for out in ctx.pmap(run_program, [(p, plan) for _, p, plan in items]):
        n_programs += 1
        name = index[json.dumps(out["program"], sort_keys=True)]
        for k, v in out["n"].items():
            totals[k] = totals.get(k, 0) + v
            if k in ("valid", "missing-required"):
                blocks[name]["cases"] += v
        cover.update(out["cover"])
        if out["program"].get("pname"):
            ns = names_stat[(name.split(" ")[0][len("names/"):], out["program"]["pname"]["name"])]
            ns[0] += 1
            ns[1] += out["n"].get("valid", 0) + out["n"].get("missing-required", 0)
            ns[2] += out["n"].get("refused-at-declaration", 0)
            ns[3] += out["n"].get("deviating", 0)
        for sig, inp, detail in out["devs"]:
            ctx.deviation(sig, {"program": out["program"], "input": inp}, detail)
        form = out["program"]["form"]
        if out["sample"] and form not in sampled and blocks[name]["programs"] > 30:
            sampled.add(form)
            ctx.sample(out["sample"])
    for k, v in totals.items():
        ctx.count("cases_" + k, v)
    judged = totals.get("valid", 0) + totals.get("missing-required", 0)
    sig_counts = {n: sum(1 for _ in gen.signatures(n)) for n in (1, 2, 3)}
    refused_pairs = sorted(k for k, v in names_stat.items() if v[2] and not v[1])
    partly_refused = sorted(k for k, v in names_stat.items() if v[2] and v[1])
    names_evidence = {
        "names": gen.NAME_CLASSES,
        "types": gen.NAME_TYPES,
        "forms": sorted({k[0] for k in names_stat}),
        "programs": sum(v[0] for v in names_stat.values()),
        "judged_runs": sum(v[1] for v in names_stat.values()),
        "deviating_runs": sum(v[3] for v in names_stat.values()),
        "runs_refused_at_declaration": sum(v[2] for v in names_stat.values()),
        "refused_pairs": {n: [f for f, n2 in refused_pairs if n2 == n] for n in sorted({n for _, n in refused_pairs})},
        "pairs_refused_only_for_one_as_positional_setting": [list(k) for k in partly_refused],
        "rule": "a (name, form) pair is refused at declaration when auto_cli raises ValueError / ArgumentError naming the "
        "parameter for every command line, also for --help (i.e. while the parser is built); such pairs are not judged",
    }
    ctx.cover(
        names_refused_at_declaration=len(refused_pairs),
        names_axis=names_evidence,
        evaluations=judged,
        states=n_programs,
        transitions=judged,
        traces_validated_against_impl=judged,
        distinct_nontrivial=judged - totals.get("parameterless", 0),
        rule="a case is one (generated program, input) pair executed through auto_cli; cases are distinct by "
        "construction (inputs that build the same command line as an earlier input of the program are skipped and "
        "counted separately); non-trivial = the selected component path has at least one parameter, i.e. the case "
        "binds or misses at least one value (valid: the callee's logged arguments, call count and return value are "
        "compared; missing-required: exit status and absence of calls are compared); states = distinct generated "
        "programs (modules written and imported), transitions = auto_cli calls",
        exhaustive=not only,
        caps_hit=[f"VERIF_C12_ONLY={only}: only the blocks whose name contains it were run"] if only else [],
        bounds={
            "types": {k: gen.TYPES[k][0] for k in gen.TYPE_ORDER},
            "second_alphabet": {k: gen.TYPES[k][0] for k in gen.X_ORDER},
            "second_alphabet_signatures": "every default/kind pattern of length 1 and 2 x every position x every type "
            "of the second alphabet at that position, int elsewhere (44 / 242 signatures)",
            "parameter_options": "8 types x {required, default} x {positional-or-keyword, keyword-only}",
            "legal_signatures_by_parameter_count": sig_counts,
            "blocks": blocks,
            "plans": {
                "full": "{omitted, argv, --config}^parameters (config at the top level and, for staged forms, at the "
                "component's own level; --config before and after the other tokens of its level), each required "
                "parameter omitted, the other value of each parameter by each channel, options before positionals, "
                "'--name value' style, each optional parameter alone by each channel, as_positional=False (all on "
                "argv / all in config / minimal / each required omitted)",
                "product": "{omitted, argv, --config}^parameters (both config placements) + each required omitted",
                "lean": "all on argv, all in --config (top level and own level), only the required ones, each "
                "required one omitted",
                "lean3": "all on argv, the required ones in --config and nothing else, each required one omitted",
                "decoy / decoy1": "sibling function or second method m2: all on argv (+ only the required ones)",
                "argv": "all on argv and nothing else",
                ":sel": "additionally sub-commands selected through the config: for k = 1 .. number of sub-command "
                "levels the tokens of the last k levels are left out and those levels are named by explicit "
                "'subcommand' keys in a top-level --config, alone and next to a complete section for each other leaf "
                "of the program; per (k, sibling): everything in the config (as_positional=False), token-selected "
                "levels on argv + the rest in the config, each required parameter omitted; without sibling also "
                "only-required, as_positional=True and the other values with --config last; for the leaves that are "
                "not the enumerated one (so that a sub-command that is not the first of its level is selected too) "
                "only 'everything in the config' per (k, sibling)",
                ":two": "additionally the settings come from two config files: every distribution of the parameters "
                "of the path over a first file (top level, nested sections) and a second file, both used, x every "
                "parser level the second file can be given at (0 = second --config at the top level, an intermediate "
                "sub-command level, the component's own level); per (distribution, level): everything given with "
                "as_positional=False, the same with as_positional=True, only the required parameters",
                ":zero": "every parameter given its zero value (0, '', 0.0, false, [], {}; enum keeps its ordinary value): all "
                "on the command line (both option styles, as_positional True / False), all in the config, one parameter at a "
                "time on the command line",
                ":optpos": "inputs run under set_parsing_settings(parse_optionals_as_positionals=True), as_positional True / "
                "False: all on the command line (ordinary / zero values), all in the config, and for k = 1 .. number of "
                "options of the leaf level the first k options as extra positionals x the other options omitted (ordinary / "
                "zero values) / by name (zero values) / in the config, once with the other values and options first",
                ":hist": "two auto_cli calls in one process working in a directory A (a directory B next to it holds a "
                "same-named config file with other values): first call valid / a required parameter missing / config "
                "file with a key nobody accepts / config file with a value the parameter's type refuses, its config file in A or B, path relative or absolute; second call (the "
                "judged one) everything in a config file of A given by a relative or an absolute path",
                ":first2": "as :first1, and the input 'required ones in --config and nothing else' only for the type vectors "
                "that differ from int in at most two positions (169 of 512; 'all on argv' for every signature)",
                ":names": "parameter-name axis: every parameter on the command line (as_positional True / False), every "
                "parameter in the config, only the required ones (the named parameter keeps its default); programs: ONE "
                "parameter named from the alphabet of names the library itself uses (names_axis.names) x {int, str, "
                "Dict[str,int]} x {default, required} x {function/1, function/2 first / second parameter, class "
                "constructor, class method, first of a list of functions, every leaf of a nested dict of functions, class "
                "without methods}",
                "none": "no inputs besides those of the suffixes (the programs' other inputs are in another block)",
                ":deep": "dict form: only the leaf at depth 3",
                ":first": "lean3 with only the first required parameter omitted (instead of each in turn)",
                ":first1": "as :first, and the omission only for the type vectors that differ from int in at most one "
                "position (the valid inputs for every signature)",
            },
            "reduction": "dict form with 2 parameters and classes with 2+0 / 0+2 (__init__ + method) parameters: type "
            "vectors that differ from int in at most 1 position (15 of 64); 3-parameter functions: the input with the "
            "first required parameter omitted only for the type vectors that differ from int in at most 1 position "
            "(22 of 512), the input 'required ones in the config' only for those that differ in at most 2 positions (169 "
            "of 512), 'all on argv' for all 13312 signatures; second alphabet: one position of the "
            "signature, int elsewhere; two-config blocks: type vectors that differ from int in at most 1 position "
            "(function, list of functions) or int only (dict, class 0+2 and 1+1, function + class); everything else "
            "unreduced"
            if ctx.quick
            else "4-parameter functions: all 57 default/kind patterns x the type vectors that differ from int in at "
            "most 2 positions (323 of 4096); list/3, dataclass/3, plainclass/3 and dict/3: type vectors that differ from "
            "int in at most 2 positions (169 of 512); classes with 3 parameters (1+2, 2+1): the 2-parameter side restricted to type "
            "vectors that differ from int in at most 1 position (15 of 64)",
        },
        exercised_bindings=sorted(cover),
        inexpressible_inputs_skipped=totals.get("inexpressible", 0),
    )
    ctx.assume(
        "with as_positional=True a parameter without default and without Optional annotation is a positional in "
        "signature order, every other parameter is the option --<name> (the documented auto_cli interface)"
    )
    ctx.assume("positional tokens are consumed in order; inputs that cannot be written down under this rule are skipped")
    # vacuity guards of the parameter-name axis
    planned = {(f, n) for f in ("func/1", "func/2-first", "func/2-second", "class/1+1-constructor", "class/1+1-method", "list/1", "dict/1", "plainclass/1") for n in gen.NAMES}
    if not only or only in "names/":
        unexecuted = sorted(k for k in planned if names_stat.get(k, [0, 0, 0, 0])[0] != 2 * len(gen.NAME_TYPES) or not (names_stat[k][1] + names_stat[k][2]))
        ctx.require(
            set(names_stat) == planned and not unexecuted,
            "name axis: every planned (name, component form and position) pair ran all its programs (3 types x {default, "
            "required}) and each was either judged or refused at declaration" + (f"; not so: {unexecuted[:6]}" if unexecuted else ""),
        )
        controls = gen.NAME_CLASSES["neutral-control"]
        bad = sorted(k for k, v in names_stat.items() if k[1] in controls and (v[2] or v[3] or not v[1]))
        needn = {
            f"names:control-agrees:{r}:{n}:{ap}:{t}:{src}"
            for n in controls
            for t in gen.NAME_TYPES
            for r, ap, src in (
                ("function", "as-positional", "argv-positional"), ("function", "as-option", "argv-option"), ("function", "as-positional", "config"),
                ("function", "as-positional", "default"), ("init", "as-positional", "argv-positional"), ("init", "as-positional", "config"),
                ("init", "as-positional", "default"), ("method", "as-positional", "argv-positional"), ("method", "as-option", "argv-option"),
                ("method", "as-positional", "config"), ("method", "as-positional", "default"), ("class", "as-positional", "config"),
            )
        }
        lackingn = sorted(needn - cover)
        ctx.require(
            not bad and not lackingn,
            "name axis: the neutral control names are never refused and bind correctly for every type through the command "
            "line, the config and the default, as parameter of a function, a constructor, a method and a plain class"
            + (f"; deviating controls {bad[:4]}" if bad else "") + (f"; missing: {lackingn[:6]}" if lackingn else ""),
        )
        ctx.require(
            0 < len(refused_pairs) < len(planned) // 2 and names_evidence["judged_runs"] > 1500,
            "name axis: some (name, form) pairs are refused at declaration, most are judged (more than 1500 judged runs)",
        )
        unexpected = sorted(
            k
            for k in refused_pairs + partly_refused
            if gen.NAME_CLASS[k[1]] not in ("config", "like-a-built-in-option") and k != ("class/1+1-constructor", "subcommand")
        )
        ctx.require(
            not unexpected,
            "name axis: only names of options every parser already has (config, help, print_config) and a constructor "
            "parameter 'subcommand' next to method sub-commands are refused at declaration; a refusal of another name would "
            "silently shrink the judged space" + (f"; refused: {unexpected[:6]}" if unexpected else ""),
        )
    if only:
        return
    # vacuity guards
    ctx.require(sig_counts == {1: 32, 2: 704, 3: 13312}, "the generator yields 32 / 704 / 13312 legal signatures")
    ctx.require(
        totals.get("valid", 0) > 10000 and totals.get("missing-required", 0) > 3000,
        "more than 10000 valid inputs and more than 3000 inputs with a missing required parameter are in the plan",
    )
    need = {f"{t}:{s}" for t in gen.TYPE_ORDER for s in ("argv-option", "config", "default")}
    need |= {f"{t}:argv-positional" for t in gen.TYPE_ORDER if t != "optint"} | {"optint:optional-none"}
    lacking = sorted(need - cover)
    ctx.require(
        not lacking,
        "every type hint is bound through every source (argv positional / argv option / config / default; Optional "
        "without default -> None)" + (f"; missing: {lacking}" if lacking else ""),
    )
    needx = {f"{t}:{s}" for t in gen.X_ORDER for s in ("argv-option", "config", "default")}
    needx |= {f"{t}:optional-none" for t in gen.X_ORDER if t in gen.OPTIONAL}
    needx |= {f"{t}:argv-positional" for t in gen.X_ORDER if t not in gen.OPTIONAL and t not in gen.NEVER_POSITIONAL}
    needx |= {
        f"two-configs:{w}:same-component"
        for w in ("both-at-the-top-level", "second-at-an-intermediate-level", "second-at-the-component-level")
    } | {"two-configs:both-at-the-top-level:constructor-and-method", "class-typed-parameter-in-a-list-or-dict-of-components"}
    lackingx = sorted(needx - cover)
    ctx.require(
        not lackingx,
        "every type of the second alphabet (Optional[generic], Tuple, dataclass, class_path types) is bound through "
        "every source, also as a parameter of one of several components; the settings of one component come from two "
        "config files given at the same level, at an intermediate level and at the component's level"
        + (f"; missing: {lackingx}" if lackingx else ""),
    )
    need4 = {f"zero-value:{t}:{c}" for t in gen.ZERO for c in ("argv", "config")}
    need4 |= {f"{t}:argv-extra-positional" for t in gen.TYPE_ORDER}
    need4 |= {f"optionals-as-positionals:{w}" for w in ("ordinary-input", "extra-positionals", "extra-positionals-after-a-zero-valued-positional")}
    need4 |= {
        f"history:{f}:config-in-{d}:{p}-path:then-{t}-path"
        for f in gen.HISTORY_FIRST
        for d in ("cwd", "other")
        for p in ("rel", "abs")
        for t in ("relative", "absolute")
    }
    lacking4 = sorted(need4 - cover)
    ctx.require(
        not lacking4,
        "every type with a zero value (0, '', 0.0, false, [], {}) is given it on the command line and in the config; "
        "under parse_optionals_as_positionals every type is bound from an extra positional, also behind a zero-valued "
        "positional; second calls with relative and absolute --config paths follow valid, incomplete and rejected first "
        "calls whose config file lies in the working directory / in another one" + (f"; missing: {lacking4}" if lacking4 else ""),
    )
    need2 = {f"method:{k}:{w}" for k in gen.KINDS for w in ("own", "inherited")} | {"init:own", "init:inherited"}
    need2 |= {f"select-by-config:{d}:{w}" for d in ("first-level", "nested") for w in ("alone", "with-sibling-section")}
    lacking2 = sorted(need2 - cover)
    ctx.require(
        not lacking2,
        "plain methods, classmethods and staticmethods, defined in the class and inherited, own and inherited "
        "constructors are bound; sub-commands at the first and at nested levels are selected through the config, alone "
        "and next to sections of siblings" + (f"; missing: {lacking2}" if lacking2 else ""),
    )
    forms = {p["form"] for _, p, _ in items}
    ctx.require(forms == {"func", "list", "dict", "class", "mixed", "dataclass", "plainclass"}, "every component form ran")
    ctx.require(n_programs == len(items), "every program reported back")
