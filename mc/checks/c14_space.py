"""C14: the enumerated space.  Generators of cases {"t": declared type, "st": style, "srcs": [[channel, form, spec]]}.

Channels: default (argument default), obj (parse_object), cfg (--config <json text>), json (--x=<json or class>),
dot (dotted argv options).  Forms: E explicit {class_path, init_args, dict_kwargs} / .class_path .init_args.k;
S short (class string, --x=Class --x.k=v); I init_args without class_path; F flat init args.
"""
from __future__ import annotations

import itertools

from mc.checks import c14_model as M

VALID = {"int": [2], "str": ["w"], "bool": [True], "optint": [3]}
INVALID = {"int": ["q", True], "str": [5], "bool": [2], "optint": ["q"]}


def ann_key(ann):
    import typing

    if ann is int:
        return "int"
    if ann is str:
        return "str"
    if ann is bool:
        return "bool"
    if ann == typing.Optional[int]:
        return "optint"
    return None


def arg_variants(tok):
    """[(label, args, dict_kwargs)] for a class / function token: single-position mutations of a valid base."""
    try:
        obj = M.my_import(M.TOKENS[tok])
    except M.Reject:
        return [("base", {}, {})]
    if not callable(obj) or tok in ("object", "type", "method"):
        return [("base", {}, {})]
    ps, varkw = M.params(obj)
    scalars = [(n, ann_key(a), d) for n, (a, d) in ps.items() if ann_key(a)]
    if any(not ann_key(a) and d is M.REQUIRED for a, d in ps.values()):
        return [("base", {}, {})]  # holders are enumerated by their own family
    base = {n: VALID[k][0] for n, k, d in scalars if d is M.REQUIRED}
    out = []
    if base:
        out.append(("missing", {}, {}))
    out.append(("base", dict(base), {}))
    for n, k, d in scalars:
        if n not in base:
            for v in VALID[k]:
                out.append(("valid", {**base, n: v}, {}))
        for v in INVALID[k]:
            out.append(("ill", {**base, n: v}, {}))
    out.append(("unknown", {**base, "q": 2}, {}))
    if len(scalars) > 1:
        out.append(("allvalid", {n: VALID[k][0] for n, k, d in scalars}, {}))
    out.append(("dk-unknown", dict(base), {"q": 2}))
    first = scalars[0]
    out.append(("dk-param-valid", dict(base), {first[0]: VALID[first[1]][0]}))
    out.append(("dk-param-ill", dict(base), {first[0]: INVALID[first[1]][0]}))
    return out


def trimmed(variants):
    """One representative per mutation label."""
    seen, out = set(), []
    for v in variants:
        if v[0] not in seen:
            seen.add(v[0])
            out.append(v)
    return out


NAMED_FORMS = [("obj", "E"), ("cfg", "E"), ("json", "E"), ("dot", "E"), ("dot", "S")]
BARE_FORMS = [("obj", "S"), ("cfg", "S"), ("json", "S")]
CLASSLESS_FORMS = [("obj", "I"), ("obj", "F"), ("cfg", "I"), ("cfg", "F"), ("json", "I"), ("json", "F"), ("dot", "I"), ("dot", "F")]

SINGLE_TYPES = ["Base", "SubAdd", "Abs", "Other", "Kw", "OptBase", "UnionBO"]
NONCLASS_TOKENS = [
    "CONST", "TEXT", "INST_BASE", "INST_SUB", "INST_UNRELATED", "INST_OTHER", "module", "package", "os.path", "os.sep",
    "method", "object", "type", "missing_attr", "missing_module", "missing_nested",
]  # fmt: skip
FAMILY_TOKENS = [
    "Base", "SubAdd", "SubOver", "SubReq", "SubSub", "Twin", "Twin2", "Far", "_Private", "Unrelated", "Other",
    "OtherSub", "Abs", "AbsImpl", "AbsStill", "Kw", "KwSub",
]  # fmt: skip
# lineage axis: the line of descent declared class -> named class passes through classes that are themselves not
# nameable (one / two abstract intermediates below an abstract root, an abstract intermediate below a concrete root,
# a private intermediate), or there are two lines (diamond); MidAbs is such an intermediate named itself
LINEAGE_TOKENS = ["AbsStillImpl", "AbsDeepImpl", "MidAbs", "MidImpl", "BelowPrivate", "Diamond"]
FAMILY_TOKENS += LINEAGE_TOKENS
ALL_TOKENS = FAMILY_TOKENS + M.FUNC_TOKENS + NONCLASS_TOKENS


def spec_of(tok, by="path", args=None, dk=None):
    s = {"c": tok, "by": by}
    if args:
        s["a"] = args
    if dk:
        s["k"] = dk
    return s


def case(t, srcs, st="arg"):
    return {"t": t, "st": st, "srcs": srcs}


_acc = {}


def class_ok(t, tok, by):
    """Does the model accept naming `tok` for declared type `t` at all (whatever the init args)?"""
    from mc.checks.c14 import decl_type

    key = (t, tok, by)
    if key not in _acc:
        M.ensure_loaded()
        kind, payload = M.split_type(decl_type(t))
        try:
            M.resolve({"c": tok, "by": by}, payload[0])
            _acc[key] = True
        except M.Reject:
            _acc[key] = False
    return _acc[key]


def bys_of(tok):
    return ["path"] + (["name"] if tok in FAMILY_TOKENS + M.FUNC_TOKENS else [])


# -------------------------------------------------------------------------------------------------
# A: one source naming a class


def gen_single(quick, st="arg", types=SINGLE_TYPES):
    named = NAMED_FORMS if st == "arg" or not quick else [("obj", "E"), ("json", "E"), ("dot", "S")]
    bare = BARE_FORMS if st == "arg" or not quick else [("json", "S")]
    for t in types:
        for tok in ALL_TOKENS:
            for by in bys_of(tok):
                variants = arg_variants(tok)
                if not class_ok(t, tok, by) or st != "arg":
                    # the class itself is refused (or second style): the init-args axis is reduced to one
                    # representative per mutation
                    keep = ("base", "valid", "unknown") if quick and not class_ok(t, tok, by) else ("base", "valid", "unknown", "missing", "ill", "dk-unknown")
                    variants = [v for v in trimmed(variants) if v[0] in keep]
                if tok.startswith("INST_"):
                    variants = [("base", {}, {}), ("valid", {"a": 2}, {}), ("unknown", {"q": 2}, {}), ("dk-unknown", {}, {"q": 2})]
                for label, args, dk in variants:
                    forms = list(named) + (bare if not args and not dk else [])
                    for ch, form in forms:
                        yield case(t, [[ch, form, spec_of(tok, by, args, dk)]], st)


def gen_styles(quick):
    """F: the same axis through add_subclass_arguments."""
    yield from gen_single(quick, st="sub", types=["Base", "Abs", "Kw", "UnionBO"])


# -------------------------------------------------------------------------------------------------
# B: init args without a class


IMPLICIT = {"Base": "Base", "SubAdd": "SubAdd", "Abs": "Abs", "Other": "Other", "Kw": "Kw", "OptBase": "Base", "UnionBO": "Base"}


def gen_classless(quick):
    for st in ("arg", "sub"):
        for t in SINGLE_TYPES:
            if st == "sub" and t in ("OptBase", "SubAdd", "Other"):
                continue
            variants = arg_variants(IMPLICIT[t])
            if t == "UnionBO":
                variants = variants + [(lab, a, k) for lab, a, k in arg_variants("Other") if a or k]
            for label, args, dk in variants:
                for ch, form in CLASSLESS_FORMS:
                    if form == "F" and (dk or not args):
                        continue
                    if ch == "dot" and not args and not dk:
                        continue
                    yield case(t, [[ch, form, spec_of(None, "path", args, dk)]], st)
    # class taken from the argument default
    for t, dtoks in (("Base", ["SubAdd", "SubReq", "SubOver", "make_sub"]), ("Abs", ["AbsImpl"]), ("UnionBO", ["OtherSub"]), ("OptBase", ["SubSub"])):
        for dtok in dtoks:
            for dlabel, dargs, ddk in arg_variants(dtok):
                if dlabel not in ("base", "valid", "missing"):
                    continue
                dflt = ["default", "E", spec_of(dtok, "path", dargs)]
                yield case(t, [dflt, ["cfg", "I", {"c": None}]])
                for label, args, dk in arg_variants(dtok):
                    if label in ("missing", "base", "allvalid") or dk:
                        continue
                    for ch, form in CLASSLESS_FORMS:
                        if ch == "obj":
                            continue
                        yield case(t, [dflt, [ch, form, spec_of(None, "path", args)]])


# -------------------------------------------------------------------------------------------------
# C: two (three) sources, class changes

FIRST_FORMS = [("default", "E"), ("cfg", "E"), ("json", "E"), ("dot", "S"), ("dot", "E")]
SECOND_FORMS = [("cfg", "E"), ("json", "E"), ("json", "S"), ("dot", "S"), ("dot", "E")]
QUICK_PAIRS = [
    (("default", "E"), ("dot", "S")), (("cfg", "E"), ("dot", "S")), (("cfg", "E"), ("cfg", "E")),
    (("cfg", "E"), ("json", "E")), (("dot", "S"), ("dot", "S")), (("json", "E"), ("dot", "E")),
]  # fmt: skip

CHANGE = {
    "Base": (["Base", "SubAdd", "SubOver", "SubReq", "SubSub", "make_sub", "Far"], ["Unrelated", "INST_BASE", "make_unrelated"]),
    "UnionBO": (["SubAdd", "SubSub", "Other", "OtherSub"], ["Unrelated"]),
    "Abs": (["AbsImpl", "AbsStill"], ["Base"]),
    "Kw": (["Kw", "KwSub"], []),
    "OptBase": (["Base", "SubOver"], []),
}


LINEAGE_CHANGE = {"Base": ["SubAdd", "MidImpl", "BelowPrivate", "Diamond"], "Abs": ["AbsImpl", "AbsStillImpl", "AbsDeepImpl"]}


def first_variants(tok, quick=False):
    """Init args of the first source.  Quick tier: one single-parameter representative (all parameters at once are
    in "allvalid"); thorough: every parameter on its own as well."""
    return [v for v in (trimmed(arg_variants(tok)) if quick else arg_variants(tok)) if v[0] in ("base", "valid", "allvalid", "dk-unknown", "dk-param-valid")]


def second_variants(tok, quick, good):
    labels = ("base", "valid", "missing", "unknown", "ill") if not quick else (("base", "valid", "missing", "unknown") if good else ("base", "missing"))
    return [v for v in trimmed(arg_variants(tok)) if v[0] in labels]


def pairs(quick):
    return QUICK_PAIRS if quick else [(a, b) for a in FIRST_FORMS for b in SECOND_FORMS]


def gen_change(quick):
    for t, (good, bad) in CHANGE.items():
        for tok1 in good:
            for l1, a1, k1 in first_variants(tok1, quick):
                if k1 and t != "Kw":
                    continue
                for tok2 in good + bad:
                    for by2 in bys_of(tok2) if quick is False or tok2 in ("SubAdd", "Base", "KwSub") else ["path"]:
                        for l2, a2, k2 in second_variants(tok2, quick, tok2 in good):
                            if tok2.startswith("INST_") and (a2 or k2):
                                continue
                            for (c1, f1), (c2, f2) in pairs(quick):
                                if f2 == "S" and c2 != "dot" and (a2 or k2):
                                    continue
                                if c1 == "default" and l1 == "missing":
                                    continue
                                yield case(t, [[c1, f1, spec_of(tok1, "path", a1, k1)], [c2, f2, spec_of(tok2, by2, a2, k2)]])
    # lineage: class change to / from a class whose line of descent passes through a non-nameable intermediate,
    # the new class given by its bare name (thorough: also by path, all notation pairs)
    lin_pairs = [QUICK_PAIRS[1], QUICK_PAIRS[2], QUICK_PAIRS[4]] if quick else pairs(False)
    for t, toks in LINEAGE_CHANGE.items():
        for tok1, tok2 in itertools.permutations(toks, 2):
            for l1, a1, k1 in first_variants(tok1, True):
                if l1 not in ("base", "allvalid"):
                    continue
                for by2 in ("name",) if quick else ("name", "path"):
                    for l2, a2, k2 in second_variants(tok2, quick, True):
                        if quick and l2 == "missing":
                            continue
                        for (c1, f1), (c2, f2) in lin_pairs:
                            if f2 == "S" and c2 != "dot" and (a2 or k2):
                                continue
                            yield case(t, [[c1, f1, spec_of(tok1, "path", a1)], [c2, f2, spec_of(tok2, by2, a2, k2)]])


def gen_change3(quick):
    """Three sources: class, class change, then class-less init args (and back again)."""
    toks = ["Base", "SubAdd", "SubOver", "SubReq", "SubSub"]
    forms = [("dot", "S"), ("cfg", "E")] if quick else [("dot", "S"), ("cfg", "E"), ("json", "E"), ("dot", "E")]
    tails = [("dot", "F"), ("json", "I")] if quick else [("dot", "F"), ("dot", "I"), ("json", "I"), ("cfg", "F")]
    for tok1, tok2 in itertools.product(toks, repeat=2):
        if tok1 == tok2:
            continue
        for l1, a1, k1 in first_variants(tok1):
            if k1:
                continue
            for l3, a3, k3 in trimmed(arg_variants(tok2)):
                if l3 not in ("valid", "ill", "unknown") or k3:
                    continue
                a3 = {k: v for k, v in a3.items() if k not in ("r",)} or a3
                for (c1, f1), (c2, f2) in itertools.product(forms, repeat=2):
                    for c3, f3 in tails:
                        yield case("Base", [[c1, f1, spec_of(tok1, "path", a1)], [c2, f2, spec_of(tok2)], [c3, f3, spec_of(None, "path", a3)]])
            if not quick:
                for c1, f1 in forms:
                    yield case("Base", [[c1, f1, spec_of(tok1, "path", a1)], ["dot", "S", spec_of(tok2)], ["dot", "S", spec_of(tok1)]])
    # Optional: class, then null, then a class again / init args only (null forgets the previous class)
    for first in (spec_of("SubAdd", "path", {"a": 3, "b": True}), spec_of("SubReq", "path", {"r": 3})):
        for (c1, f1), (c2, f2) in itertools.product([("cfg", "E"), ("dot", "S"), ("json", "E"), ("default", "E")], [("cfg", "E"), ("dot", "S"), ("json", "E")]):
            yield case("OptBase", [[c1, f1, first], [c2, f2, None]])
            for third, forms3 in ((spec_of(None, "path", {"a": 2}), [("dot", "F"), ("json", "I"), ("cfg", "F")]), (spec_of(None, "path", {"b": True}), [("dot", "F")]),
                                  (spec_of("SubSub", "name"), [("dot", "S"), ("cfg", "E")]), (spec_of("Unrelated"), [("dot", "S")])):  # fmt: skip
                for c3, f3 in forms3:
                    yield case("OptBase", [[c1, f1, first], [c2, f2, None], [c3, f3, third]])


# -------------------------------------------------------------------------------------------------
# D: holders (class-typed, Optional, Union, List, Dict parameters; two levels)

INNER = [
    spec_of("Base"), spec_of("SubAdd", "path", {"b": True}), spec_of("SubAdd", "name", {"a": 2}),
    spec_of("SubAdd", "path", {"q": 2}), spec_of("SubAdd", "path", {"a": "q"}), spec_of("SubReq"),
    spec_of("SubReq", "path", {"r": 2}), spec_of("SubOver", "path", {"a": "w"}), spec_of("Unrelated"),
    spec_of("Unrelated", "name"), spec_of("Other"), spec_of("OtherSub", "path", {"p": "w"}),
    spec_of("make_sub", "path", {"a": 2}), spec_of("make_unrelated"), spec_of("INST_BASE"), spec_of("INST_OTHER"),
    spec_of("CONST"), spec_of("missing_attr"), spec_of("Twin", "name"), spec_of("Far", "name", {"f": 2}),
    spec_of(None, "path", {"a": 2}), spec_of(None, "path", {"o": 2}), spec_of(None, "path", {"q": 2}),
    spec_of("Kw", "path", {}, {"z": 1}), spec_of("SubAdd", "path", {}, {"z": 1}), spec_of("SubAdd", "path", {}, {"b": True}),
    spec_of("MidImpl", "name", {"g": True}),  # lineage: below an abstract intermediate, by bare name
]  # fmt: skip
INNER_SMALL = [INNER[i] for i in (0, 1, 2, 3, 5, 6, 8, 12, 14, 20)]

HOLDER_PARAM = {"HoldOne": "inner", "HoldOpt": "inner", "HoldUnion": "inner", "HoldList": "elems", "HoldDict": "table", "HoldDeep": "h"}
HOLDER_FORMS = [("obj", "E"), ("cfg", "E"), ("json", "E"), ("dot", "E"), ("dot", "S"), ("obj", "F"), ("obj", "I"), ("json", "F"), ("dot", "F"), ("dot", "I"), ("cfg", "F")]
GROUP_FORMS = [("obj", "F"), ("cfg", "F"), ("dot", "F")]


def holder_values(t, quick):
    """Values of the class-typed parameter of holder `t` (logical)."""
    if t in ("HoldOne", "HoldOpt", "HoldUnion"):
        vals = list(INNER)
        if t == "HoldOpt":
            vals = vals + [None]
        return vals
    small = INNER_SMALL if quick else INNER
    if t == "HoldList":
        lists = [[]] + [[a] for a in INNER] + [[a, b] for a in small for b in small]
        return [{"list": x} for x in lists]
    if t == "HoldDict":
        dicts = [{}] + [{"k": a} for a in INNER] + [{"k": a, "m": b} for a in small for b in small]
        return [{"dict": x} for x in dicts]
    if t == "HoldDeep":
        out = []
        for outer in ("HoldOne", "HoldSub", None):
            for inner in small:
                out.append(spec_of(outer, "path", {"inner": inner}) if outer else spec_of(None, "path", {"inner": inner}))
        out.append(spec_of("HoldOne"))
        out.append(spec_of("HoldOpt", "path", {"inner": INNER[0]}))
        return out
    raise AssertionError(t)


def gen_holders(quick):
    for t, pname in HOLDER_PARAM.items():
        for v in holder_values(t, quick):
            big = quick and (len(v.get("list", ())) > 1 or len(v.get("dict", ())) > 1 if isinstance(v, dict) else False)
            for extra in ({}, {"n": 2}):
                args = {pname: v, **extra}
                if extra and (big or (quick and t == "HoldDeep")):
                    continue
                for st, forms in (("arg", HOLDER_FORMS), ("grp", GROUP_FORMS)):
                    if big:
                        forms = [("obj", "E"), ("dot", "S"), ("json", "F")] if st == "arg" else [("dot", "F")]
                    for ch, form in forms:
                        if extra and quick and (ch, form) not in (("obj", "E"), ("dot", "S"), ("dot", "F"), ("json", "F")):
                            continue
                        tok = t if form in ("E", "S") else None
                        yield case(t, [[ch, form, spec_of(tok, "path", args)]], st)
    # holder subclass / wrong holder
    for tok in ("HoldSub", "HoldOpt", "HoldOne"):
        for inner in INNER_SMALL:
            for second in (None, spec_of("OtherSub", "path", {"p": "w"}), spec_of("SubAdd")):
                args = {"inner": inner}
                if second is not None:
                    args["second"] = second
                for ch, form in NAMED_FORMS:
                    yield case("HoldOne", [[ch, form, spec_of(tok, "path", args)]])


def gen_holder_change(quick):
    """Nested class changes: the inner class changes while the outer stays; the outer changes and keeps the inner."""
    firsts = [spec_of("SubAdd", "path", {"a": 3, "b": True}), spec_of("SubReq", "path", {"r": 3}), spec_of("SubOver", "path", {"a": "w", "c": 3}), spec_of("Base", "path", {"s": "w"})]
    seconds = [spec_of(tok) for tok in ("Base", "SubAdd", "SubOver", "SubSub", "SubReq", "Unrelated", "Other", "OtherSub")] + [
        spec_of("SubSub", "name", {"d": 3}), spec_of(None, "path", {"a": 2}), spec_of(None, "path", {"b": True}), spec_of(None, "path", {"q": 2})]  # fmt: skip
    first_forms = [("cfg", "E"), ("dot", "S"), ("default", "E")] + ([] if quick else [("json", "E")])
    second_forms = [("dot", "F"), ("dot", "I"), ("json", "F"), ("cfg", "F"), ("dot", "S")] + ([] if quick else [("cfg", "I"), ("cfg", "E")])
    for t in ("HoldOne", "HoldOpt", "HoldUnion"):
        for s1 in firsts:
            for s2 in seconds + ([None] if t == "HoldOpt" else []):
                # quick tier: the full notation grid for the plain class-typed parameter; for the Optional / Union
                # wrappers (same nested code path) the second source only as --x.inner... options and as a config
                seconds2 = second_forms if not quick or t == "HoldOne" else [("dot", "F"), ("cfg", "F")]
                for (c1, f1), (c2, f2) in itertools.product(first_forms, seconds2):
                    tok2 = t if f2 in ("E", "S") else None
                    yield case(t, [[c1, f1, spec_of(t, "path", {"inner": s1, "n": 2})], [c2, f2, spec_of(tok2, "path", {"inner": s2})]])
                for st in ("grp",):
                    for (c1, f1), (c2, f2) in itertools.product([("cfg", "F"), ("dot", "F")], [("dot", "F"), ("cfg", "F")]):
                        yield case(t, [[c1, f1, spec_of(None, "path", {"inner": s1, "n": 2})], [c2, f2, spec_of(None, "path", {"inner": s2})]], st)
    # the outer class changes
    for s1 in firsts:
        for tok1, tok2 in (("HoldOne", "HoldSub"), ("HoldSub", "HoldOne"), ("HoldOne", "HoldOpt")):
            for a2 in ({}, {"second": spec_of("Other")}, {"n": 3}):
                for (c1, f1), (c2, f2) in itertools.product(first_forms, [("dot", "S"), ("cfg", "E"), ("json", "E"), ("dot", "E")]):
                    yield case("HoldOne", [[c1, f1, spec_of(tok1, "path", {"inner": s1, "n": 2})], [c2, f2, spec_of(tok2, "path", a2)]])


# -------------------------------------------------------------------------------------------------
# E: containers at top level

ELEMS = [
    spec_of("Base"), spec_of("SubAdd", "path", {"b": True}), spec_of("SubAdd", "name", {"a": 2}), spec_of("SubReq"),
    spec_of("SubReq", "path", {"r": 2}), spec_of("Unrelated"), spec_of("make_sub"), spec_of("SubAdd", "path", {"q": 2}),
    spec_of("INST_BASE"), spec_of(None, "path", {"a": 2}), spec_of("Other"), spec_of("SubOver", "path", {"a": 5}),
    spec_of("MidImpl", "name"),  # lineage: below an abstract intermediate, by bare name
]  # fmt: skip


def gen_containers(quick):
    n = 2 if quick else 3
    elems = ELEMS if quick else ELEMS
    lists = [[]]
    for k in range(1, n + 1):
        pool = elems if k <= 2 else elems[:6]
        lists += [list(p) for p in itertools.product(pool, repeat=k)]
    for lst in lists:
        for ch, form in (("obj", "E"), ("cfg", "E"), ("json", "E"), ("obj", "S"), ("default", "E")):
            if ch == "default":
                if not lst or any(e.get("c") is None for e in lst):
                    continue
                yield case("ListBase", [[ch, form, {"list": lst}], ["dot", "S", {"append": spec_of("SubAdd", "name")}]])
                continue
            yield case("ListBase", [[ch, form, {"list": lst}]])
        if 1 <= len(lst) <= 2:
            keys = ["k", "m"][: len(lst)]
            for ch, form in (("obj", "E"), ("cfg", "E"), ("json", "E"), ("obj", "S")):
                yield case("DictBase", [[ch, form, {"dict": dict(zip(keys, lst))}]])
    # append sequences: --x+=A [--x.k=v] --x+=B ; --x.k=v on the last element
    appendable = [e for e in elems if e.get("c")]
    for a, b in itertools.product(appendable, repeat=2):
        for f in ("S", "E"):
            yield case("ListBase", [["dot", f, {"append": a}], ["dot", f, {"append": b}]])
        yield case("ListBase", [["cfg", "E", {"list": [a]}], ["dot", "S", {"append": b}]])
        if not a.get("a") and not a.get("k") and not b.get("a") and not b.get("k"):
            yield case("DictBase", [["dot", "S", {"key": ["k", a]}], ["dot", "S", {"key": ["m", b]}]])
        yield case("DictBase", [["dot", "E", {"key": ["k", a]}], ["dot", "E", {"key": ["m", b]}]])
    for a in appendable:
        for tail in (spec_of(None, "path", {"a": 4}), spec_of(None, "path", {"q": 4}), spec_of(None, "path", {"b": True})):
            for f in ("F", "I"):
                yield case("ListBase", [["dot", "S", {"append": a}], ["dot", f, {"last": tail}]])
                yield case("ListBase", [["cfg", "E", {"list": [spec_of("Base"), a]}], ["dot", f, {"last": tail}]])


# -------------------------------------------------------------------------------------------------
# G: dict_kwargs across sources (same class: merged; class change: carried, entries naming a parameter of the
#    new class become init args and are validated)


def gen_kwargs(quick):
    dks = [{"q": 2}, {"e": 2}, {"e": "q"}, {"a": 2}]
    forms1 = [("cfg", "E"), ("json", "E"), ("dot", "S"), ("dot", "E"), ("default", "E")]
    forms2 = [("cfg", "E"), ("json", "E"), ("json", "S"), ("dot", "S"), ("dot", "E")]
    if quick:
        forms1, forms2 = forms1[:3] + forms1[4:], [forms2[1], forms2[3], forms2[4]]
    for tok1, tok2 in (("Kw", "KwSub"), ("KwSub", "Kw"), ("Kw", "Kw"), ("KwSub", "KwSub")):
        for dk1 in dks:
            seconds = [({}, {}), ({"e": 3} if tok2 == "KwSub" else {"a": 3}, {}), ({}, {"w": 8}), ({}, {"q": 9})]
            for a2, dk2 in seconds:
                for (c1, f1), (c2, f2) in itertools.product(forms1, forms2):
                    if f2 == "S" and c2 != "dot" and (a2 or dk2):
                        continue
                    two = [[c1, f1, spec_of(tok1, "path", {}, dk1)], [c2, f2, spec_of(tok2, "name", a2, dk2)]]
                    yield case("Kw", two)
                    if not a2 and not dk2:
                        for c3, f3 in (("dot", "F"), ("json", "I")):
                            for a3 in ({"e": 3}, {"a": 3}):
                                yield case("Kw", two + [[c3, f3, spec_of(None, "path", a3)]])


# -------------------------------------------------------------------------------------------------
# H: sibling class-typed positions whose names are prefix-related (inner / inner2), declared in both orders, as
#    parameters of a nested class, of a class group and as separate top-level arguments; each sibling's class is
#    changed / extended / left alone by a later source.  Oracle: every position is judged on its own.

PAIR_FIRSTS = [spec_of("SubAdd", "path", {"a": 3, "b": True}), spec_of("SubReq", "path", {"r": 3}), spec_of("Base", "path", {"s": "w"})]
PAIR_SECONDS = [None, spec_of("SubSub", "name"), spec_of("Base"), spec_of(None, "path", {"b": False}), spec_of("SubOver", "path", {"c": 5}), spec_of(None, "path", {"a": 2})]
ABSENT = None


def gen_siblings(quick):
    firsts = PAIR_FIRSTS[:2] if quick else PAIR_FIRSTS
    seconds = [PAIR_SECONDS[0], PAIR_SECONDS[2], PAIR_SECONDS[3]] if quick else PAIR_SECONDS  # quick: absent / class change / an init arg that only one of the first classes has, without class_path
    nested_pairs = [(("cfg", "E"), ("cfg", "F")), (("cfg", "E"), ("dot", "F")), (("default", "E"), ("cfg", "E"))]
    if not quick:
        nested_pairs += [(("cfg", "E"), ("cfg", "E")), (("dot", "S"), ("json", "F")), (("json", "E"), ("cfg", "I")), (("dot", "E"), ("dot", "S"))]
    flat_pairs = {"grp": [(("cfg", "F"), ("cfg", "F"))], "top": [(("cfg", "F"), ("cfg", "F")), (("cfg", "F"), ("dot", "F"))]}
    if not quick:
        flat_pairs = {st: [(("cfg", "F"), ("cfg", "F")), (("cfg", "F"), ("dot", "F")), (("dot", "F"), ("cfg", "F"))] for st in flat_pairs}
    for t in ("HoldPair", "HoldPairR"):
        for f1, f2 in itertools.product(firsts, repeat=2):
            a1 = {"inner": f1, "inner2": f2}
            for s1, s2 in itertools.product(seconds, repeat=2):
                a2 = {k: v for k, v in (("inner", s1), ("inner2", s2)) if v is not ABSENT}
                if not a2:
                    continue
                for (c1, g1), (c2, g2) in nested_pairs:
                    yield case(t, [[c1, g1, spec_of(t, "path", a1)], [c2, g2, spec_of(t if g2 in ("E", "S") else None, "path", a2)]])
                for st, prs in flat_pairs.items():
                    for (c1, g1), (c2, g2) in prs:
                        yield case(t, [[c1, g1, spec_of(None, "path", a1)], [c2, g2, spec_of(None, "path", a2)]], st)
                # the order in which the siblings are WRITTEN in the sources (above: inner first; here: inner2 first)
                yield {**case(t, [["cfg", "E", spec_of(t, "path", a1)], ["cfg", "F", spec_of(None, "path", a2)]]), "rev": True}
                if not quick:
                    yield {**case(t, [["cfg", "E", spec_of(t, "path", a1)], ["dot", "F", spec_of(None, "path", a2)]]), "rev": True}
                    for st in ("grp", "top"):
                        yield {**case(t, [["cfg", "F", spec_of(None, "path", a1)], ["cfg", "F", spec_of(None, "path", a2)]], st), "rev": True}
        # single source through every style (the shapes themselves)
        for f1, f2 in itertools.product(firsts, repeat=2):
            styles = (("arg", [("obj", "E"), ("cfg", "E"), ("dot", "S")] if quick else NAMED_FORMS), ("grp", GROUP_FORMS[1:] if quick else GROUP_FORMS), ("top", GROUP_FORMS))
            for st, forms in styles:
                for ch, form in forms:
                    yield case(t, [[ch, form, spec_of(t if st == "arg" else None, "path", {"inner": f1, "inner2": f2, "n": 2})]], st)
            yield case(t, [["cfg", "F", spec_of(None, "path", {"inner": f1})]], "top")  # a required sibling missing


# -------------------------------------------------------------------------------------------------
# I: a whole List / Dict of classes given again by a later source (top level and as a parameter of a holder): every
#    element of the second container is, relative to the class configured at its index / key, one of
#    own (init arg only that class has, no class_path) | shared (init arg `a`, no class_path) | foreign (init arg of
#    another class, no class_path) | same (the same class named again) | change (another class named);
#    plus containers that shrink / grow / start empty, single-key sources (--x.k=<json>) and --x.a=v on the last element.

RC_CLASSES = ["SubAdd", "SubReq", "SubOver"]
RC_FIRST = {"SubAdd": spec_of("SubAdd", "path", {"a": 3}), "SubReq": spec_of("SubReq", "path", {"r": 3, "a": 4}), "SubOver": spec_of("SubOver", "path", {"a": "w"})}
RC_OWN = {"SubAdd": {"b": True}, "SubReq": {"r": 5}, "SubOver": {"c": 5}}
RC_SHARED = {"SubAdd": {"a": 7}, "SubReq": {"a": 7}, "SubOver": {"a": "v"}}
RC_KINDS = ["own", "shared", "foreign", "same", "change"]
RC_KEYS = ["k", "k2", "m"]  # one key is a prefix of another


def rc_second(cls, kind):
    if kind == "own":
        return spec_of(None, "path", RC_OWN[cls])
    if kind == "shared":
        return spec_of(None, "path", RC_SHARED[cls])
    if kind == "foreign":
        return spec_of(None, "path", RC_OWN[RC_CLASSES[(RC_CLASSES.index(cls) + 1) % 3]])
    if kind == "same":
        return spec_of(cls)
    if kind == "change":
        return spec_of("SubSub", "name")
    raise AssertionError(kind)


def rc_firsts(quick, n):
    """Class sequences of the first container: every class at every position (quick: rotations; else permutations)."""
    if quick:
        return [tuple(RC_CLASSES[(r + i) % 3] for i in range(n)) for r in range(3)]
    return list(itertools.permutations(RC_CLASSES, n))


def rc_histories(quick):
    """(classes of the first container, [second element specs], shape)"""
    for n in (1, 2, 3):
        for classes in rc_firsts(quick, n):
            if n == 1 or not quick:
                combos = list(itertools.product(RC_KINDS, repeat=n))
            else:  # all "own", every single-position mutation, every uniform assignment
                combos = [("own",) * n] + [tuple(k if i == pos else "own" for i in range(n)) for pos in range(n) for k in RC_KINDS[1:]] + [(k,) * n for k in RC_KINDS[1:]]
            for kinds in combos:
                yield classes, [rc_second(c, k) for c, k in zip(classes, kinds)], "same-shape"
            # the container shrinks / grows: no class_path (shared arg) or the class named, in every element
            for kind in ("shared", "same"):
                full = [rc_second(c, kind) for c in classes]
                if n > 1:
                    yield classes, full[:-1], "shrunk-end"
                    yield classes, full[1:], "shrunk-front"
                yield classes, full + [spec_of(None, "path", {"a": 7}) if kind == "shared" else spec_of("SubAdd")], "grown"
    for extra in (spec_of(None, "path", {"a": 7}), spec_of("SubAdd", "path", {"b": True})):
        yield (), [extra], "from-empty"
    yield ("SubAdd",), [], "to-empty"


def rc_container(t, specs, keys=None):
    if t in ("ListBase", "HoldList"):
        return {"list": list(specs)}
    keys = keys or RC_KEYS
    return {"dict": dict(zip(keys, specs))}


def gen_recontainer(quick):
    top_pairs = [(("cfg", "E"), ("cfg", "E")), (("cfg", "E"), ("json", "F")), (("default", "E"), ("json", "E"))]
    if not quick:
        top_pairs += [(("json", "E"), ("json", "E")), (("default", "E"), ("obj", "E")), (("cfg", "E"), ("cfg", "F"))]
    nested_pairs = [(("cfg", "E"), ("cfg", "I")), (("cfg", "E"), ("dot", "F"))]
    if not quick:
        nested_pairs += [(("cfg", "E"), ("json", "E")), (("default", "E"), ("json", "I")), (("dot", "S"), ("dot", "I"))]
    for classes, second, shape in rc_histories(quick):
        first = [RC_FIRST[c] for c in classes]
        resized = shape != "same-shape"
        for t in ("ListBase", "DictBase"):
            keys2 = RC_KEYS[1:] if t == "DictBase" and shape == "shrunk-front" else None
            for (c1, f1), (c2, f2) in top_pairs[1:2] if quick and resized else top_pairs:
                if c1 == "default" and not first:
                    continue
                yield case(t, [[c1, f1, rc_container(t, first)], [c2, f2, rc_container(t, second, keys2)]])
        for t, pname in (("HoldList", "elems"), ("HoldDict", "table")):
            keys2 = RC_KEYS[1:] if t == "HoldDict" and shape == "shrunk-front" else None
            for (c1, f1), (c2, f2) in nested_pairs[:1] if quick and (resized or len(first) == 1) else nested_pairs:
                tok2 = t if f2 in ("E", "S") else None
                yield case(t, [[c1, f1, spec_of(t, "path", {pname: rc_container(t, first), "n": 2})], [c2, f2, spec_of(tok2, "path", {pname: rc_container(t, second, keys2)})]])
    # one key of an existing dict addressed by --x.<key>=<json> (every key position x kind; a new key)
    for n in (1, 2, 3):
        for classes in rc_firsts(quick, n):
            first = [RC_FIRST[c] for c in classes]
            targets = [(RC_KEYS[i], rc_second(c, kind)) for i, c in enumerate(classes) for kind in RC_KINDS]
            targets += [("zz", spec_of(None, "path", {"a": 7})), ("zz", spec_of("SubAdd", "path", {"b": True}))]
            for key, s in targets:
                forms = ["E"] if s.get("c") else ["I", "F"]
                for c1, f1 in (("cfg", "E"),) if quick else (("cfg", "E"), ("default", "E"), ("json", "E")):
                    for f in forms:
                        yield case("DictBase", [[c1, f1, rc_container("DictBase", first)], ["dot", f, {"key": [key, s]}]])
            # --x.<param>=v after a whole list: addresses the last element
            for kind in ("own", "shared", "foreign"):
                for f in ("F", "I"):
                    yield case("ListBase", [["cfg", "E", {"list": first}], ["dot", f, {"last": rc_second(classes[-1], kind)}]])

# -------------------------------------------------------------------------------------------------
# J: operation history - the parse under test is NOT the first use of the parser.  An earlier call (whose result is
#    ignored) gives the argument another class / the same class / init args only / something invalid, through the
#    ordinary channels and through those in which the value is judged before the configuration has an entry for the
#    argument (parse_env, defaults=False, parse_string); then the ordinary history runs on the same parser object and
#    is judged by the model as on an unused parser (the earlier call is not part of the model's input).

REUSE_HOW = ["env", "obj0", "args0", "str", "obj", "json", "dot"]
REUSE = {
    # declared type: (defaults [spec | None], earlier values, later sources)
    "Base": (
        [spec_of("SubAdd", "path", {"a": 3, "b": True}), spec_of("SubReq", "path", {"r": 3, "a": 4}), spec_of("Base", "path", {"a": 2, "s": "w"}), None],
        [spec_of("SubAdd", "path", {"b": True}), spec_of("SubReq", "path", {"r": 2}), spec_of("SubOver", "path", {"c": 5}), spec_of("Base"),
         spec_of("SubSub", "name"), spec_of(None, "path", {"a": 2}), spec_of("Unrelated")],
        [[], [["dot", "F", spec_of(None, "path", {"a": 2})]], [["json", "I", spec_of(None, "path", {"a": 2})]], [["dot", "S", spec_of("SubAdd", "name", {"b": True})]]],
    ),
    "OptBase": (
        [spec_of("SubOver", "path", {"a": "w", "c": 3}), None],
        [spec_of("SubAdd", "path", {"b": True}), spec_of("SubReq", "path", {"r": 2}), None],
        [[], [["dot", "F", spec_of(None, "path", {"a": "v"})]], [["cfg", "E", spec_of("SubOver", "path", {"c": 5})]]],
    ),
    "UnionBO": (
        [spec_of("OtherSub", "path", {"o": 2, "p": "w"})],
        [spec_of("Other", "path", {"o": 3}), spec_of("SubAdd", "path", {"b": True}), spec_of(None, "path", {"o": 3})],
        [[], [["dot", "F", spec_of(None, "path", {"o": 3})]], [["json", "I", spec_of(None, "path", {"p": "v"})]]],
    ),
    "Abs": (
        [spec_of("AbsImpl", "path", {"a": 2, "z": 3})],
        [spec_of("AbsStillImpl", "path", {"w": 2}), spec_of("AbsImpl"), spec_of("AbsStill", "path", {"y": 2})],
        [[], [["dot", "F", spec_of(None, "path", {"z": 2})]], [["dot", "S", spec_of("AbsStillImpl", "name")]]],
    ),
}


def pre_of(how, spec, on="same"):
    named = spec is not None and spec.get("c")
    if how == "dot":
        form = "S" if named else "F"
    else:
        form = "E" if named or spec is None else "I"
    return {"on": on, "how": how, "form": form, "spec": spec}


def gen_reuse(quick):
    for t, (defaults, earlier, later) in REUSE.items():
        for d in defaults:
            for e in earlier:
                for how in REUSE_HOW:
                    if e is None and how == "dot" and False:
                        continue
                    for srcs in later:
                        if d is None and not srcs:
                            continue
                        full = ([["default", "E", d]] if d is not None else []) + srcs
                        yield {**case(t, full), "pre": pre_of(how, e)}


# -------------------------------------------------------------------------------------------------
# K: classes that become available LATE.  An earlier parse (same parser object / another parser of the same
#    declared type) names a class of the declared type by its bare name or by its path; then the module
#    mc.fixtures.c14.late is imported; then a class of that module is named - by path and by bare name - with the
#    usual init-args mutations.  The model's name rule speaks about the modules imported at the time of the parse.

LATE = {
    "Base": (["LateSub", "LateSubSub", "LateMidImpl"], "SubAdd"),
    "OptBase": (["LateSub"], "SubAdd"),
    "UnionBO": (["LateSubSub"], "SubAdd"),
    "Abs": (["LateAbsImpl"], "AbsImpl"),
}


def gen_late(quick):
    for t, (toks, early) in LATE.items():
        for tok in toks:
            for on in ("same", "other"):
                for pre_by in ("name", "path"):
                    for how in ("json", "dot") if quick else ("json", "dot", "obj", "env"):
                        pre = pre_of(how, spec_of(early, pre_by), on)
                        for by in ("name", "path"):
                            for label, args, dk in trimmed(arg_variants(tok)):
                                if label not in ("base", "valid", "unknown") + (() if quick else ("ill", "allvalid")):
                                    continue
                                forms = [("dot", "S"), ("obj", "E")] + ([("json", "S")] if not args else []) + ([] if quick else [("cfg", "E"), ("json", "E"), ("dot", "E")])
                                if by == "path" and quick:
                                    forms = forms[:1]
                                for ch, form in forms:
                                    yield {**case(t, [[ch, form, spec_of(tok, by, args, dk)]]), "pre": pre, "late": True}
    # as the class of a nested parameter, of a container element, through add_subclass_arguments; after a class change
    for on in ("same", "other"):
        for by in ("name", "path"):
            late = spec_of("LateSub", by, {"la": 2})
            pre_h = pre_of("json", spec_of("HoldOne", "path", {"inner": spec_of("SubAdd", "name")}), on)
            for ch, form in (("obj", "E"), ("dot", "S"), ("dot", "F")):
                yield {**case("HoldOne", [[ch, form, spec_of("HoldOne" if form != "F" else None, "path", {"inner": late})]]), "pre": pre_h, "late": True}
            pre_l = pre_of("json", {"list": [spec_of("SubAdd", "name")]}, on)
            pre_l["form"] = "E"
            yield {**case("ListBase", [["json", "E", {"list": [spec_of("Base"), late]}]]), "pre": pre_l, "late": True}
            yield {**case("ListBase", [["dot", "S", {"append": late}]]), "pre": pre_l, "late": True}
            pre_d = {**pre_l, "spec": {"dict": {"k": spec_of("SubAdd", "name")}}}
            yield {**case("DictBase", [["dot", "E", {"key": ["k", late]}]]), "pre": pre_d, "late": True}
            pre_s = pre_of("dot", spec_of("SubAdd", "name"), on)
            for ch, form in (("dot", "S"), ("json", "E")):
                yield {**case("Base", [[ch, form, late]], "sub"), "pre": pre_s, "late": True}
                yield {**case("Base", [["cfg", "E", spec_of("SubAdd", "path", {"a": 3, "b": True})], [ch, form, late]]), "pre": pre_s, "late": True}


# -------------------------------------------------------------------------------------------------
# L: container elements that carry dict_kwargs (List[Kw] / Dict[str, Kw]) and are addressed again by a later source:
#    --x.<param>=v / --x.dict_kwargs.<k>=v on the last element, --x.<key>=<json>, the whole container given again with
#    the element class-less / the same class named (with and without dict_kwargs of its own).

EK_ELEMS = [spec_of("KwSub", "path", {}, {"q": 2}), spec_of("KwSub", "path", {"a": 4}, {"q": 2}), spec_of("Kw", "path", {"a": 3})]
EK_AGAIN = [spec_of(None, "path", {"e": 3}), spec_of(None, "path", {}, {"w": 8}), spec_of("KwSub"), spec_of("KwSub", "path", {"e": 3}, {"w": 8})]


def gen_elem_kwargs(quick):
    e1, e2, e0 = EK_ELEMS
    for first in ([e1], [e2], [e0, e1], [e1, e0]):
        firsts = [["cfg", "E", {"list": first}], ["json", "E", {"list": first}], ["default", "E", {"list": first}]]
        if len(first) == 1:
            firsts += [["dot", "E", {"append": first[0]}], ["dot", "S", {"append": first[0]}]]
        for src1 in firsts:
            yield case("ListKw", [src1])
            for again in EK_AGAIN:
                if again.get("c") is None:
                    for f in ("F", "I"):
                        if f == "F" and again.get("k"):
                            continue
                        yield case("ListKw", [src1, ["dot", f, {"last": again}]])
                if again.get("c") is None and not again.get("a"):
                    continue  # a class-less JSON element needs init_args
                for ch in ("cfg", "json"):
                    yield case("ListKw", [src1, [ch, "E", {"list": first[:-1] + [again]}]])
    for first in ({"k": e1}, {"k": e2}, {"k": e0, "m": e1}, {"k": e1, "k2": e0}):
        firsts = [["cfg", "E", {"dict": first}], ["json", "E", {"dict": first}]]
        if len(first) == 1:
            firsts += [["dot", "E", {"key": ["k", first["k"]]}]]
        last_key = list(first)[-1]
        for src1 in firsts:
            yield case("DictKw", [src1])
            for again in EK_AGAIN:
                for key in first:
                    for f in ("E",) if again.get("c") else (("I",) if again.get("k") else ("I", "F")):
                        yield case("DictKw", [src1, ["dot", f, {"key": [key, again]}]])
                if again.get("c") is None and not again.get("a"):
                    continue
                for ch in ("cfg", "json"):
                    yield case("DictKw", [src1, [ch, "E", {"dict": {**first, last_key: again}}]])


FAMILIES = [
    ("single", gen_single),
    ("classless", gen_classless),
    ("change", gen_change),
    ("change3", gen_change3),
    ("holders", gen_holders),
    ("holder_change", gen_holder_change),
    ("containers", gen_containers),
    ("styles", gen_styles),
    ("kwargs", gen_kwargs),
    ("siblings", gen_siblings),
    ("recontainer", gen_recontainer),
    ("reuse", gen_reuse),
    ("late", gen_late),
    ("elem_kwargs", gen_elem_kwargs),
]
