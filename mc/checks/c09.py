"""C09 - a parser's answers do not depend on what it was asked before.

Explicit-state breadth-first search over the reachable (parsers, process) states of the REAL library.

* A *world* is a small set of live parser objects built by the public API (P = main parser, Q = an independent
  second parser in the same process, S = a sub-parser object of P that the user still holds) plus static files.
* An *operation* is one concrete public call (parse_args / parse_object / parse_string / parse_env / get_defaults /
  dump / validate / instantiate_classes, succeeding and failing inputs, --help, --x.help, --print_config ...) on
  one of these parsers.
* The *state* after a history is canonicalised reflectively and over-finely (mc/checks/c09_canon.py: the whole
  object graph of the parsers, every ContextVar / container global / class attribute of jsonargparse.*, cwd,
  environ, argparse.Namespace); states are deduplicated on the hash of that form.
* Isolation: every state is rebuilt by replaying its shortest history in a child forked from a pristine image
  (jsonargparse imported, never called); every operation then runs in its own grandchild, which reports
  (observation, successor hash).  Replay must reproduce the recorded hash (hard error otherwise).
* Oracle: the observation of every transition equals the observation of the same operation on the freshly built
  world in a pristine process (the depth-0 transition of the same operation).
* A stateless cross-check re-executes histories that the search *merged* into an already known state (no dedup,
  sequentially in one process) and requires the same observations and state hashes as the search attributed to
  them - this validates the canonicalisation and the fork isolation themselves.
"""
from __future__ import annotations

import copy
import hashlib
import json
import os
import pickle
import re
import sys
import traceback

META = {
    "id": "C09",
    "level": "model_checking",
    "engine": "explicit-state BFS over (parsers, process) states of the real library, fork-isolated "
    "(mc/checks/c09.py, mc/checks/c09_canon.py)",
    "technique": "explicit-state BFS with reflective over-fine state hashing on the real parser objects and process "
    "globals; every operation from every state in a forked child; differential oracle against the fresh-parser "
    "observation; stateless cross-check of merged histories",
    "level_text": "All (parsers, process) states reachable within the completed depth (or up to closure) under the "
    "stated operation alphabet on two parsers and a held sub-parser are enumerated on the real code; from every state "
    "every operation is executed in an isolated forked process and its observation (result | ArgumentError text | "
    "exit status + stdout + stderr | escaping exception | warnings) is compared with the observation of the same call "
    "on a freshly built identical world. The canonical state is read reflectively (vars(), module globals, "
    "ContextVars, class attributes, cwd, environ) with nothing projected away, so merged states have equal futures; "
    "this is cross-checked by re-running merged histories without dedup. When the graph closes the verdict covers "
    "histories of any length over the alphabet.",
    "level_note": "Trusted: the canonicaliser (300 lines), fork isolation, the operation alphabets. Not part of the "
    "state and assumed irrelevant: third-party module caches (re, linecache, yaml), Python's warning registry, "
    "sys.modules growth, contents (beyond the size) of functools caches. Histories beyond the completed depth are "
    "covered only through state merging.",
    "design_ref": "DESIGN.md §5 C09",
}

LIB = "mc.fixtures.c09.lib"

# =================================================================================================
# worlds: parsers + static files


def world_files(world):
    if world == "sub":
        return {
            "p_ok.yaml": "n: 7\na:\n  x: 9\n",
            "p_bad.yaml": "n: seven\n",
            "a_ok.yaml": "x: 11\n",
            "a_bad.yaml": "x: eleven\n",
            "q_ok.yaml": "n: 6\nitems: [1, 2]\n",
            "q_bad.yaml": "items: 3\n",
        }
    if world == "cls":
        return {
            "m_ok.yaml": f"model:\n  class_path: {LIB}.Other\n  init_args:\n    c: 0.25\n",
            "m_bad.yaml": f"model:\n  class_path: {LIB}.Unrelated\n",
            "m_init.yaml": "model:\n  init_args:\n    a: 4\n",
        }
    if world == "link":
        return {
            "l_ok.yaml": "src:\n  size: 5\n",
            "l_bad.yaml": "dst:\n  size: 9\n",
        }
    if world == "dcf":
        return {
            "home_ok/defaults.yaml": "n: 21\nopts:\n  steps: 8\n",
            "home_bad/defaults.yaml": "n: twentyone\n",
            "home_ok/qdefaults.json": '{"n": 6}\n',
            "home_none/.keep": "",
            "d_ok.yaml": "n: 3\nitems: [4]\nd:\n  k: 1\n",
            "d_bad.yaml": "items: notalist\n",
            "d_app.yaml": "items+: [5]\n",
            "q_ok.json": '{"n": 2, "d": {"j": 1}}\n',
        }
    if world == "sdf":
        return {
            "home_ok/sdf.yaml": "n: 4\na:\n  x: 7\n",
            "home_bad/sdf.yaml": "n: 4\na:\n  x: 7\n",  # the parent's file is fine, the sub-command's own is not
            "home_bad/a.yaml": "x: seven\n",
            "home_worse/sdf.yaml": "a:\n  x: seven\n",
            "home_nosub/sdf.yaml": "n: 4\n",  # names no sub-command although one is required
            "home_badkey/sdf.yaml": "n: 4\na:\n  zzz: 1\n",  # a key that sub-command a does not have
            "home_none/.keep": "",
        }
    if world == "dcl":
        return {
            "c_part.yaml": "c:\n  d:\n    b: 4\nod:\n  a: 3\n",
            "c_bad.yaml": "c:\n  d:\n    a: five\n",
        }
    if world == "dmp":
        return {
            "m_cfg.yaml": "seed: 4\nmodel:\n  init_args:\n    ckpt: c.pt\n",
        }
    if world == "lcs":
        return {
            "k_map.yaml": f"model:\n  class_path: {LIB}.TakesDict\nopts:\n  a: 6\n",
            "k_data.yaml": f"model:\n  class_path: {LIB}.TakesData\nsrc:\n  size: 6\n",
            "k_bad.yaml": f"model:\n  class_path: {LIB}.TakesDict\nopts:\n  a: six\n",
        }
    raise KeyError(world)


WORLDS = ["sub", "cls", "link", "dcf", "sdf", "dcl", "dmp", "lcs"]


def build_world(world, J):
    """Fresh parser objects of one world, public API only.  Returns an ordered dict name -> parser."""
    from typing import Callable, Dict, List, Optional

    AP, CF = J.ArgumentParser, J.ActionConfigFile
    if world == "sub":
        P = AP(exit_on_error=False, prog="app", env_prefix="APP")
        P.add_argument("--cfg", action=CF)
        P.add_argument("--n", type=int, default=1)
        P.add_argument("--flag", type=bool, default=False)
        sc = P.add_subcommands()
        A = AP()
        A.add_argument("--cfg", action=CF)
        A.add_argument("--x", type=int, default=2)
        B = AP()
        B.add_argument("--y", type=str, default="q")
        sc.add_subcommand("a", A)
        sc.add_subcommand("b", B)
        bs = B.add_subcommands()
        C = AP()
        C.add_argument("--z", type=int, default=3)
        D = AP()
        D.add_argument("--w", type=int, default=4)
        bs.add_subcommand("c", C)
        bs.add_subcommand("d", D)
        Q = AP(prog="tool", env_prefix="TOOL")
        Q.add_argument("--cfg", action=CF)
        Q.add_argument("--n", type=int, default=5)
        Q.add_argument("--items", type=List[int], default=[])
        import argparse

        A0 = argparse.ArgumentParser(prog="plain")  # a plain stdlib parser living in the same process
        A0.add_argument("--k", default="v")
        return {"P": P, "Q": Q, "S": A, "A0": A0}
    if world == "cls":
        import importlib

        lib = importlib.import_module(LIB)
        P = AP(exit_on_error=False, prog="app", env_prefix="APP")
        P.add_argument("--cfg", action=CF)
        P.add_argument("--model", type=lib.Base, default={"class_path": f"{LIB}.Sub", "init_args": {"b": "d"}})
        P.add_argument("--opt", type=Optional[lib.Base], default=None)
        P.add_argument("--cb", type=Callable[[int], lib.Base], default=None)
        P.add_argument("--n", type=int, default=1)
        Q = AP(prog="tool", env_prefix="TOOL")
        Q.add_argument("--cfg", action=CF)
        Q.add_argument("--model", type=lib.Base, default=None)
        Q.add_argument("--holder", type=Optional[lib.Holder], default=None)
        # R: a misconfigured parser (its own default does not validate) - every call on it fails
        R = AP(exit_on_error=False, prog="broken", env_prefix="BROKEN")
        R.add_argument("--model", type=lib.Base, default={"class_path": f"{LIB}.Sub", "init_args": {"a": "bad"}})
        return {"P": P, "Q": Q, "R": R}
    if world == "link":
        import importlib

        lib = importlib.import_module(LIB)
        P = AP(exit_on_error=False, prog="app", env_prefix="APP")
        P.add_argument("--cfg", action=CF)
        P.add_class_arguments(lib.Src, "src")
        P.add_class_arguments(lib.Dst, "dst")
        P.add_argument("--holder", type=lib.Holder, default={"class_path": f"{LIB}.Holder", "init_args": {"inner": {"class_path": f"{LIB}.Sub"}}})
        P.link_arguments("src.size", "dst.size", compute_fn=lib.times_ten)
        P.link_arguments("src.size", "holder.init_args.inner.init_args.a")
        P.link_arguments("src.double", "dst.name", compute_fn=lib.to_name, apply_on="instantiate")
        Q = AP(prog="tool", env_prefix="TOOL")
        Q.add_argument("--cfg", action=CF)
        Q.add_class_arguments(lib.Src, "src")
        Q.add_class_arguments(lib.Dst, "dst")
        Q.add_argument("--holder", type=Optional[lib.Holder], default=None)
        Q.link_arguments("src.size", "dst.size")
        return {"P": P, "Q": Q}
    if world == "dcf":
        import importlib

        lib = importlib.import_module(LIB)
        P = AP(exit_on_error=False, prog="app", env_prefix="APP", default_env=True, default_config_files=["~/defaults.yaml"])
        P.add_argument("--cfg", action=CF)
        P.add_argument("--n", type=int, default=1)
        P.add_argument("--items", type=List[int], default=[0])
        P.add_argument("--d", type=Dict[str, int], default={})
        P.add_dataclass_arguments(lib.Opts, "opts")
        Q = AP(prog="tool", env_prefix="TOOL", parser_mode="jsonnet", default_config_files=["~/qdefaults.json"])
        Q.add_argument("--cfg", action=CF)
        Q.add_argument("--n", type=int, default=5)
        Q.add_argument("--d", type=Dict[str, int], default={})
        return {"P": P, "Q": Q}
    if world == "sdf":
        # sub-commands below a parser with a default config file (sub-parsers read the parent's file by section)
        P = AP(exit_on_error=False, prog="app", env_prefix="APP", default_config_files=["~/sdf.yaml"])
        P.add_argument("--cfg", action=CF)
        P.add_argument("--n", type=int, default=1)
        sc = P.add_subcommands()
        A = AP(default_config_files=["~/a.yaml"])
        A.add_argument("--x", type=int, default=2)
        B = AP()
        B.add_argument("--y", type=str, default="q")
        sc.add_subcommand("a", A)
        sc.add_subcommand("b", B)
        return {"P": P, "S": A}
    if world == "dcl":
        # dataclass-like values INSIDE type hints: Optional[Pt] / Optional[Nest] parameters of a class group (these
        # actions carry the non-empty sub_add_kwargs of the signature machinery), a plain dataclass parameter (nested
        # group c.e), and top-level Optional[Pt] / List[Pt] / Dict[str, Pt] options
        import importlib

        lib = importlib.import_module(LIB)
        P = AP(exit_on_error=False, prog="app", env_prefix="APP")
        P.add_argument("--cfg", action=CF)
        P.add_class_arguments(lib.DcUser, "c")
        P.add_argument("--od", type=Optional[lib.Pt], default=None)
        P.add_argument("--ld", type=List[lib.Pt], default=[])
        P.add_argument("--dd", type=Dict[str, lib.Pt], default={})
        Q = AP(prog="tool", env_prefix="TOOL")
        Q.add_argument("--cfg", action=CF)
        Q.add_class_arguments(lib.DcUser, "c")
        Q.add_argument("--od", type=Optional[lib.Nest], default=None)
        return {"P": P, "Q": Q}
    if world == "dmp":
        # None-valued defaults at every level (top-level Optional option, Optional class-typed option, init argument
        # of the default class of a subclass argument, parameter of a class group) + a link whose target has a None
        # default: the parser on which the FLAG VARIANTS of dump / --print_config are enumerated.  Q has the same
        # class-typed argument (state shared through the class would show on it) and no link.
        import importlib

        lib = importlib.import_module(LIB)
        P = AP(exit_on_error=False, prog="app", env_prefix="APP")
        P.add_argument("--cfg", action=CF)
        P.add_argument("--seed", type=Optional[int], default=None)
        P.add_argument("--name", type=str, default="x")
        P.add_argument("--total", type=Optional[int], default=None)
        P.add_subclass_arguments(lib.Net, "model", default={"class_path": f"{LIB}.Net"})
        P.add_argument("--aux", type=Optional[lib.Net], default=None)
        P.add_class_arguments(lib.Trn, "t")
        P.link_arguments("t.steps", "total", compute_fn=lib.times_ten)
        Q = AP(prog="tool", env_prefix="TOOL")
        Q.add_argument("--cfg", action=CF)
        Q.add_argument("--seed", type=Optional[int], default=None)
        Q.add_argument("--name", type=str, default="x")
        Q.add_subclass_arguments(lib.Net, "model", default={"class_path": f"{LIB}.Net"})
        return {"P": P, "Q": Q}
    if world == "lcs":
        # links INTO A CLASS-SELECTED TARGET: the target of a parsing link is an init argument of a subclass-typed
        # argument, and the subclasses declare that init argument with different kinds of type (lib.Tgt: dataclass /
        # Dict / Optional[dict] / Any / absent for `opts`; int / float / Optional[int] for `k`).  What applying the link
        # has to do (hand the source namespace over as it is, or as a dict; which type the value is checked against)
        # depends on the class selected in the config OF THE CALL, so successive calls that select different classes
        # must each behave like the first call on a fresh parser.  Sources: a dataclass group (a Namespace value, no
        # compute_fn) and a scalar; a third link has a whole mapping-typed argument as target (the other branch of the
        # namespace -> dict decision).  Q: the same link on a second parser whose default class is of another kind.
        import importlib

        lib = importlib.import_module(LIB)
        P = AP(exit_on_error=False, prog="app", env_prefix="APP")
        P.add_argument("--cfg", action=CF)
        P.add_class_arguments(lib.Pt, "opts")
        P.add_class_arguments(lib.Src, "src")
        P.add_argument("--model", type=lib.Tgt, default={"class_path": f"{LIB}.TakesData"})
        P.add_argument("--extra", type=Dict[str, int], default={})
        P.link_arguments("opts", "model.init_args.opts")
        P.link_arguments("src.size", "model.init_args.k")
        P.link_arguments("opts", "extra")
        Q = AP(prog="tool", env_prefix="TOOL")
        Q.add_argument("--cfg", action=CF)
        Q.add_class_arguments(lib.Pt, "opts")
        Q.add_argument("--model", type=lib.Tgt, default={"class_path": f"{LIB}.TakesDict"})
        Q.link_arguments("opts", "model.init_args.opts")
        return {"P": P, "Q": Q}
    raise KeyError(world)


# =================================================================================================
# operations


def _op(on, m, a=None, label="ok", kw=None, env=None, shape=None):
    op = {"on": on, "m": m, "label": label}
    if a is not None:
        op["a"] = a
    if kw:
        op["kw"] = kw
    if env:
        op["env"] = env
    if shape:
        op["shape"] = shape  # the name of this call's class in deviation signatures (default: on.m[label])
    return op


def alphabet(world, which):
    """The operation alphabet of a world: which = "core" (the operations explored deepest), "full" (core + more:
    every ordered pair is explored by the quick tier) or "all" (full + extra: thorough tier only).

    Labels name the *class* of the call (they go into deviation signatures), never its values."""
    core, more, extra = [], [], []
    if world == "sub":
        cfg_ok = {"n": 4, "flag": True, "subcommand": "a", "a": {"x": 5}}
        cfg_bad = {"n": "bad", "subcommand": "a", "a": {"x": 5}}
        core += [
            _op("P", "parse_args", ["a"]),
            _op("P", "parse_args", ["--n=3", "b", "--y=r", "c", "--z=8"], "ok:nested-subcommand"),
            _op("P", "parse_args", ["--n=bad", "a"], "error:type"),
            _op("P", "parse_args", ["--n=2", "--cfg=p_bad.yaml", "a"], "error:config-file"),
            _op("P", "parse_args", ["--help"], "help"),
            _op("P", "parse_args", ["--print_config", "a"], "print_config"),
            _op("P", "parse_args", ["--print_config", "--n=bad", "a"], "print_config+error"),
            _op("P", "parse_args", ["a", "--print_config", "--x=bad"], "sub-print_config+error"),
            _op("P", "parse_object", cfg_ok),
            _op("P", "parse_string", "n: 6\nsubcommand: a\n"),
            _op("P", "get_defaults"),
            _op("P", "dump", cfg_ok),
            _op("S", "parse_args", ["--print_config"], "print_config"),
            _op("Q", "parse_args", ["--print_config", "--n=bad"], "print_config+error"),
        ]
        more += [
            # the next two were core operations until world dcl was added (moved to keep the quick tier in budget)
            _op("P", "parse_object", {"n": "bad"}, "error:type"),
            _op("P", "parse_env", {"APP_N": "8", "APP_SUBCOMMAND": "b", "APP_B__SUBCOMMAND": "d"}, "ok:nested-subcommand"),
            _op("P", "parse_args", [], "error:no-subcommand"),
            _op("P", "parse_args", ["--zzz", "a"], "error:unrecognized"),
            _op("P", "parse_args", ["--cfg=p_ok.yaml", "a"], "ok:config-file"),
            _op("P", "parse_args", ["--cfg", '{"n": 2}', "a"], "ok:config-string"),
            _op("P", "parse_args", ["a", "--cfg=a_bad.yaml"], "error:sub-config-file"),
            _op("P", "parse_args", ["a", "--help"], "sub-help"),
            _op("P", "parse_args", ["a", "--print_config"], "sub-print_config"),
            _op("P", "parse_args", ["--print_config"], "print_config+error:no-subcommand"),
            _op("P", "parse_args", ["--print_config=bogus", "a"], "error:print_config-flag"),
            _op("P", "parse_args", ["b", "c"], "ok:env", {"env": True}, {"APP_N": "8", "APP_B__Y": "e"}),
            _op("P", "parse_object", {"unknown": 1, "subcommand": "a"}, "error:unknown-key"),
            _op("P", "parse_object", {"subcommand": "b", "b": {"y": "t", "subcommand": "d"}}, "ok:nested-subcommand"),
            _op("P", "parse_string", "n: [", "error:yaml"),
            _op("P", "parse_string", "subcommand: b\nb:\n  y: u\n  subcommand: c\n", "ok:no-defaults", {"defaults": False}),
            _op("P", "dump", cfg_ok, "ok:skip_default-with-subcommands", {"skip_default": True}),
            _op("P", "dump", cfg_bad, "error:type"),
            _op("P", "validate", cfg_bad, "error:type"),
            _op("P", "instantiate", {"n": 1, "flag": False, "a": {"x": 5}, "b": {"y": "q"}}, "ok:implicit-subcommand"),
            _op("S", "parse_args", ["--x=6"]),
            _op("S", "parse_args", ["--x=bad"], "error:type"),
            _op("S", "parse_args", ["--print_config", "--x=bad"], "print_config+error"),
            _op("S", "get_defaults"),
            _op("A0", "parse_args", ["--k=w"], "ok:stdlib-argparse"),
            _op("Q", "parse_args", ["--n=9", "--items+=1"]),
            _op("Q", "parse_args", ["--cfg=q_bad.yaml"], "error:config-file"),
            _op("Q", "parse_args", ["--help"], "help"),
            _op("Q", "parse_args", ["--print_config"], "print_config"),
        ]
        extra += [
            _op("P", "parse_env", {"APP_N": "bad"}, "error:type"),
            _op("P", "dump", cfg_ok, "ok:json", {"format": "json"}),
            _op("P", "validate", cfg_ok),
            _op("P", "instantiate", cfg_ok),
            _op("S", "parse_object", {"x": 12}),
            _op("Q", "parse_object", {"n": 3, "items": [7]}),
            _op("Q", "parse_string", "n: 4\n"),
            _op("Q", "get_defaults"),
            _op("Q", "dump", {"n": 3, "items": [1]}),
        ]
    elif world == "cls":
        other = {"class_path": f"{LIB}.Other", "init_args": {"c": 1.0}}
        cfg_ok = {"model": other, "opt": None, "cb": None, "n": 2}
        cfg_bad = {"model": {"class_path": f"{LIB}.Unrelated"}, "n": 2}
        cfg_neg = {"model": {"class_path": f"{LIB}.Sub", "init_args": {"a": -1, "b": "x"}}, "n": 2}
        core += [
            _op("P", "parse_args", []),
            _op("P", "parse_args", [f"--model={LIB}.Other", "--model.c=0.7"], "ok:class+nested-arg"),
            _op("P", "parse_args", ["--model.a=5"], "ok:nested-arg-on-default-class"),
            _op("P", "parse_args", [f"--model={LIB}.Unrelated"], "error:not-a-subclass"),
            _op("P", "parse_args", ["--model.help=Sub"], "class-help"),
            _op("P", "parse_args", ["--cb.help=Sub"], "class-help:callable-type"),
            _op("P", "parse_args", ["--print_config", f"--model={LIB}.Unrelated"], "print_config+error"),
            _op("P", "parse_args", [f"--model={LIB}.Other", "--cfg=m_bad.yaml"], "error:config-file-after-class"),
            _op("P", "parse_string", "model:\n  init_args:\n    a: 3\n", "ok:init_args-only"),
            _op("P", "parse_object", {"model": {"class_path": f"{LIB}.Other"}}, "ok:no-defaults", {"defaults": False}),
            _op("P", "get_defaults"),
            _op("P", "dump", cfg_ok),
            _op("P", "instantiate", cfg_ok),
            _op("Q", "parse_args", [f"--model={LIB}.Sub", "--model.b=z"], "ok:class+nested-arg"),
            _op("R", "parse_args", [], "error:invalid-parser-default"),
        ]
        more += [
            # the next two were core operations until world dcl was added (moved to keep the quick tier in budget)
            _op("P", "parse_object", {"model": {"init_args": {"a": 2}}}, "ok:init_args-only"),
            _op("Q", "parse_string", "model:\n  init_args:\n    a: 3\n", "ok:init_args-only"),
            _op("P", "parse_args", ["--model.help"], "class-help:base"),
            _op("P", "parse_args", [f"--model.help={LIB}.Unrelated"], "error:class-help-not-a-subclass"),
            _op("P", "parse_args", ["--model.help=Sub", "--model.b=1"], "error:class-help+extra-arg"),
            _op("P", "parse_args", [f"--opt={LIB}.Sub", "--opt.b=q"], "ok:optional-class"),
            _op("P", "parse_args", [f"--cb={LIB}.Sub"], "ok:callable-class"),
            _op("P", "parse_args", ["--print_config"], "print_config"),
            _op("P", "parse_args", ["--cfg=m_ok.yaml"], "ok:config-file"),
            _op("P", "parse_args", ["--cfg=m_init.yaml"], "ok:config-file-init_args-only"),
            _op("P", "parse_args", ["--help"], "help"),
            _op("P", "parse_env", {"APP_MODEL": f"{LIB}.Other"}),
            _op("P", "validate", cfg_ok),
            _op("P", "validate", cfg_bad, "error:not-a-subclass"),
            _op("P", "dump", cfg_ok, "ok:skip_default", {"skip_default": True}, shape="P.dump[flags]"),
            # a flag variant that shares the defaults computation with the dump above but keeps None values (the full
            # flag product is enumerated in world dmp; here on a parser with Optional / Callable class types)
            _op("P", "parse_args", ["--print_config=skip_default", "--n=2"], "print_config=skip_default", shape="P.parse_args[print_config=flags]"),
            _op("P", "dump", cfg_bad, "error:not-a-subclass"),
            _op("P", "instantiate", cfg_neg, "error:init-raises"),
            _op("Q", "parse_args", [f"--holder={LIB}.Holder", f"--holder.inner={LIB}.Sub"], "ok:nested-class"),
            _op("Q", "parse_args", ["--model.help=Other"], "class-help"),
            _op("Q", "parse_args", [f"--model={LIB}.Unrelated"], "error:not-a-subclass"),
            _op("Q", "get_defaults"),
            _op("Q", "dump", {"model": other, "holder": None}),
            _op("R", "get_defaults", None, "error:invalid-parser-default"),
        ]
        extra += [
            _op("P", "parse_args", [f"--model={LIB}.BadDefault"], "ok:class-with-nonconforming-default"),
        ]
    elif world == "link":
        cfg_ok = {
            "src": {"size": 3},
            "dst": {"name": "d"},
            "holder": {"class_path": f"{LIB}.Holder", "init_args": {"inner": {"class_path": f"{LIB}.Sub", "init_args": {"b": "x"}}, "k": 0}},
        }
        cfg_bad = {"src": {"size": "bad"}, "dst": {"name": "d"}}
        core += [
            _op("P", "parse_args", []),
            _op("P", "parse_args", ["--src.size=3"], "ok:link-source"),
            _op("P", "parse_args", ["--dst.size=4"], "error:link-target-given"),
            _op("P", "parse_args", ["--src.size=bad"], "error:type"),
            _op("P", "parse_args", ["--holder.init_args.k=2"], "ok:nested-arg"),
            _op("P", "parse_args", [f"--holder.init_args.inner={LIB}.Other"], "ok:nested-class-change"),
            _op("P", "parse_args", ["--print_config", "--src.size=bad"], "print_config+error"),
            _op("P", "parse_args", ["--print_config"], "print_config"),
            _op("P", "parse_object", {"src": {"size": 7}}, "ok:link-source"),
            _op("P", "parse_string", "src:\n  size: 6\n", "ok:link-source"),
            _op("P", "get_defaults"),
            _op("P", "dump", cfg_ok),
            _op("P", "instantiate", cfg_ok),
            _op("Q", "parse_args", ["--src.size=4", f"--holder={LIB}.Holder", f"--holder.inner={LIB}.Sub"], "ok:link-source+nested-class"),
        ]
        more += [
            _op("P", "parse_args", ["--cfg=l_ok.yaml"], "ok:config-file"),
            _op("P", "parse_args", ["--cfg=l_bad.yaml"], "ok:config-file-link-target"),
            _op("P", "parse_args", ["--help"], "help"),
            _op("P", "parse_args", ["--holder.help"], "class-help"),
            _op("P", "parse_env", {"APP_SRC__SIZE": "8"}, "ok:link-source"),
            _op("P", "dump", cfg_ok, "ok:skip_default", {"skip_default": True}),
            _op("P", "dump", cfg_ok, "ok:keep-link-targets", {"skip_link_targets": False}),
            _op("P", "dump", cfg_bad, "error:type"),
            _op("P", "validate", cfg_ok),
            _op("P", "validate", cfg_bad, "error:type"),
            _op("P", "instantiate", {"src": {"size": 3}, "dst": {"name": "d"}, "holder": {"class_path": f"{LIB}.Holder", "init_args": {"inner": {"class_path": f"{LIB}.Sub", "init_args": {"a": -1}}, "k": 0}}}, "error:init-raises"),
            _op("Q", "parse_args", ["--dst.size=1"], "error:link-target-given"),
            _op("Q", "parse_args", ["--print_config"], "print_config"),
            _op("Q", "parse_object", {"src": {"size": 9}}, "ok:link-source"),
            _op("Q", "get_defaults"),
            _op("Q", "instantiate", {"src": {"size": 1}, "dst": {"name": "e"}, "holder": None}),
        ]
    elif world == "dcf":
        cfg_ok = {"n": 4, "items": [1, 2], "d": {"__dict__": {"k": 1}}, "opts": {"lr": 0.5, "steps": 2}}
        cfg_bad = {"n": 4, "items": "bad", "d": {"__dict__": {}}, "opts": {"lr": 0.5, "steps": 2}}
        bad_home = {"HOME": "home_bad"}
        no_home = {"HOME": "home_none"}
        core += [
            _op("P", "parse_args", []),
            _op("P", "parse_args", ["--n=2", "--items+=5"], "ok:env+append", None, {"APP_N": "9", "APP_ITEMS": "[7]"}),
            _op("P", "parse_args", [], "error:bad-default-config-file", None, bad_home),
            _op("P", "parse_args", [], "ok:no-default-config-file", None, no_home),
            _op("P", "parse_args", ["--cfg=d_app.yaml", "--d.k=1"], "ok:config-file-append+dict-key"),
            _op("P", "parse_args", ["--d.k=2", "--cfg=d_bad.yaml"], "error:config-file"),
            _op("P", "parse_args", ["--opts.steps=bad"], "error:type"),
            _op("P", "parse_args", ["--help"], "help"),
            _op("P", "parse_args", ["--print_config=skip_default", "--n=3"], "print_config"),
            _op("P", "parse_args", ["--print_config", "--n=bad"], "print_config+error"),
            _op("P", "parse_object", {"n": 5, "d": {"z": 3}}),
            _op("P", "parse_string", "items: [3]\nopts:\n  lr: 0.2\n"),
            _op("P", "get_defaults"),
            _op("P", "get_defaults", None, "error:bad-default-config-file", None, bad_home),
            _op("P", "dump", cfg_ok),
            _op("Q", "parse_args", ["--cfg=q_ok.json"], "ok:config-file"),
        ]
        more += [
            _op("P", "parse_args", ["--cfg=d_ok.yaml"], "ok:config-file"),
            _op("P", "parse_args", ["--d", '{"a": 2}', "--opts.steps=9"], "ok:dict+dataclass-field"),
            _op("P", "parse_args", ["--help"], "error:help+bad-default-config-file", None, bad_home),
            _op("P", "parse_args", ["--print_config"], "print_config:no-default-config-file", None, no_home),
            _op("P", "parse_args", ["--print_shtab=bash"], "print_shtab"),
            _op("P", "parse_env", {"APP_ITEMS": "[1, 2]", "APP_OPTS__STEPS": "4"}),
            _op("P", "parse_env", {"APP_N": "bad"}, "error:type"),
            _op("P", "parse_object", {"items": "bad"}, "error:type"),
            _op("P", "parse_string", "d: 3\n", "error:type"),
            _op("P", "dump", cfg_ok, "ok:skip_default", {"skip_default": True}),
            _op("P", "dump", cfg_bad, "error:type"),
            _op("P", "validate", cfg_ok),
            _op("P", "validate", cfg_bad, "error:type"),
            _op("P", "instantiate", cfg_ok),
            _op("Q", "parse_args", ["--n=bad"], "error:type"),
            _op("Q", "parse_args", ["--print_config", "--d.j=2"], "print_config"),
            _op("Q", "parse_string", '{"n": 3, "d": {"j": 1 + 1}}', "ok:jsonnet"),
            _op("Q", "parse_string", '{"n": ', "error:jsonnet"),
            _op("Q", "get_defaults"),
            _op("Q", "dump", {"n": 3, "d": {"__dict__": {"j": 1}}}),
        ]
    elif world == "sdf":
        bad_home = {"HOME": "home_bad"}
        cfg_ok = {"n": 2, "subcommand": "a", "a": {"x": 3}}
        core += [
            _op("P", "parse_args", ["a"]),
            _op("P", "parse_args", ["b", "--y=r"]),
            _op("P", "parse_args", ["a"], "error:bad-subcommand-default-config-file", None, bad_home),
            _op("P", "parse_args", ["a"], "error:bad-default-config-file", None, {"HOME": "home_worse"}),
            _op("P", "parse_args", ["a", "--x=bad"], "error:type"),
            _op("P", "parse_args", ["--help"], "help"),
            _op("P", "parse_args", ["--print_config", "a"], "print_config"),
            _op("P", "parse_object", cfg_ok),
            _op("P", "parse_object", cfg_ok, "error:bad-subcommand-default-config-file", None, bad_home),
            # fails INSIDE the loading of the default config file (after its values were accepted one by one)
            _op("P", "get_defaults", None, "error:default-config-file-unknown-subcommand-key", None, {"HOME": "home_badkey"}),
            _op("P", "get_defaults"),
            _op("P", "get_defaults", None, "ok:other-default-config-file", None, {"HOME": "home_none"}),
            _op("P", "dump", cfg_ok),
            _op("S", "get_defaults"),
            _op("S", "parse_args", ["--x=5"]),
            _op("S", "parse_args", [], "error:bad-default-config-file", None, bad_home),
        ]
        extra += [
            # was the failing operation of this kind until /repo accepted such a file (fail_no_subcommand=False)
            _op("P", "get_defaults", None, "ok:default-config-file-without-subcommand", None, {"HOME": "home_nosub"}),
        ]
    elif world == "dcl":
        # "dataclass-param" = the call hands the parser a non-null value for a signature parameter whose type hint
        # CONTAINS a dataclass (c.d: Optional[Pt], c.n: Optional[Nest]) - full, PARTIAL (defaults fill the rest) or
        # dotted; such calls are one class of call whatever the method, so they carry an explicit signature shape
        # `<parser>.<parse*|dump|validate|instantiate>[dataclass-param]` (see signature()); the label still says which
        # variant it is.  "dataclass-group" = the plain dataclass parameter c.e (nested group); "dataclass-option" =
        # the top-level --od / --ld / --dd.
        def dc(on, m, a, label, kw=None, env=None):
            fam = "parse*" if m.startswith("parse") else m
            return _op(on, m, a, label, kw, env, shape=f"{on}.{fam}[dataclass-param]")

        cfg_ok = {
            "c": {"d": {"a": 5, "b": 7}, "e": {"a": 3, "b": 4}, "n": {"k": 1, "inner": {"a": 2, "b": 3}}},
            "od": {"a": 1, "b": 2},
            "ld": [{"a": 5, "b": 2}],
            "dd": {"__dict__": {"k": {"a": 1, "b": 1}}},
        }
        cfg_part = {"c": {"d": {"a": 5}, "e": {"a": 3, "b": 4}, "n": None}, "od": {"b": 2}, "ld": [], "dd": {"__dict__": {}}}
        cfg_bad = {"c": {"d": {"a": [1], "b": 7}, "e": {"a": 3, "b": 4}, "n": None}, "od": None, "ld": [], "dd": {"__dict__": {}}}
        core += [
            dc("P", "parse_args", ['--c.d={"a": 5, "b": 7}'], "ok:full"),
            dc("P", "parse_args", ['--c.d={"a": 6}'], "ok:partial"),
            dc("P", "parse_args", ["--c.d.b=8"], "ok:dotted"),
            _op("P", "parse_args", ["--c.d=null", '--od={"b": 8}'], "ok:dataclass-param-null+dataclass-option"),
            dc("P", "parse_args", ['--c.d={"a": 5, "zz": 7}'], "error:unknown-field"),
            dc("P", "parse_args", ["--print_config", '--c.n={"inner": {"b": 6}}'], "print_config:nested-partial"),
            dc("P", "parse_string", "c:\n  d:\n    b: 9\nod:\n  b: 9\nld:\n- a: 4\n", "ok:partial"),
            dc("P", "parse_object", {"c": {"n": {"k": 5, "inner": {"a": 8, "b": 9}}}, "od": {"a": 8, "b": 9}}, "ok:nested-full"),
            _op("P", "get_defaults"),
            dc("P", "dump", cfg_ok, "ok"),
        ]
        more += [
            _op("P", "parse_args", []),
            dc("P", "parse_args", ['--c.n={"k": 5, "inner": {"a": 8, "b": 9}}'], "ok:nested-full"),
            dc("P", "parse_args", ["--c.n.inner.a=4"], "ok:nested-dotted"),
            _op("P", "parse_args", ['--c.e={"b": 9}', "--c.e.a=9"], "ok:dataclass-group"),
            _op("P", "parse_args", ['--od={"a": 5, "b": 7}', "--od.b=6"], "ok:dataclass-option"),
            _op("P", "parse_args", ['--od={"a": "x"}'], "error:dataclass-option-field-type"),
            _op("P", "parse_args", ['--ld=[{"a": 5, "b": 7}, {"b": 3}]', '--ld+={"a": 6}'], "ok:dataclass-list+append"),
            _op("P", "parse_args", ['--dd={"k": {"a": 5, "b": 7}}', '--dd.j={"a": 1, "b": 1}'], "ok:dataclass-dict+key"),
            dc("P", "parse_args", ["--cfg=c_part.yaml"], "ok:config-file"),
            dc("P", "parse_args", ['--c.d={"a": 5, "b": 7}', "--cfg=c_bad.yaml"], "error:config-file-after-value"),
            _op("P", "parse_args", ["--help"], "help"),
            dc("P", "parse_object", {"c": {"d": {"a": 6}}}, "ok:partial"),
            dc("P", "parse_object", {"c": {"d": {"b": 4}}}, "ok:no-defaults", {"defaults": False}),
            dc("P", "dump", cfg_ok, "ok:skip_default", {"skip_default": True}),
            _op("P", "parse_args", ["--print_config=skip_default", "--od.b=6"], "print_config=skip_default"),
            dc("P", "validate", cfg_ok, "ok"),
            dc("P", "validate", cfg_bad, "error:type"),
            dc("P", "instantiate", cfg_part, "ok:partial"),
            dc("Q", "parse_args", ['--c.d={"b": 3}'], "ok:partial"),
            dc("Q", "parse_args", ['--c.d={"a": 5, "b": 7}', '--od={"k": 2, "inner": {"a": 4}}'], "ok:full"),
            dc("Q", "parse_args", ["--print_config", "--c.d.a=bad"], "print_config+error"),
            dc("Q", "parse_string", "c:\n  d:\n    a: 4\n", "ok:partial"),
        ]
        extra += [
            _op("P", "parse_args", ["--print_config"], "print_config"),
            _op("P", "parse_args", ["--od=null", "--c.n=null"], "ok:dataclass-param-null+dataclass-option-null"),
            dc("P", "parse_env", {"APP_C__D": '{"a": 2}', "APP_OD": '{"b": 4}'}, "ok:partial"),
            dc("Q", "instantiate", {"c": {"d": {"a": 5}, "e": {"a": 3, "b": 4}, "n": None}, "od": {"k": 1, "inner": {"a": 2, "b": 3}}}, "ok:partial"),
        ]
    elif world == "dmp":
        # The flag variants of dump and of --print_config.  dump(cfg, skip_default, skip_none, skip_validation, format)
        # is enumerated as the full PRODUCT of its four flags (16 variants) on one config (cfg_a: None values equal to
        # their defaults + one changed value); the pairs skip_default x skip_none again on a second config (cfg_b:
        # another class, non-None values) and skip_default x skip_validation on an invalid one; --print_config with
        # every subset of its flags {skip_default, skip_null} (+ comments); yaml_comments / skip_link_targets variants
        # in `extra`.  Every ordered pair of these is explored by the quick tier, so "variant A leaves something that
        # variant B reads" is covered for every A, B.  All flag variants of one entry point are one class of call:
        # shape `<parser>.dump[flags]` / `<parser>.parse_args[print_config=flags]` in signatures (the label says which).
        net = {"class_path": f"{LIB}.Net", "init_args": {"width": 8, "ckpt": None}}
        wide = {"class_path": f"{LIB}.WideNet", "init_args": {"depth": 2, "tag": None, "width": 8, "ckpt": "c.pt"}}
        cfg_a = {"seed": None, "name": "y", "total": 30, "model": net, "aux": None, "t": {"steps": 3, "resume": None}}
        cfg_b = {"seed": 4, "name": "x", "total": 50, "model": wide, "aux": net, "t": {"steps": 5, "resume": "r"}}
        cfg_bad = {"seed": "bad", "name": "y", "total": 30, "model": net, "aux": None, "t": {"steps": 3, "resume": None}}
        cfg_q = {"seed": None, "name": "y", "model": net}

        def dump(on, cfg, what, sd=False, sn=True, sv=False, fmt=None, **other):
            kw, names = dict(other), sorted(f"{k}={v}" for k, v in other.items())
            if sd:
                kw["skip_default"] = True
                names.append("skip_default")
            if not sn:
                kw["skip_none"] = False
                names.append("skip_none=False")
            if sv:
                kw["skip_validation"] = True
                names.append("skip_validation")
            if fmt:
                kw["format"] = fmt
                names.append(fmt)
            return _op(on, "dump", cfg, what + ":" + ("+".join(names) or "no-flags"), kw, shape=f"{on}.dump[flags]")

        def pc(on, flags, rest, what="print_config"):
            arg = "--print_config" + ("=" + ",".join(flags) if flags else "")
            return _op(on, "parse_args", [arg] + rest, f"{what}={','.join(flags) or 'no-flags'}", shape=f"{on}.parse_args[print_config=flags]")

        core += [
            _op("P", "parse_args", ["--name=y"]),
            dump("P", cfg_a, "ok"),
            dump("P", cfg_a, "ok", sd=True),
            dump("P", cfg_a, "ok", sd=True, sn=False),
            pc("P", ["skip_default"], ["--name=y"]),
            pc("P", ["skip_default"], ["--seed=bad"], "print_config+error"),
            _op("P", "get_defaults"),
            dump("Q", cfg_q, "ok", sd=True),
        ]
        in_core = {json.dumps(o, sort_keys=True) for o in core}
        product = [
            dump("P", cfg_a, "ok", sd, sn, sv, fmt)
            for sd in (False, True)
            for sn in (True, False)
            for sv in (False, True)
            for fmt in (None, "json")
        ]
        more += [o for o in product if json.dumps(o, sort_keys=True) not in in_core]
        more += [
            dump("P", cfg_b, "ok:other-class"),
            dump("P", cfg_b, "ok:other-class", sd=True),
            dump("P", cfg_b, "ok:other-class", sd=True, sn=False),
            dump("P", cfg_bad, "error:type"),
            dump("P", cfg_bad, "ok:invalid-config", sv=True),
            dump("P", cfg_bad, "ok:invalid-config", sd=True, sv=True),
            pc("P", [], ["--seed=4"]),
            pc("P", ["skip_null"], ["--name=y"]),
            pc("P", ["skip_default", "skip_null"], ["--name=y"]),
            pc("P", ["comments"], ["--name=y"]),
            pc("P", ["skip_default"], ["--cfg=m_cfg.yaml", f"--model={LIB}.WideNet"], "print_config:config-file+class-change"),
            _op("P", "parse_args", [f"--aux={LIB}.WideNet", "--aux.tag=t", "--t.resume=r"], "ok:optional-class"),
            _op("P", "validate", cfg_a),
            dump("Q", cfg_q, "ok", sd=True, sn=False),
            pc("Q", ["skip_default"], ["--name=y"]),
        ]
        extra += [
            dump("P", cfg_b, "ok:other-class", sn=False),
            dump("P", cfg_b, "ok:other-class", sd=True, sv=True, fmt="json"),
            pc("Q", ["skip_default", "skip_null"], ["--name=y"]),
            dump("P", cfg_bad, "error:type", sd=True),
            _op("P", "parse_args", []),
            dump("P", cfg_a, "ok", yaml_comments=True),
            dump("P", cfg_a, "ok", sd=True, yaml_comments=True),
            dump("P", cfg_a, "ok", sn=False, yaml_comments=True),
            dump("P", cfg_a, "ok", skip_link_targets=False),
            dump("P", cfg_a, "ok", sd=True, skip_link_targets=False),
            dump("P", cfg_a, "ok", sd=True, sn=False, skip_link_targets=False),
            pc("P", ["comments", "skip_default"], ["--name=y"]),
            pc("P", ["comments", "skip_null"], ["--name=y"]),
            pc("P", ["comments", "skip_default", "skip_null"], ["--name=y"]),
            _op("P", "parse_string", "seed: null\nmodel:\n  init_args:\n    ckpt: null\n", "ok:explicit-null"),
            _op("P", "instantiate", cfg_b),
        ]
    elif world == "lcs":
        # "link-into-class" = a parse_* call that gets as far as applying the parsing links while a class is selected
        # for the link target; WHICH class (the kind of type it gives the linked init argument: dataclass / mapping /
        # optional mapping / Any / no such argument) and through which entry point it is selected (argv, object, string,
        # config file, environment, parser default) are the values of this one class of call: shape
        # `<parser>.parse*[link-into-class]` in signatures, the label says which variant.  Every ordered pair of kinds
        # is in the quick tier (full alphabet, histories of length 2), every triple of the core kinds.
        def lk(on, m, a, label, kw=None, env=None):
            return _op(on, m, a, label, kw, env, shape=f"{on}.parse*[link-into-class]")

        def sel(name, init=None):
            d = {"class_path": f"{LIB}.{name}"}
            if init is not None:
                d["init_args"] = init
            return d

        cfg_data = {"opts": {"a": 3, "b": 2}, "src": {"size": 2}, "model": sel("TakesData", {}), "extra": {"__dict__": {}}}
        cfg_map = {"opts": {"a": 3, "b": 2}, "src": {"size": 2}, "model": sel("TakesDict", {}), "extra": {"__dict__": {}}}
        ins_data = {"opts": {"a": 3, "b": 2}, "src": {"size": 2}, "model": sel("TakesData", {"opts": {"a": 3, "b": 2}, "k": 2}), "extra": {"__dict__": {"a": 3, "b": 2}}}
        ins_map = {"opts": {"a": 3, "b": 2}, "src": {"size": 2}, "model": sel("TakesDict", {"opts": {"__dict__": {"a": 3, "b": 2}}, "k": 2}), "extra": {"__dict__": {"a": 3, "b": 2}}}
        core += [
            lk("P", "parse_args", [], "ok:default-class:dataclass-init-arg"),
            lk("P", "parse_args", [f"--model={LIB}.TakesDict", "--opts.a=3"], "ok:mapping-init-arg"),
            lk("P", "parse_args", [f"--model={LIB}.TakesData", "--opts.b=5"], "ok:dataclass-init-arg"),
            lk("P", "parse_object", {"model": sel("TakesOptMap"), "opts": {"b": 7}}, "ok:optional-mapping-init-arg"),
            lk("P", "parse_string", f"model: {LIB}.TakesAny\nsrc:\n  size: 5\n", "ok:any-init-arg"),
            lk("P", "parse_args", ["--print_config", f"--model={LIB}.TakesDict"], "print_config:mapping-init-arg"),
            _op("P", "parse_args", [f"--model={LIB}.TakesDict", "--cfg=k_bad.yaml"], "error:config-file-after-class"),
            lk("Q", "parse_args", [f"--model={LIB}.TakesData", "--opts.a=4"], "ok:dataclass-init-arg"),
        ]
        more += [
            lk("P", "parse_args", [f"--model={LIB}.NoOpts"], "ok:no-such-init-arg"),
            lk("P", "parse_args", [f"--model={LIB}.TakesOptMap", "--src.size=4"], "ok:optional-mapping-init-arg+scalar-source"),
            lk("P", "parse_args", ["--cfg=k_map.yaml"], "ok:config-file:mapping-init-arg"),
            lk("P", "parse_args", ["--cfg=k_map.yaml", "--cfg=k_data.yaml"], "ok:two-config-files:mapping-then-dataclass"),
            lk("P", "parse_env", {"APP_MODEL": f"{LIB}.TakesDict", "APP_OPTS__B": "8"}, "ok:mapping-init-arg"),
            lk("P", "parse_object", {"model": sel("TakesData"), "src": {"size": 9}}, "ok:dataclass-init-arg"),
            # fails INSIDE the application of the links (the source is not in the config)
            _op("P", "parse_string", f"model: {LIB}.TakesDict\n", "error:no-defaults:link-source-missing", {"defaults": False}),
            lk("P", "parse_args", [f"--model={LIB}.TakesDict", '--model.opts={"a": 9}'], "ok:link-target-given-is-overridden:mapping-init-arg"),
            _op("P", "parse_args", ["--model.help=TakesDict"], "class-help"),
            _op("P", "get_defaults"),
            _op("P", "dump", cfg_map, "ok:mapping-init-arg"),
            _op("P", "dump", cfg_data, "ok:skip_default:dataclass-init-arg", {"skip_default": True}),
            _op("P", "instantiate", ins_map, "ok:mapping-init-arg"),
            _op("P", "instantiate", ins_data, "ok:dataclass-init-arg"),
            lk("Q", "parse_args", [], "ok:default-class:mapping-init-arg"),
            lk("Q", "parse_object", {"model": sel("TakesAny")}, "ok:any-init-arg"),
            lk("Q", "parse_args", ["--print_config", f"--model={LIB}.TakesOptMap"], "print_config:optional-mapping-init-arg"),
        ]
        extra += [
            _op("P", "parse_args", [f"--model={LIB}.TakesAny", "--extra.z=1"], "error:link-target-is-not-an-option"),
            _op("P", "parse_args", [f"--model={LIB}.Unrelated"], "error:not-a-subclass"),
            _op("P", "parse_args", ["--help"], "help"),
            _op("P", "validate", cfg_map, "ok:mapping-init-arg"),
            _op("Q", "get_defaults"),
            lk("P", "parse_args", ["--print_config=skip_default", f"--model={LIB}.TakesData"], "print_config:dataclass-init-arg"),
            _op("P", "validate", cfg_data, "ok:dataclass-init-arg"),
            lk("Q", "parse_string", f"model: {LIB}.NoOpts\n", "ok:no-such-init-arg"),
            _op("Q", "instantiate", {"opts": {"a": 1, "b": 2}, "model": sel("TakesDict", {"opts": {"__dict__": {"a": 1, "b": 2}}, "k": 0})}, "ok:mapping-init-arg"),
        ]
    else:
        raise KeyError(world)
    return {"core": core, "full": core + more, "all": core + more + extra}[which]


# =================================================================================================
# executing one operation on live objects -> canonical observation


def to_ns(x, J):
    """dict literal -> Namespace tree ({"__dict__": {...}} keeps a real dict)."""
    if isinstance(x, dict):
        if set(x) == {"__dict__"}:
            return {k: to_ns(v, J) for k, v in x["__dict__"].items()}
        ns = J.Namespace()
        for k, v in x.items():
            ns[k] = to_ns(v, J)
        return ns
    if isinstance(x, list):
        return [to_ns(v, J) for v in x]
    return x


def exec_op(objs, op, J):
    """Run one operation; returns the canonical observation (a JSON string)."""
    import warnings

    from mc.core import canon_json
    from mc.util import outcome, tcanon

    parser = objs[op["on"]]
    m = op["m"]
    kw = dict(op.get("kw") or {})
    a = copy.deepcopy(op.get("a"))
    if m == "parse_args":
        fn, args = parser.parse_args, (a,)
    elif m == "parse_object":
        fn, args = parser.parse_object, (a,)
    elif m == "parse_string":
        fn, args = parser.parse_string, (a,)
    elif m == "parse_env":
        fn, args = parser.parse_env, (a,)
    elif m == "get_defaults":
        fn, args = parser.get_defaults, ()
    elif m == "dump":
        fn, args = parser.dump, (to_ns(a, J),)
    elif m == "validate":
        fn, args = parser.validate, (to_ns(a, J),)
    elif m == "instantiate":
        fn, args = parser.instantiate_classes, (to_ns(a, J),)
    else:
        raise AssertionError(op)
    saved_env = None
    if op.get("env"):
        saved_env = dict(os.environ)
        os.environ.update(op["env"])
    try:
        with warnings.catch_warnings(record=True) as wlist:
            warnings.simplefilter("always")
            o = outcome(fn, *args, **kw)
    finally:
        if saved_env is not None:
            for k in list(os.environ):
                if k not in saved_env:
                    del os.environ[k]
            os.environ.update(saved_env)
    obs = {"kind": o["kind"]}
    if o["kind"] == "ok":
        obs["value"] = tcanon(o["value"])
        obs["type"] = f"{type(o['value']).__module__}.{type(o['value']).__qualname__}"
        obs["stdout"], obs["stderr"] = o["stdout"], o["stderr"]
    elif o["kind"] == "ArgumentError":
        obs["message"] = o["message"]
    elif o["kind"] == "exit":
        obs["code"], obs["stdout"], obs["stderr"] = o["code"], o["stdout"], _drop_synopsis(o["stderr"])
    elif o["kind"] == "escape":
        obs["type"], obs["message"] = o["type"], o["message"]
    obs["warnings"] = [[w.category.__name__, str(w.message)] for w in wlist]
    return canon_json(obs)


_SYNOPSIS = re.compile(r"\Ausage: .*?(?=^error: )", re.S | re.M)


def _drop_synopsis(stderr):
    """The usage synopsis that precedes an error message is not judged (interpretation, see notes/C09.md): it lists
    the --print_shtab option that the first parse_args adds lazily.  Error text, exit status and stdout are judged."""
    return _SYNOPSIS.sub("usage: <synopsis>\n", stderr)


def obs_kind(obs_json):
    o = json.loads(obs_json)
    k = o["kind"]
    if k == "exit":
        return f"exit{o['code']}"
    if k == "escape":
        return "raises:" + o["type"].rsplit(".", 1)[-1]
    return k


FAMILY = {
    "parse_args": "parse",
    "parse_object": "parse",
    "parse_string": "parse",
    "parse_env": "parse",
    "get_defaults": "defaults",
    "dump": "dump",
    "validate": "validate",
    "instantiate": "instantiate",
}


def op_family(op):
    """parse (every parse_* call, --help / --print_config included), defaults, dump, validate, instantiate."""
    return FAMILY[op["m"]]


def signature(history, op, gold, got):
    """Shape of a deviation: which earlier calls (1-minimal history) make which kind of call answer differently."""
    before = ", ".join(h.get("shape") or f"{h['on']}.{h['m']}[{h['label']}]" for h in history) or "(nothing)"
    return f"after {before}: {op['on']}.{op_family(op)} answers differently"


# =================================================================================================
# process management: everything that calls jsonargparse runs in a forked child of a pristine image


def _h(s):
    return hashlib.sha1(s.encode("utf-8", "backslashreplace")).hexdigest()[:16]


def prewarm():
    """Fill, in the pristine image, the third-party / stdlib caches that the first library call would fill in every
    forked child otherwise (lazy imports of shtab, yaml ...; inspect's file->module map and linecache, which
    parse_known_args touches through inspect.stack()).  Nothing here calls jsonargparse."""
    import importlib
    import inspect
    import linecache

    for name in ("yaml", "shtab", "argcomplete", "docstring_parser", "typeshed_client", "_jsonnet", "attrs", "attr",
                 "platform", "unicodedata", "shlex", "glob", "fnmatch", "reconplogger", LIB):
        try:
            importlib.import_module(name)
        except ImportError:
            pass

    def probe():
        return inspect.stack()

    probe()
    for mod in list(sys.modules.values()):
        f = getattr(mod, "__file__", None)
        if f and f.endswith(".py") and ("jsonargparse" in f or f.endswith(("argparse.py", "contextlib.py"))):
            linecache.getlines(f)
            inspect.getmodule(None, f)


def fork_call(fn, *args):
    """Run fn(*args) in a forked child and return its result (pickled through a pipe)."""
    from mc.core import HarnessError

    sys.stdout.flush()
    sys.stderr.flush()
    r, w = os.pipe()
    pid = os.fork()
    if pid == 0:
        code = 0
        try:
            os.close(r)
            try:
                res = ("ok", fn(*args))
            except BaseException:  # noqa: BLE001 - reported to the parent
                res = ("error", traceback.format_exc())
            with os.fdopen(w, "wb") as f:
                f.write(pickle.dumps(res))
        except BaseException:  # noqa: BLE001
            code = 3
        finally:
            os._exit(code)
    os.close(w)
    with os.fdopen(r, "rb") as f:
        data = f.read()
    os.waitpid(pid, 0)
    if not data:
        raise HarnessError(f"forked child for {getattr(fn, '__name__', fn)} died without a result")
    kind, val = pickle.loads(data)
    if kind != "ok":
        raise HarnessError(f"forked child failed:\n{val}")
    return val


def _setup_child(root, world):
    """Inside a forked child: bind the world directory, silence logging, return (J, objs)."""
    import logging
    import warnings

    import jsonargparse as J

    warnings.simplefilter("ignore")
    logging.disable(logging.CRITICAL)
    os.chdir(os.path.join(root, world))
    for k in list(os.environ):
        if k.startswith(("APP_", "TOOL_", "JSONARGPARSE_")):
            del os.environ[k]
    os.environ["HOME"] = os.path.join(root, world, "home_ok")
    sys.argv = ["prog"]
    sys.setrecursionlimit(3000)
    objs = build_world(world, J)
    return J, objs


def _state(objs, want_lines=False):
    from mc.checks.c09_canon import canonical_state

    h, lines, stats = canonical_state(objs)
    return (h, lines, stats) if want_lines else h


def populate(root):
    for world in WORLDS:
        for rel, text in world_files(world).items():
            path = os.path.join(root, world, rel)
            os.makedirs(os.path.dirname(path), exist_ok=True)
            with open(path, "w") as f:
                f.write(text)


def _run_one(objs, op, J, gold_hash):
    obs = exec_op(objs, op, J)
    oh = _h(obs)
    return (oh, _state(objs), obs if oh != gold_hash else None)


def _run_batch(objs, ops, idxs, J, gold, pre):
    res = []
    for i in idxs:
        r = _run_one(objs, ops[i], J, gold.get(i))
        res.append((i,) + r)
        if r[1] != pre:
            break
    return res


def _expand_child(task):
    """In child C: build, replay the history, then one grandchild per operation."""
    J, objs = _setup_child(task["root"], task["world"])
    ops = task["ops"]
    for i in task["history"]:
        exec_op(objs, ops[i], J)
    h = _state(objs)
    out = {"state": h, "results": [], "diverged": None}
    if task.get("expect") is not None and h != task["expect"]:
        out["diverged"] = f"replay of history {task['history']} gives state {h}, recorded {task['expect']}"
        return out
    gold = task.get("gold") or {}
    todo = list(task["run"])
    while todo:
        # one grandchild runs operations until the first one that changes the state (a self-loop leaves the
        # process in the very state being expanded, so the next operation may run in the same process)
        done = fork_call(_run_batch, objs, ops, todo, J, gold, h)
        out["results"] += done
        out["forks"] = out.get("forks", 0) + 1
        todo = todo[len(done):]
    return out


def expand(task):
    """Pool worker (pristine, never calls the library): expand one state in a forked child."""
    return task["key"], fork_call(_expand_child, task)


def _sequential_child(task):
    """Stateless cross-check: run a whole history in ONE process, no intermediate forks; then every op in a
    grandchild.  Reports the state hash after every prefix."""
    J, objs = _setup_child(task["root"], task["world"])
    ops = task["ops"]
    trail = [_state(objs)]
    obs_trail = []
    for i in task["history"]:
        obs_trail.append(_h(exec_op(objs, ops[i], J)))
        trail.append(_state(objs))
    results = []
    for i in task["run"]:
        oh, sh, _ = fork_call(_run_one, objs, ops[i], J, None)
        results.append((i, oh, sh))
    return {"trail": trail, "obs_trail": obs_trail, "results": results}


def xcheck(task):
    return task["key"], fork_call(_sequential_child, task)


def _probe_child(task):
    """Replay an arbitrary (sub-)history and run one op; returns its observation.  Used by minimisation/run_case."""
    J, objs = _setup_child(task["root"], task["world"])
    for h in task["history"]:
        exec_op(objs, h, J)
    return exec_op(objs, task["op"], J)


def minimise(task):
    """Pool worker: 1-minimal sub-history that still makes `op` answer differently from the golden observation
    (greedy removal, every candidate replayed in a fresh forked child)."""
    hist = list(task["history"])
    kept = list(range(len(hist)))  # positions of the original history that are still in `hist`
    gold = task["gold"]

    def deviates(h):
        obs = fork_call(_probe_child, {"root": task["root"], "world": task["world"], "history": h, "op": task["op"]})
        return obs if obs != gold else None

    got = deviates(hist)
    if got is None:
        return task["key"], None, None, None
    changed = True
    while changed:
        changed = False
        for i in range(len(hist)):
            cand = hist[:i] + hist[i + 1 :]
            g = deviates(cand)
            if g is not None:
                hist, got, changed = cand, g, True
                kept = kept[:i] + kept[i + 1 :]
                break
    return task["key"], hist, got, kept


# =================================================================================================
# replay of one case


def run_case(case):
    """case = {"world", "history": [op...], "op": op}: golden observation and observation after the history, each
    in a forked child of this (pristine) process, on freshly written files."""
    import shutil
    import tempfile

    prewarm()
    root = tempfile.mkdtemp(prefix="jsa_c09_", dir=os.environ.get("VERIF_TMP", "/tmp"))
    try:
        populate(root)
        base = {"root": root, "world": case["world"], "op": case["op"]}
        gold = fork_call(_probe_child, {**base, "history": []})
        gold2 = fork_call(_probe_child, {**base, "history": []})
        got = fork_call(_probe_child, {**base, "history": case["history"]})
    finally:
        shutil.rmtree(root, ignore_errors=True)
    if gold != gold2:
        return [{"signature": "golden-observation-not-deterministic", "detail": f"{gold[:300]} vs {gold2[:300]}"}]
    if got == gold:
        return []
    return [{"signature": signature(case["history"], case["op"], gold, got), "detail": _detail(gold, got)}]


def _detail(gold, got):
    return f"[{obs_kind(gold)} -> {obs_kind(got)}] fresh parser: {gold[:360]} || after the history: {got[:360]}"


# =================================================================================================
# the search


def explore_world(seed, pool, root, world, which, max_depth, state_cap, xcheck_budget, xcheck_all_upto):
    """One search: BFS over the states of `world` under alphabet `which` up to histories of length max_depth (or
    closure / state cap), the cross-check of merged histories, minimisation of deviating transitions.
    Returns a report dict; report["deviations"] = [(signature, case, detail)]."""
    import random

    from mc.core import HarnessError

    ops = alphabet(world, which)
    nops = len(ops)
    base = {"root": root, "world": world, "ops": ops}
    rng = random.Random(f"{seed}:{world}:{which}")  # only permutes the order of exploration
    found = []

    def run_tasks(fn, tasks):
        tasks = list(tasks)
        rng.shuffle(tasks)
        return pool.imap_unordered(fn, tasks)

    # depth 0: the golden observations
    (_, out0), = list(run_tasks(expand, [{**base, "key": "init", "history": [], "run": list(range(nops))}]))
    s0 = out0["state"]
    gold_hash, gold_obs = {}, {}
    table = {}  # (state, op index) -> (successor state, observation hash)
    for i, oh, sh, obs in out0["results"]:
        gold_hash[i] = oh
        table[(s0, i)] = (sh, oh)
    # full golden observations (second, independent run: must be deterministic)
    (_, again), = list(run_tasks(expand, [{**base, "key": "init2", "history": [], "run": list(range(nops)), "gold": {}}]))
    for i, oh, sh, obs in again["results"]:
        if oh != gold_hash[i] or sh != table[(s0, i)][0] or again["state"] != s0:
            raise HarnessError(f"{world}: fresh-world observation/state of {ops[i]} is not deterministic")
        gold_obs[i] = obs
    history = {s0: []}
    transitions = 2 * nops
    per_depth = [1]
    deviating = []  # (history idx list, op idx, observation)
    closed = False
    caps = []
    depth_done = 0

    def absorb(parent, results):
        """Record the transitions of one expanded state; returns the (history, successor) candidates."""
        new = []
        for i, oh, sh, obs in results:
            table[(parent, i)] = (sh, oh)
            if oh != gold_hash[i]:
                deviating.append((history[parent], i, obs))
            new.append((history[parent] + [i], sh))
        return new

    cand = [([i], table[(s0, i)][0]) for i in range(nops)]
    for depth in range(1, max_depth + 1):
        # states first reached at this depth, each with its lexicographically smallest history
        nxt = {}
        for hist, sh in sorted(cand):
            if sh not in history and sh not in nxt:
                nxt[sh] = hist
        for sh, hist in nxt.items():
            history[sh] = hist
        frontier = list(nxt)
        depth_done = depth
        per_depth.append(len(frontier))
        if not frontier:
            closed = True
            break
        if depth == max_depth:
            break
        if len(history) > state_cap:
            caps.append(f"{world}: state cap {state_cap} reached at depth {depth}; {len(frontier)} states of this depth not expanded")
            break
        cand = []
        tasks = [
            {**base, "key": s, "history": history[s], "expect": s, "run": list(range(nops)), "gold": gold_hash}
            for s in frontier
        ]
        for s, out in run_tasks(expand, tasks):
            if out["diverged"]:
                raise HarnessError(f"{world}: replay divergence: {out['diverged']}")
            transitions += len(out["results"]) + len(history[s])
            cand += absorb(s, out["results"])
    expanded = {s for (s, _i) in table}

    # ---- stateless cross-check of merged histories (validates canonicalisation + isolation)
    # every (expanded state, op) whose successor was already known under a different shortest history is a merge;
    # re-run that alternative history sequentially in one process and require: same state hash after every prefix
    # as the search's table says, and for every operation from there the same observation and successor hash.
    merges = []
    for (s, i), (sh, _oh) in sorted(table.items(), key=lambda kv: (history[kv[0][0]], kv[0][1])):
        alt = history[s] + [i]
        if sh in expanded and history[sh] != alt:
            merges.append((alt, sh))
    merges.sort(key=lambda m: (len(m[0]), m[0]))
    # selection: ALL merged histories up to length xcheck_all_upto, then - up to the budget - one alternative history
    # per merged target state (shortest first), then the remaining ones shortest first
    chosen = [m for m in merges if len(m[0]) <= xcheck_all_upto]
    rest_m = [m for m in merges if len(m[0]) > xcheck_all_upto]
    first_per_target, others, seen_t = [], [], set()
    for m in rest_m:
        (others if m[1] in seen_t else first_per_target).append(m)
        seen_t.add(m[1])
    chosen += (first_per_target + others)[: max(0, xcheck_budget - len(chosen))]
    x_tasks = [{**base, "key": (tuple(alt), sh), "history": alt, "run": list(range(nops))} for alt, sh in chosen]
    x_transitions = 0
    for (alt, sh), out in run_tasks(xcheck, x_tasks):
        # prefix states as the table predicts
        cur = s0
        for k, i in enumerate(alt):
            want_s, want_o = table[(cur, i)]
            if out["trail"][k + 1] != want_s or out["obs_trail"][k] != want_o:
                raise HarnessError(
                    f"{world}: cross-check: sequential run of {list(alt)} disagrees with the fork-isolated search at "
                    f"step {k} (state {out['trail'][k + 1]} vs {want_s}, observation {out['obs_trail'][k]} vs {want_o})"
                )
            cur = want_s
        for i, oh, sh2 in out["results"]:
            if table[(sh, i)] != (sh2, oh):
                raise HarnessError(
                    f"{world}: cross-check: merged state {sh} (history {history[sh]}) and its alternative history "
                    f"{list(alt)} answer operation {ops[i]} differently or move to different states - the canonical "
                    "state merges states with different futures"
                )
        x_transitions += len(alt) + len(out["results"])

    # ---- deviations: minimise, then report
    # Deviating transitions are grouped by (operation, deviating observation).  The smallest history of every group
    # is 1-minimised first.  Another transition of the group whose history CONTAINS (as a subsequence) a minimal
    # history already established for the group is explained by it - that minimal history was executed and gave this
    # very observation - and is counted under its signature without a run of its own; the others are minimised
    # themselves (a different polluting call gives a different signature).
    groups = {}
    for hist, i, obs in sorted(deviating, key=lambda d: (len(d[0]), d[0], d[1])):
        groups.setdefault((i, _h(obs)), []).append((hist, i, obs))
    reps = [g[0] for g in groups.values()]
    rest = [d for g in groups.values() for d in g[1:]]
    budget = 400
    established = {}  # (op index, observation hash) -> [(minimal history as op indices, signature, observation)]
    minimised_runs = 0

    def is_subsequence(small, big):
        it = iter(big)
        return all(x in it for x in small)

    def run_minimise(batch):
        nonlocal minimised_runs
        m_tasks = [
            {"root": root, "world": world, "key": n, "history": [ops[j] for j in hist], "op": ops[i], "gold": gold_obs[i]}
            for n, (hist, i, obs) in enumerate(batch)
        ]
        minimised_runs += len(m_tasks)
        for n, mh, got, kept in run_tasks(minimise, m_tasks):
            hist, i, obs = batch[n]
            if mh is None:
                raise HarnessError(f"{world}: deviation of {ops[i]} after {hist} does not reproduce in isolation")
            if not mh:
                raise HarnessError(f"{world}: operation {ops[i]} deviates from its golden observation after an EMPTY history")
            sig = signature(mh, ops[i], gold_obs[i], got)
            if _h(got) == _h(obs):
                established.setdefault((i, _h(obs)), []).append(([hist[k] for k in kept], sig, got))
            found.append((sig, {"world": world, "history": mh, "op": ops[i]}, _detail(gold_obs[i], got)))

    run_minimise(reps[:budget])
    pending = []
    unclassified = 0
    for hist, i, obs in reps[budget:] + rest:
        known = [e for e in established.get((i, _h(obs)), []) if is_subsequence(e[0], hist)]
        if known:
            mh_idx, sig, got = min(known, key=lambda e: (len(e[0]), e[0]))  # independent of scheduling
            found.append((sig, {"world": world, "history": [ops[j] for j in mh_idx], "op": ops[i]}, _detail(gold_obs[i], got)))
        elif minimised_runs + len(pending) < budget:
            pending.append((hist, i, obs))
        elif established.get((i, _h(obs))):
            # beyond the budget: counted under the signature established for the same operation and observation
            mh_idx, sig, got = min(established[(i, _h(obs))], key=lambda e: (len(e[0]), e[0]))
            found.append((sig, {"world": world, "history": [ops[j] for j in mh_idx], "op": ops[i]}, _detail(gold_obs[i], got)))
            unclassified += 1
        else:
            unclassified += 1
    run_minimise(pending)
    classification_note = None
    if unclassified:
        classification_note = (
            f"{unclassified} deviating transitions beyond the minimisation budget of {budget} runs were counted under "
            "the signature of a minimised transition with the same operation and the same observation (if there is "
            "one), without separate minimisation"
        )

    return {
        "world": world,
        "alphabet": which,
        "max_depth": max_depth,
        "ops": nops,
        "states": len(history),
        "expanded": len(expanded),
        "transitions": transitions,
        "xcheck_histories": len(x_tasks),
        "xcheck_merges_total": len(merges),
        "xcheck_complete_upto_history_length": xcheck_all_upto if len(chosen) >= len([m for m in merges if len(m[0]) <= xcheck_all_upto]) else 0,
        "deviations": found,
        "xcheck_transitions": x_transitions,
        "per_depth": per_depth,
        "closed": closed,
        "depth_completed": depth_done,
        "caps": caps,
        "deviating_transitions": len(deviating),
        "classification_note": classification_note,
        "distinct_observations": len({oh for (_s, _i), (_sh, oh) in table.items()}),
        "golden_kinds": sorted({obs_kind(o) for o in gold_obs.values()}),
        "nonloop_states": len(history) - 1,
        "sample_histories": [[ops[j] for j in history[s]] for s in list(history)[1:3]],
    }


def explore(ctx):
    import multiprocessing
    import resource
    import shutil
    import tempfile
    from concurrent.futures import ThreadPoolExecutor

    from mc.checks.c09_canon import canonical_state
    from mc.core import HarnessError

    worlds = [w for w in WORLDS if w in _enabled_worlds()]
    root = tempfile.mkdtemp(prefix="jsa_c09_", dir=os.environ.get("VERIF_TMP", "/tmp"))
    populate(root)
    if ctx.quick:
        # (alphabet, max history length, state cap, cross-check budget, cross-check ALL merged histories up to length)
        # quick: every ordered pair of operations of the full alphabet; every triple of the core alphabet
        plan = [("full", 2, 10**6, 2, 0), ("core", 3, 10**6, 2, 0)]
    else:
        # thorough: every triple of the complete alphabet; the core alphabet to closure or to the state cap, with
        # every merged history of length <= 2 re-run without dedup (so every core sequence of length <= 3 is executed
        # either fork-isolated by the search or sequentially by the cross-check)
        plan = [("all", 3, 10**6, 40, 0), ("core", 12, int(os.environ.get("C09_STATE_CAP", "800")), 120, 2)]
    prewarm()
    pristine, _, pst = canonical_state({})
    cpu0 = resource.getrusage(resource.RUSAGE_CHILDREN)
    pool = multiprocessing.get_context("fork").Pool(max(1, ctx.jobs))
    runs = []
    for world in worlds:
        done = set()
        for which, max_depth, state_cap, xbudget, xall in plan:
            key = json.dumps(alphabet(world, which), sort_keys=True)
            if key in done and max_depth <= 3:
                continue
            if which in ("full", "all") and key == json.dumps(alphabet(world, "core"), sort_keys=True):
                continue  # this world has a single alphabet; the deeper "core" run covers it
            done.add(key)
            runs.append((world, which, max_depth, state_cap, xbudget, xall))
    reports = []
    try:
        # the searches are independent; run them concurrently on the shared pool so that the per-depth barriers of
        # one search do not idle the workers (threads only dispatch tasks and merge results)
        with ThreadPoolExecutor(max_workers=max(1, len(runs))) as tp:
            futs = [tp.submit(explore_world, ctx.seed, pool, root, *r) for r in runs]
            reports = [f.result() for f in futs]
        after, _, _ = canonical_state({})
        if after != pristine:
            raise HarnessError("the driver's own jsonargparse image changed during the run (it must stay pristine)")
    finally:
        pool.terminate()
        pool.join()
        shutil.rmtree(root, ignore_errors=True)
    cpu1 = resource.getrusage(resource.RUSAGE_CHILDREN)

    for r in reports:
        for sig, case, detail in r.pop("deviations"):
            ctx.deviation(sig, case, detail)
    states = sum(r["states"] for r in reports)
    transitions = sum(r["transitions"] + r["xcheck_transitions"] for r in reports)
    caps = [c for r in reports for c in r["caps"]]
    for r in reports:
        for h in r.pop("sample_histories"):
            ctx.sample({"world": r["world"], "history": h})
    ctx.cover(
        states=states,
        transitions=transitions,
        traces_validated_against_impl=transitions,
        evaluations=transitions,
        distinct_nontrivial=sum(r["nonloop_states"] for r in reports),
        rule="a case is one transition: (state given by its shortest history, operation) executed on the real parsers "
        "in a forked child and compared with the same operation on the fresh world; distinct_nontrivial = number of "
        "distinct canonical (parsers, process) states other than the initial ones",
        exhaustive=not caps,
        closed=all(r["closed"] for r in reports),
        closed_searches=[f"{r['world']}/{r['alphabet']}" for r in reports if r["closed"]],
        depth_completed=min(r["depth_completed"] for r in reports),
        searches=reports,
        bounds={
            "plan": [
                {"alphabet": a, "max_history_length": d, "state_cap": c, "xcheck_budget": x, "xcheck_all_merged_upto": xa}
                for a, d, c, x, xa in plan
            ],
            "worlds": worlds,
        },
        caps_hit=caps,
        pristine_image_lines=pst["lines"],
        children_cpu_s=round(cpu1.ru_utime + cpu1.ru_stime - cpu0.ru_utime - cpu0.ru_stime, 1),
        trusted_base=["mc/checks/c09_canon.py (reflective canonical state)", "fork isolation in mc/checks/c09.py"],
    )
    ctx.assume("behaviour depends only on the parser object graphs, jsonargparse module/class state, ContextVars, cwd "
               "and environ (all in the canonical state); third-party caches and the warning registry are irrelevant")
    ctx.require(all(r["states"] > 20 for r in reports), "every search reaches more than 20 distinct states")
    ctx.require(all(r["depth_completed"] >= 2 for r in reports), "every search completed history length >= 2")
    ctx.require(all(len(r["golden_kinds"]) >= 3 for r in reports), "golden observations cover >= 3 outcome kinds per search")
    ctx.require(all(r["xcheck_histories"] > 0 for r in reports), "the cross-check re-ran at least one merged history per search")
    ctx.require(
        all(r["distinct_observations"] >= r["ops"] // 2 for r in reports),
        "at least half as many distinct observations as operations per search",
    )


def _enabled_worlds():
    sel = os.environ.get("C09_WORLDS")
    return sel.split(",") if sel else WORLDS
