"""C01 helpers shared by the scalar and the typed layer: typed difference classification, stripping of
bookkeeping keys, the root-cause test for non-finite floats in JSON text, signature assembly.

Nothing here imports jsonargparse at module import time."""
from __future__ import annotations

import argparse
import enum
import json
import math

from mc.util import tcanon, teq

MARK = "\u200b"
YAML_FORMATS = ("yaml", "json", "json_indented")
JSON_FORMATS = ("json", "json_indented")
NUMERIC_KINDS = {"bool", "int", "float"}


# ---------------------------------------------------------------------------------------------------
# typed difference -> short class string (used in signatures; never contains raw values)


def kind(v):
    if v is None:
        return "None"
    t = type(v)
    if t is float:
        if v != v:
            return "float(nan)"
        if v in (math.inf, -math.inf):
            return "float(inf)"
        return "float"
    if isinstance(v, argparse.Namespace):
        return "Namespace"
    if isinstance(v, enum.Enum):
        return "enum"
    mod = getattr(t, "__module__", "")
    if mod.startswith("jsonargparse") and t.__name__.startswith("Path"):
        return "Path"
    return t.__name__


def _ckey(x):
    return json.dumps(tcanon(x), sort_keys=True, default=repr)


def _items(v):
    if isinstance(v, argparse.Namespace):
        return {(k[1:] if k[:1] == MARK else k): x for k, x in vars(v).items()}
    return v


def first_diff(a, b, path="$"):
    """None when a and b are typed-equal, else (path, class) of the first difference (depth first)."""
    if teq(a, b):
        return None
    ka, kb = kind(a), kind(b)
    if ka != kb:
        if ka in NUMERIC_KINDS and kb in NUMERIC_KINDS and a == b:
            return path, "numeric-type-changed-value-equal"  # 1 / 1.0 / True
        if a is None:
            return path, "None-entry-replaced"  # a null that was to be kept came back as something else
        return path, f"{ka}->{kb}"
    if isinstance(a, (argparse.Namespace, dict)):
        da, db = _items(a), _items(b)
        ca = {_ckey(k): k for k in da}
        cb = {_ckey(k): k for k in db}
        lost = [ca[c] for c in ca if c not in cb]
        added = [cb[c] for c in cb if c not in ca]
        if lost or added:
            if len(lost) == 1 and len(added) == 1:
                kl, kd = kind(lost[0]), kind(added[0])
                return path, (f"{ka}-key:{kl}->{kd}" if kl != kd else f"{ka}-key:{kl}:value")
            if lost and not added:
                return path, f"{ka}:key-lost"
            if added and not lost:
                return path, f"{ka}:key-added"
            return path, f"{ka}:keys-differ"
        for c, k in ca.items():
            r = first_diff(da[k], db[cb[c]], f"{path}.{k}")
            if r:
                if k == "class_path" and r[1] == "str:value":
                    return r[0], "class_path-differs"
                return r
        return path, f"{ka}:value"
    if isinstance(a, (list, tuple)):
        if len(a) != len(b):
            return path, f"{ka}:length"
        for i, (x, y) in enumerate(zip(a, b)):
            r = first_diff(x, y, f"{path}[{i}]")
            if r:
                return r
        return path, f"{ka}:value"
    if isinstance(a, (set, frozenset)):
        return path, f"{ka}:members"
    return path, f"{ka}:value"


def has_nonfinite(v, _d=0):
    if _d > 30:
        return False
    if type(v) is float:
        return v != v or v in (math.inf, -math.inf)
    if isinstance(v, argparse.Namespace):
        return any(has_nonfinite(x, _d + 1) for x in vars(v).values())
    if isinstance(v, dict):
        return any(has_nonfinite(x, _d + 1) for x in v.values()) or any(has_nonfinite(x, _d + 1) for x in v)
    if isinstance(v, (list, tuple, set, frozenset)):
        return any(has_nonfinite(x, _d + 1) for x in v)
    if type(v) is complex:
        return has_nonfinite(v.real) or has_nonfinite(v.imag)
    return False


def short(v, n=160):
    r = repr(v)
    return r if len(r) <= n else r[: n - 3] + "..."


# ---------------------------------------------------------------------------------------------------
# configuration clean-up for comparison


def strip_cfg(cfg, drop_keys=()):
    """strip_meta + removal of the config-file bookkeeping keys (dest of every `action="config"` option)."""
    import jsonargparse

    out = jsonargparse.strip_meta(cfg)
    for k in drop_keys:
        out.pop(k, None)
    return out


def neutralise_none(c0, c1):
    """For dumps that drop None entries (skip_none / skip_null / default save): entries that are None in the
    original are not judged, at any depth (nested dataclass values inside lists / dicts are dumped with the same
    flag).  Returns a copy of c1 in which every entry that is None in c0 is set to None."""
    import copy

    c1 = copy.deepcopy(c1)
    return _neutralise(c0, c1)


def _neutralise(a, b):
    if isinstance(a, argparse.Namespace) and isinstance(b, argparse.Namespace):
        for k, v in vars(a).items():
            if v is None:
                vars(b)[k] = None
            elif k in vars(b):
                vars(b)[k] = _neutralise(v, vars(b)[k])
    elif isinstance(a, dict) and isinstance(b, dict):
        for k, v in a.items():
            if v is None:
                b[k] = None
            elif k in b:
                b[k] = _neutralise(v, b[k])
    elif isinstance(a, list) and isinstance(b, list) and len(a) == len(b):
        for i, v in enumerate(a):
            b[i] = None if v is None else _neutralise(v, b[i])
    elif isinstance(a, tuple) and isinstance(b, tuple) and len(a) == len(b):
        return tuple(None if v is None else _neutralise(v, w) for v, w in zip(a, b))
    return b


def has_none(v, _d=0):
    if v is None:
        return True
    if _d > 30:
        return False
    if isinstance(v, argparse.Namespace):
        return any(has_none(x, _d + 1) for x in vars(v).values())
    if isinstance(v, dict):
        return any(has_none(x, _d + 1) for x in v.values())
    if isinstance(v, (list, tuple)):
        return any(has_none(x, _d + 1) for x in v)
    return False


# ---------------------------------------------------------------------------------------------------
# one round trip = text -> parse -> compare


def judge_reparse(parse_fn, text_or_path, c0, drop_keys, modulo_none=False):
    """Re-parse and compare with the original.  Returns (cls, detail, c1) with cls None when equal.

    cls is "reparse-rejected", "escape:<Type>", "timeout" or a first_diff class."""
    from mc.util import outcome

    o = outcome(parse_fn, text_or_path)
    if o["kind"] == "ArgumentError":
        if modulo_none and has_none(c0):
            return None, "not judged: None entries were dropped and the remaining text is rejected", None
        return "reparse-rejected", o["message"][:300], None
    if o["kind"] == "exit":
        return f"reparse-exit:{o['code']}", (o.get("stderr") or "")[-300:], None
    if o["kind"] == "escape":
        return f"reparse-escape:{o['type'].rsplit('.', 1)[-1]}", o["message"], None
    if o["kind"] == "timeout":
        return "reparse-timeout", "", None
    c1 = strip_cfg(o["value"], drop_keys)
    if modulo_none:
        c1 = neutralise_none(c0, c1)
    d = first_diff(c0, c1)
    if d is None:
        return None, "", c1
    if d[1] == "Decimal:value" and _decimal_via_float(_at(c0, d[0]), _at(c1, d[0])):
        return DECIMAL_VIA_FLOAT, f"at {d[0]}: original {short(_at(c0, d[0]))} re-parsed {short(_at(c1, d[0]))}", c1
    return d[1], f"at {d[0]}: original {short(_at(c0, d[0]))} re-parsed {short(_at(c1, d[0]))}", c1


def _at(cfg, path):
    """Best-effort lookup of a first_diff path for the detail text."""
    cur = cfg
    try:
        import re

        for m in re.finditer(r"\.([^.\[]+)|\[(\d+)\]", path[1:]):
            if m.group(1) is not None:
                cur = _items(cur)
                k = m.group(1)
                if k in cur:
                    cur = cur[k]
                else:
                    match = [x for x in cur if str(x) == k]
                    if not match:
                        return cur
                    cur = cur[match[0]]
            else:
                cur = cur[int(m.group(2))]
    except Exception:
        return cfg
    return cur


def _nonfinite_to_sentinel(v):
    if type(v) is float and (v != v or v in (math.inf, -math.inf)):
        return "@@C01:" + ("nan" if v != v else ("inf" if v > 0 else "-inf")) + "@@"
    if isinstance(v, list):
        return [_nonfinite_to_sentinel(x) for x in v]
    if isinstance(v, dict):
        return {k: _nonfinite_to_sentinel(x) for k, x in v.items()}
    return v


def json_nonfinite_root_cause(parse_string, text, c0, drop_keys, modulo_none=False):
    """True iff a JSON-format text fails to round trip ONLY because it spells non-finite floats as the bare
    tokens Infinity / -Infinity / NaN: the same JSON text with just these tokens respelled the YAML way
    (.inf / -.inf / .nan) re-parses to the original configuration."""
    if not has_nonfinite(c0):
        return False
    try:
        data = json.loads(text)
        alt = json.dumps(_nonfinite_to_sentinel(data), ensure_ascii=False)
    except Exception:
        return False
    for name, token in (("nan", ".nan"), ("inf", ".inf"), ("-inf", "-.inf")):
        alt = alt.replace(f'"@@C01:{name}@@"', token)
    if "@@C01:" in alt:  # a non-finite float used as a mapping key: not this root cause
        return False
    cls, _, _ = judge_reparse(parse_string, alt, c0, drop_keys, modulo_none)
    return cls is None


DECIMAL_VIA_FLOAT = "Decimal:agrees-only-through-float"
SIG_DECIMAL = "registered-type:Decimal:serialised-through-float"
SIG_RUYAML_RESPELLS = "dump-yaml_comments:ruyaml-round-trip-respells-scalars"
SIG_RUYAML_RAISES = "dump-yaml_comments:ruyaml-round-trip-raises"


def _decimal_via_float(a, b):
    try:
        return float(a) == float(b) or (float(a) != float(a) and float(b) != float(b))
    except Exception:
        return False


def _plain(v):
    """ruyaml round-trip objects -> plain Python data (exact base types)."""
    if isinstance(v, dict):
        return {_plain(k): _plain(x) for k, x in v.items()}
    if isinstance(v, (list, tuple)):
        return [_plain(x) for x in v]
    if isinstance(v, bool) or v is None:
        return v
    for base in (int, float, str):
        if isinstance(v, base):
            return base(v)
    return v


def ruyaml_root_cause(parse_string, plain_text, c0, drop_keys, modulo_none=False):
    """The yaml_comments dump re-emits the plain yaml dump through ruyaml's round-trip (YAML 1.2) loader/dumper.
    Returns the root-cause signature when that re-emission ALONE (no comment inserted by jsonargparse) is already
    unfaithful: ruyaml cannot load what the yaml dumper wrote, or reads a scalar of it as a different value than
    jsonargparse's own yaml loader does (YAML 1.2 vs 1.1 resolution), or its output no longer re-parses to the
    original configuration (quotes of quoted scalars are dropped).  Else None."""
    import io

    try:
        import ruyaml
    except ImportError:
        return None
    # The signature names WHICH scalars the two YAML readers disagree on, by resolved tag (jsonargparse's loader ->
    # ruyaml), e.g. "str->int": a different disagreement (a plain scalar that ruyaml takes for a timestamp because
    # the dumper stopped quoting it) is a different signature and is not covered by a known-finding entry.
    tags = ruyaml_tag_disagreements(plain_text)
    suffix = ":" + (",".join(tags) if tags else "same-tags")
    try:
        y = ruyaml.YAML()
        y.preserve_quotes = True  # as add_yaml_comments configures it
        data = y.load(plain_text)
        out = io.StringIO()
        y.dump(data, out)
        text2 = out.getvalue()
    except Exception:
        return SIG_RUYAML_RAISES + suffix  # ruyaml cannot even re-load what the yaml dumper wrote
    try:
        import jsonargparse

        if not teq(_plain(data), jsonargparse.get_loader("yaml")(plain_text)):
            return SIG_RUYAML_RESPELLS + suffix
    except Exception:
        pass
    cls2, _, _ = judge_reparse(parse_string, text2, c0, drop_keys, modulo_none)
    return SIG_RUYAML_RESPELLS + suffix if cls2 is not None else None


def ruyaml_tag_disagreements(text):
    """Sorted list of "a->b": a scalar of `text` that jsonargparse's yaml loader resolves to tag a (str, int, ...)
    is resolved to tag b by ruyaml's round-trip loader.  Both documents are composed only (no construction), so
    this also works when ruyaml cannot construct the value.  ["compose-fails"] / ["structure"] when the node trees
    cannot be compared."""
    import yaml

    try:
        import ruyaml

        try:
            from jsonargparse import _loaders_dumpers as ld

            loader = ld.get_yaml_default_loader()
        except Exception:
            loader = yaml.SafeLoader
        a = yaml.compose(text, Loader=loader)
        b = ruyaml.YAML().compose(text)
    except Exception:
        return ["compose-fails"]
    out = set()

    def short_tag(t):
        return str(t).rsplit(":", 1)[-1]

    def walk(x, y, depth=0):
        if x is None or y is None or depth > 40:
            if x is not y:
                out.add("structure")
            return
        kx, ky = type(x).__name__, type(y).__name__
        if kx != ky:
            out.add("structure")
            return
        if kx == "ScalarNode":
            if short_tag(x.tag) != short_tag(y.tag):
                out.add(f"{short_tag(x.tag)}->{short_tag(y.tag)}")
            return
        if len(x.value) != len(y.value):
            out.add("structure")
            return
        for i, j in zip(x.value, y.value):
            if kx == "MappingNode":
                walk(i[0], j[0], depth + 1)
                walk(i[1], j[1], depth + 1)
            else:
                walk(i, j, depth + 1)

    walk(a, b)
    return sorted(out)


SIG_JSON_KEY = "json-text:non-string-mapping-key:read-back-as-str"


def _json_key(k):
    try:
        return next(iter(json.loads(json.dumps({k: 0}))))
    except Exception:
        return k


def _coerce_keys(v):
    """What JSON does to the keys of plain mappings (values of Any / Dict arguments): every key becomes a string."""
    if isinstance(v, argparse.Namespace):
        out = type(v)()
        for k, x in vars(v).items():
            vars(out)[k] = _coerce_keys(x)
        return out
    if isinstance(v, dict):
        return {(k if isinstance(k, str) else _json_key(k)): _coerce_keys(x) for k, x in v.items()}
    if isinstance(v, list):
        return [_coerce_keys(x) for x in v]
    if isinstance(v, tuple):
        return tuple(_coerce_keys(x) for x in v)
    return v


def json_key_root_cause(c0, c1):
    """True iff the re-parsed configuration equals the original with just the non-string mapping keys turned into
    the strings JSON writes for them."""
    if c1 is None:
        return False
    try:
        return teq(_coerce_keys(c0), c1) and not teq(c0, c1)
    except Exception:
        return False


SIG_JSON_NONFINITE = "json-text:non-finite-float:not-read-back-by-yaml-mode-parser"


def merge_formats(results, formats):
    """results: {fmt: cls or None}.  If every format of a multi-format channel deviates with the same class the
    deviation is format independent: label 'all'.  Returns list of (fmt_label, cls, fmt_for_detail)."""
    devs = [(f, results[f]) for f in formats if results.get(f)]
    if len(formats) >= 2 and len(devs) == len(formats) and len({c for _, c in devs}) == 1:
        return [("all", devs[0][1], devs[0][0])]
    return [(f, c, f) for f, c in devs]


# ---------------------------------------------------------------------------------------------------
# characters that a YAML reader treats specially although they are legal in a Python / JSON string

SIG_JSON_RAWCHAR = "json-text:raw-character-that-the-yaml-reader-folds-or-rejects"
SIG_YAML_RAWBREAK = "yaml-text:unicode-line-break-written-raw-in-quoted-scalar"
UNICODE_BREAKS = "\x85\u2028\u2029"


def _json_escape_char(m):
    c = ord(m.group())
    if c < 0x10000:
        return "\\u%04x" % c
    c -= 0x10000
    return "\\u%04x\\u%04x" % (0xD800 + (c >> 10), 0xDC00 + (c & 0x3FF))


def json_rawchar_root_cause(parse_string, text, c0, drop_keys, modulo_none=False):
    """True iff a JSON-format text fails to round trip through the yaml-mode parser ONLY because it holds raw
    characters outside printable ASCII (json writes control characters below U+0020 escaped and everything else
    raw): the same text with just these characters written as \\uXXXX escapes re-parses to the original."""
    import re

    # characters outside the BMP stay raw: the yaml reader accepts them raw, and their JSON escape is a UTF-16
    # surrogate pair, which a YAML reader does not take for one character
    alt = re.sub("[^\n\x20-\x7e\U00010000-\U0010ffff]", _json_escape_char, text)
    if alt == text:
        return False
    cls, _, _ = judge_reparse(parse_string, alt, c0, drop_keys, modulo_none)
    return cls is None


def yaml_rawbreak_root_cause(parse_string, text, json_text, c0, drop_keys, modulo_none=False):
    """True iff a yaml-format text fails to round trip ONLY because a NEL / LS / PS character was written raw (the
    reader takes it for a line break and folds it): the text holds such a character, and the same data (taken from
    the json dump of the same configuration) emitted by the same dumper class with non-ASCII characters escaped
    re-parses to the original."""
    import yaml

    if not any(ch in text for ch in UNICODE_BREAKS):
        return False
    try:
        try:
            from jsonargparse import _loaders_dumpers as ld

            dumper = ld.get_yaml_default_dumper()
        except Exception:
            dumper = yaml.SafeDumper
        alt = yaml.dump(json.loads(json_text), Dumper=dumper, allow_unicode=False, default_flow_style=False, sort_keys=False)
    except Exception:
        return False
    cls, _, _ = judge_reparse(parse_string, alt, c0, drop_keys, modulo_none)
    return cls is None
