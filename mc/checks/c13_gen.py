"""C13 program generator: enumerates skeletons of **kwargs forwarding programs and renders them to real source.

A *program spec* is a JSON value

    {"root": "C"|"F"|"M"|"K",            kind of the root level (class __init__, function, method, classmethod)
     "levels": [[link, own, op], ...],   one entry per level, top (root) first
     "layout": [[...], ...] | "lin" | "pt" | "mixin" | {"bases": [[...], ...], "blank": j},
                                          inheritance layout of the first run of `super` links; the dict form is a
                                          layout over the run's classes PLUS one class without __init__ ("blank"),
                                          which sits at position j of the method resolution order
     "scheme": "diff" | "same"}          default/type scheme (all levels differ / all levels agree)

* link  - how the level forwards its **kwargs to the next level (documented AST-resolver patterns), or a terminal
          ("T0": no **kwargs in the signature, "T1": **kwargs accepted and not forwarded).
          "ncc" is the documented non-constant conditional (if <runtime test>: next(**kwargs) else: side(**kwargs)),
          "inst_method" the documented call of a method on a local instance.
* own   - the named parameters the level's signature owns: letters of the name pool, upper case = required
          ("Ab" = a required, b defaulted).
* op    - what else the level does with a name: "" | "P:a" kwargs.pop("a", d) | "G:a" kwargs.get("a", d) |
          "N:a" kwargs.pop("a") without default | "H:a" the name hard-coded at the forwarding call | "Hp" the first
          positional parameter of the callee hard-coded at the forwarding call |
          "h:a" the name hard-coded at the forwarding call AFTER the unpacking: callee(**kwargs, a=value) |
          inline forms - the kwargs.pop/get expression is itself an argument of the forwarding call:
          "I:a" callee(<other name>=kwargs.pop("a", d), **kwargs) | "J:a" the same with kwargs.get |
          "S:a" callee(a=kwargs.pop("a", d), **kwargs) | "Q:a" callee(kwargs.pop("a", d), **kwargs) (first positional) |
          taken and given again under the same name at the forwarding call (same scope only):
          "R:a" v = kwargs.pop("a", d); callee(a=v, **kwargs) | "T:a" v = kwargs.get("a", d); callee(a=v, **kwargs) |
          "U:a" callee(a=kwargs.get("a", d), **kwargs)  (after a get the name is still inside **kwargs: passing it
          gives the keyword twice, so the interpreter never accepts it).

Links "super_own" / "super_method_own" are the explicit own-class spelling of super(): super(ThisClass, self).m(**kwargs).

Sibling hierarchies (siblings()): for the first run of super-linked classes, every further root class `SibN` that can
be put over the run's non-root classes (<= 2 bases, decided by Python's MRO computation) and in whose method
resolution order some shared class is followed by a different class than in the run's own order.

Round 4 axes:
* own may carry the prefixes "*" (the level's signature is (*args, <own parameters, keyword-only>, **kwargs) and the
  forwarding call passes *args on: callee(*args, **kwargs) - the documented pass-through) and "/" / "//" (the level's
  signature starts with one / two positional-only parameters p, q with defaults: what *args can reach).
* "use_in": "base" | "mixin" - the method / property that unpacks the saved attribute of a deferred-use link
  (self._kw = kwargs ... fN(**self._kw)) is defined on a base class / a leading mixin of the class whose __init__
  saved it, not on that class itself.
* "entry": "heir" | "heir_file" - the program is entered through a subclass of the root's class that defines nothing
  itself (it inherits __init__ / meth / make); "heir_file": that subclass lives in a second source file which imports
  nothing but its base class (render_heir_module()).

Nothing here imports jsonargparse.
"""
from __future__ import annotations

import itertools

NAMES = ["a", "b"]
FOREIGN = "zz"
POSONLY = ["p", "q"]  # names of the positional-only parameters a level may own (prefix "/" or "//" of `own`)


def own_star(own):
    """The level takes *args and passes them on at its forwarding call."""
    return "*" in own


def own_posonly(own):
    """Number of positional-only parameters (p, q) at the start of the level's signature."""
    return own.count("/")


def own_names(own):
    return own.replace("*", "").replace("/", "")

# link -> kind of the next level
TARGET = {
    "super": "C",
    "super_own": "C",
    "super_skip": "C",
    "call_fn": "F",
    "call_cls": "C",
    "self_method": "M",
    "attr_method": "F",
    "attr_prop": "F",
    "dict_update": "F",
    "dict_literal": "F",
    "cc_if": "F",
    "cc_elifnot": "F",
    "cc_else": "F",
    "call_classmethod": "K",
    "super_method": "M",
    "super_method_own": "M",
    "cls_call": "C",
    "name_call": "C",
    "ncc": "F",
    "inst_method": "M",
}
LINKS_FROM = {
    "C": [
        "super",
        "super_own",
        "super_skip",
        "call_fn",
        "call_cls",
        "self_method",
        "attr_method",
        "attr_prop",
        "dict_update",
        "dict_literal",
        "cc_if",
        "cc_elifnot",
        "cc_else",
        "call_classmethod",
        "ncc",
        "inst_method",
    ],
    "F": ["call_fn", "call_cls", "cc_if", "cc_elifnot", "cc_else", "call_classmethod", "ncc", "inst_method"],
    "M": ["call_fn", "call_cls", "super_method", "super_method_own"],
    "K": ["cls_call", "name_call"],
}
TERMINALS = ["T0", "T1"]
DEFERRED = {"attr_method", "attr_prop", "dict_update", "dict_literal"}
DICT_LINKS = {"dict_update", "dict_literal"}
SUPER_LINKS = ("super", "super_own")  # super().__init__(**kwargs) and its explicit spelling super(ThisClass, self).__init__(**kwargs)
SUPER_METHOD_LINKS = ("super_method", "super_method_own")
ROOTS = ["C", "F", "K", "M"]


# ---------------------------------------------------------------------------------------------------
# the per-level op, decoded (every consumer goes through these accessors)


def other(name):
    return NAMES[1 - NAMES.index(name)]


def op_popget(op):
    """(form, name, inline) of the level's kwargs.pop/get, or None.  form: "P" pop with default, "G" get with default,
    "N" pop without default; inline: the expression is an argument of the forwarding call, not its own statement."""
    if len(op) == 3:
        if op[0] in "PGN":
            return op[0], op[2], False
        if op[0] in "ISQ":
            return "P", op[2], True
        if op[0] in "JU":
            return "G", op[2], True
        if op[0] == "R":
            return "P", op[2], False
        if op[0] == "T":
            return "G", op[2], False
    return None


def op_hard(op):
    """The name given as a hard-coded keyword at the forwarding call, or None."""
    if len(op) == 3:
        if op[0] in "HhSRTU":
            return op[2]
        if op[0] in "IJ":
            return other(op[2])
    return None


def op_hard_positional(op):
    """The first positional parameter of the callee is given at the forwarding call."""
    return op == "Hp" or op[:1] == "Q"


def op_gives(op):
    """The forwarding call gives something besides **kwargs."""
    return op_hard(op) is not None or op_hard_positional(op)


def op_inline(op):
    pg = op_popget(op)
    return bool(pg and pg[2])


def op_regiven(op):
    """The name taken by the level's kwargs.pop/get is given again, under the same name, at the forwarding call."""
    pg = op_popget(op)
    return bool(pg) and op_hard(op) == pg[1]


def op_same_scope(op):
    """The forwarding call uses something evaluated in the level's own scope (an inline pop/get, or the variable that
    holds the popped / got value): not combinable with the deferred-use links, whose call is in another method."""
    return op_inline(op) or op[:1] in ("R", "T")


# ---------------------------------------------------------------------------------------------------
# skeletons


def link_paths(root, depth):
    """All sequences of `depth` links starting at a level of kind `root` (the last one is a terminal)."""
    out = []

    def rec(kind, links):
        if len(links) == depth - 1:
            for t in TERMINALS:
                out.append(links + [t])
            return
        for link in LINKS_FROM[kind]:
            rec(TARGET[link], links + [link])

    rec(root, [])
    return out


def kinds_of(root, links):
    kinds = [root]
    for link in links[:-1]:
        kinds.append(TARGET[link])
    return kinds


def first_super_run(root, links):
    """(start, end) of the first maximal run of class levels joined by plain `super` links, or None."""
    kinds = kinds_of(root, links)
    i = 0
    while i < len(links):
        if kinds[i] == "C" and links[i] in SUPER_LINKS:
            j = i
            while j < len(links) and links[j] in SUPER_LINKS:
                j += 1
            return i, j  # levels i..j are the classes of the run
        i += 1
    return None


_layout_cache = {}


def mro_layouts(k, max_bases=2):
    """All assignments of bases (each class: <= max_bases later classes of the run, ordered) whose C3 linearisation
    is exactly c0..c(k-1).  Decided by Python's own MRO computation.  The linear chain comes first."""
    if (k, max_bases) in _layout_cache:
        return _layout_cache[(k, max_bases)]
    per_class = []
    for i in range(k):
        later = list(range(i + 1, k))
        opts = [()]
        for n in range(1, max_bases + 1):
            opts += list(itertools.permutations(later, n))
        per_class.append(opts)
    found = []
    for combo in itertools.product(*per_class):
        classes = [None] * k
        try:
            for i in reversed(range(k)):
                classes[i] = type(f"c{i}", tuple(classes[j] for j in combo[i]) or (object,), {})
        except TypeError:
            continue
        mro = [c for c in classes[0].__mro__ if c is not object]
        if mro == classes:
            found.append([list(b) for b in combo])
    linear = [[i + 1] if i + 1 < k else [] for i in range(k)]
    found.sort(key=lambda lay: (lay != linear, sum(len(b) for b in lay), lay))
    _layout_cache[(k, max_bases)] = found
    return found


def blank_layouts(k):
    """Every layout of k+1 classes (mro_layouts) with, in turn, each one of them being a class WITHOUT __init__: the k
    classes of the run keep their order, the blank class sits at position j of the method resolution order
    (j = 0: the root class itself defines no __init__; j = k: a base without __init__ at the end)."""
    return [{"bases": lay, "blank": j} for lay in mro_layouts(k + 1) for j in range(k + 1)]


def layouts_for(root, links, rich, aux=True, blank=False):
    """Layout variants of one link path.  "lin" always; for a run of >= 2 classes also a pass-through class without
    __init__ and a leading mixin without __init__; for a run of >= 3 classes every multiple-inheritance layout.
    blank=True (pure hierarchies only): instead, "lin" + every blank_layouts() member."""
    run = first_super_run(root, links)
    if run is None:
        return ["lin"]
    k = run[1] - run[0] + 1
    if blank:
        assert root == "C" and run[0] == 0
        return ["lin"] + blank_layouts(k)
    out = ["lin", "pt", "mixin"] if aux else ["lin"]
    if k >= 3:
        lays = mro_layouts(k)[1:]
        if not rich:
            lays = [lay for lay in lays if sum(len(b) for b in lay) <= k]  # drop layouts with several redundant edges
        out += lays
    return out


# ---------------------------------------------------------------------------------------------------
# per-level behaviour alphabets


def _own_combos(names):
    per = [["", n, n.upper()] for n in names]
    return ["".join(c) for c in itertools.product(*per)]


def behaviours(size):
    """List of (own, op).  Sizes: "full" > "mid" > "small" > "tiny"."""
    out = []
    if size == "full":
        ops = [""] + [f"{o}:{n}" for o in "PGNHhI" for n in NAMES] + ["J:b", "S:a", "Q:a", "Hp", "R:a", "T:a", "U:a"]
        for own in _own_combos(NAMES):
            for op in ops:
                pg = op_popget(op)
                if pg and pg[1] in own.lower():
                    continue  # popping a name the signature already binds is dead code
                if op[:1] in ("R", "T", "U") and own.isupper() and own:
                    continue  # taken-and-given-again forms: not also with a required own parameter (budget)
                out.append((own, op))
    elif size == "mid":
        out = [("", ""), ("a", ""), ("A", ""), ("", "P:a"), ("", "G:a"), ("", "N:a"), ("", "H:a")]
        out += [("a", "H:a"), ("A", "H:a"), ("", "Hp")]
        out += [("b", ""), ("B", ""), ("ab", ""), ("Ab", ""), ("b", "P:a"), ("b", "G:a"), ("b", "H:a"), ("a", "P:b")]
        # hard-coded after the unpacking; pop/get written inline as an argument of the forwarding call
        out += [("", "h:a"), ("", "I:b"), ("", "J:b"), ("", "S:a"), ("", "Q:a")]
        # kwargs.get of a name that is given again at the forwarding call (statement form; the inline form is in "small+")
        out += [("", "T:a")]
    elif size == "med":
        out = [("", ""), ("a", ""), ("A", ""), ("", "P:a"), ("", "G:a"), ("", "N:a"), ("", "H:a"), ("a", "H:a"), ("", "Hp"), ("b", "")]
    elif size == "small+":
        out = [("", ""), ("a", ""), ("A", ""), ("", "P:a"), ("", "G:a"), ("", "H:a"), ("", "h:a"), ("", "I:b"), ("", "Hp"), ("ab", "")]
        out += [("", "R:a"), ("", "U:a")]
    elif size == "small":
        out = [("", ""), ("a", ""), ("A", ""), ("", "P:a"), ("", "G:a"), ("", "H:a")]
    elif size == "small-get":
        # "small" without kwargs.get (round 4 trim of the quick depth-3 family: a kwargs.get level is the open known
        # finding F1 in most programs; it stays at depth 1-2, in the hierarchies and in the thorough depth 3)
        out = [("", ""), ("a", ""), ("A", ""), ("", "P:a"), ("", "H:a")]
    elif size == "tiny4":
        out = [("", ""), ("a", ""), ("", "P:a"), ("", "H:a")]
    elif size == "tiny":
        out = [("", ""), ("a", ""), ("", "P:a")]
    elif size == "args":
        # *args pass-through levels (own parameters are then keyword-only) and levels with positional-only parameters
        out = [("*", ""), ("*a", ""), ("*A", ""), ("*ab", ""), ("*", "P:a"), ("*a", "H:a"), ("*", "Hp")]
        out += [("", ""), ("a", ""), ("/", ""), ("/a", ""), ("//", ""), ("//a", "")]
    elif size == "args3":
        out = [("*", ""), ("*a", ""), ("*", "Hp"), ("", ""), ("/a", ""), ("//", "")]
    else:
        raise ValueError(size)
    return out


def level_choices(link, size):
    """Behaviours applicable to a level with the given outgoing link."""
    out = []
    for own, op in behaviours(size):
        if link == "T0" and op:
            continue  # no **kwargs: nothing to pop / forward
        if link == "T1" and op_gives(op):
            continue  # nothing is forwarded
        if op_hard_positional(op) and link in DICT_LINKS:
            continue
        if op_same_scope(op) and link in DEFERRED:
            continue  # the forwarding call of a deferred use is in another scope: no `kwargs` / local variable there
        if op[:1] == "h" and link == "dict_update":
            continue  # dict(k=v) + update(**kwargs): there is no position after the unpacking
        if own_star(own) and (link in TERMINALS or link in DEFERRED):
            continue  # *args are passed on at the forwarding call: needs one, in the level's own scope
        out.append((own, op))
    return out


def needs_same_scheme(levels):
    """The "same" scheme (all sites agree on type and default) only changes the resolver's grouping decision when a
    name that is popped / got somewhere has a second site (the two uses then agree instead of disagreeing)."""
    sites, popget = {}, set()
    for _, own, op in levels:
        pg = op_popget(op)
        for n in set(own.lower()) | ({pg[1]} if pg else set()):
            sites[n] = sites.get(n, 0) + 1
        if pg and pg[0] in "PG":
            popget.add(pg[1])
    return any(sites[n] > 1 for n in popget)


def programs(depths, sizes, rich_layouts=False, roots=ROOTS, link_filter=None, same_scheme_depths=(1, 2, 3, 4, 5), aux_layouts=True, blank=False, level_filter=None, variants=None):
    """Enumerate program specs, simplest first: by depth, then skeleton, then behaviours.

    depths: iterable of depths; sizes: {depth: alphabet size name}; level_filter: predicate on the levels;
    variants: list of dicts of further spec keys ("use_in", "entry"), every one combined with every program."""
    for depth in depths:
        size = sizes[depth]
        for root in roots:
            for links in link_paths(root, depth):
                if link_filter and not link_filter(root, links):
                    continue
                per_level = [level_choices(link, size) for link in links]
                lays = layouts_for(root, links, rich_layouts, aux_layouts, blank)
                for combo in itertools.product(*per_level):
                    levels = [[links[i], combo[i][0], combo[i][1]] for i in range(depth)]
                    if level_filter and not level_filter(levels):
                        continue
                    same = depth in same_scheme_depths and needs_same_scheme(levels)
                    for lay in lays:
                        for extra in variants or [{}]:
                            yield {"root": root, "levels": levels, "layout": lay, "scheme": "diff", **extra}
                            if same and lay == "lin":
                                yield {"root": root, "levels": levels, "layout": lay, "scheme": "same", **extra}


# ---------------------------------------------------------------------------------------------------
# rendering


def ptype(i, scheme):
    return "int" if scheme == "same" or i % 2 == 0 else "float"


def pdefault(i, name, scheme):
    idx = NAMES.index(name)
    return 1 + idx if scheme == "same" else 10 * (i + 1) + idx + 1


def posonly_default(i, k, scheme):
    return 5 + k if scheme == "same" else 10 * (i + 1) + 5 + k


def hard_value(i, name):
    return 900 + 10 * i + NAMES.index(name)


def sentinel(name):
    return 5000 + (NAMES + [FOREIGN]).index(name)


def positional_sentinel(k):
    """Value of the k-th positional argument the interpreter runs pass to the root."""
    return 5009 + k


def own_params(own):
    """[(name, required)] with required parameters first (Python's rule)."""
    ps = [(c.lower(), c.isupper()) for c in own_names(own)]
    return [p for p in ps if p[1]] + [p for p in ps if not p[1]]


class _Cls:
    def __init__(self, name):
        self.name, self.bases, self.members = name, [], []


def run_classes(spec):
    """(class names of the first run of super-linked classes in method-resolution order, their bases as index lists)
    - including the class without __init__ of a blank layout - or None (no run, or the "pt" / "mixin" layouts, which
    are two of the blank layouts)."""
    root, levels, layout = spec["root"], spec["levels"], spec.get("layout", "lin")
    links = [l[0] for l in levels]
    run = first_super_run(root, links)
    if run is None or layout in ("pt", "mixin"):
        return None
    names = [f"C{i}" for i in range(run[0], run[1] + 1)]  # a class level reached by a super link owns its own class
    if run[0] > 0 and links[run[0] - 1] in ("cls_call", "name_call"):
        names[0] = f"C{run[0] - 1}"  # cls(**kwargs) inside a classmethod: the class that owns the classmethod
    if isinstance(layout, dict):
        names.insert(layout["blank"], "Blank")
        bases = layout["bases"]
    elif isinstance(layout, list):
        bases = layout
    else:
        bases = [[i + 1] if i + 1 < len(names) else [] for i in range(len(names))]
    return names, [list(b) for b in bases]


_sibling_cache = {}


def sibling_bases(bases, max_bases=2):
    """Base lists (indexes >= 1 into the run, <= max_bases, ordered) of every further root class over the run's
    non-root classes whose method resolution order CONTINUES DIFFERENTLY after some shared class: a class j that is
    followed by j+1 in the run's own order is followed by another class (or by nothing) in the sibling's order.
    Decided by Python's own MRO computation."""
    key = (repr(bases), max_bases)
    if key in _sibling_cache:
        return _sibling_cache[key]
    k = len(bases)
    classes = [None] * k
    for i in reversed(range(k)):
        classes[i] = type(f"c{i}", tuple(classes[j] for j in bases[i]) or (object,), {})
    assert [c for c in classes[0].__mro__ if c is not object] == classes, bases
    out = []
    for n in range(1, max_bases + 1):
        for combo in itertools.permutations(range(1, k), n):
            try:
                sib = type("sib", tuple(classes[j] for j in combo), {})
            except TypeError:
                continue
            mro = [classes.index(c) for c in sib.__mro__[1:] if c is not object]
            nxt = [(mro[p], mro[p + 1] if p + 1 < len(mro) else None) for p in range(len(mro))]
            if any(b != (a + 1 if a + 1 < k else None) for a, b in nxt):
                out.append(list(combo))
    _sibling_cache[key] = out
    return out


def siblings(spec):
    """[(class name, [base class names])] of the sibling hierarchies of a program (empty without a run of >= 3)."""
    rc = run_classes(spec)
    if rc is None or len(rc[0]) < 3 or spec.get("entry"):
        return []
    names, bases = rc
    return [(f"Sib{n}", [names[j] for j in combo]) for n, combo in enumerate(sibling_bases(bases))]


def render(spec, with_siblings=False):
    """Return the module source of the program.  The module exposes
    _invoke(**kw) (calls the root), ROOT = (function_or_class, method_name_or_None), LOG, PENDING, LEVELS; with
    with_siblings also RUN_TOP (the top class of the first super run) and SIBLINGS (the sibling root classes)."""
    root, levels, layout, scheme = spec["root"], spec["levels"], spec.get("layout", "lin"), spec.get("scheme", "diff")
    links = [l[0] for l in levels]
    kinds = kinds_of(root, links)
    n = len(levels)
    classes = {}
    funcs = []
    sides = []

    def cls(name):
        if name not in classes:
            classes[name] = _Cls(name)
        return classes[name]

    # ---- which class owns each level
    owner = [None] * n
    for i in range(n):
        k = kinds[i]
        prev = links[i - 1] if i else None
        if k == "C":
            owner[i] = owner[i - 1] if prev in ("cls_call", "name_call") else f"C{i}"
        elif k == "M":
            owner[i] = owner[i - 1] if prev == "self_method" else f"C{i}"
        elif k == "K":
            owner[i] = f"C{i}"
        if owner[i]:
            cls(owner[i])

    # ---- inheritance
    run = first_super_run(root, links)
    for i in range(n):
        link = links[i]
        if kinds[i] == "C" and link in SUPER_LINKS:
            if run and run[0] <= i < run[1] and isinstance(layout, (list, dict)):
                continue  # handled by the explicit layout below
            if run and i == run[0] and layout == "pt":
                p = cls(f"Pass{i}")
                p.bases = [owner[i + 1]]
                p.members.append("    passthrough_marker = 1\n")
                cls(owner[i]).bases = [p.name]
            elif run and i == run[0] and layout == "mixin":
                m = cls(f"Mixin{i}")
                m.members.append("    mixin_marker = 1\n")
                cls(owner[i]).bases = [m.name, owner[i + 1]]
            else:
                cls(owner[i]).bases = [owner[i + 1]]
        elif kinds[i] == "C" and link == "super_skip":
            mid = cls(f"Mid{i}")
            mid.bases = [owner[i + 1]]
            mid.members.append(
                f"    def __init__(self, a: int = {810 + i}, b: int = {820 + i}, **kwargs):\n"
                f"        _log('mid{i}', a=a, b=b)\n"
                f"        super().__init__(**kwargs)\n"
            )
            cls(owner[i]).bases = [mid.name]
        elif kinds[i] == "M" and link in SUPER_METHOD_LINKS:
            cls(owner[i]).bases = [owner[i + 1]]
    if run and isinstance(layout, list):
        for off, bases in enumerate(layout):
            c = cls(owner[run[0] + off])
            c.bases = [owner[run[0] + b] for b in bases] + c.bases
    root_class = "C0"
    if run and isinstance(layout, dict):
        # the run's classes plus one class without __init__ at position `blank` of the method resolution order
        assert root == "C" and run[0] == 0, "blank layouts are generated for pure hierarchies only"
        order = [owner[j] for j in range(run[0], run[1] + 1)]
        order.insert(layout["blank"], "Blank")
        cls("Blank").members.append("    blank_marker = 1\n")
        for pos, bases in enumerate(layout["bases"]):
            c = cls(order[pos])
            c.bases = [order[b] for b in bases] + c.bases
        root_class = order[0]

    # ---- levels
    for i in range(n):
        link, own, op = levels[i]
        kind = kinds[i]
        terminal = link in TERMINALS
        params = own_params(own)
        sig = []
        posonly = POSONLY[: own_posonly(own)]
        for k, name in enumerate(posonly):
            sig.append(f"{name}: {ptype(i, scheme)} = {posonly_default(i, k, scheme)}")
        if posonly:
            sig.append("/")
        star = "*args, " if own_star(own) else ""
        if star:
            sig.append("*args")  # the own parameters that follow are keyword-only
        for name, req in params:
            sig.append(f"{name}: {ptype(i, scheme)}" + ("" if req else f" = {pdefault(i, name, scheme)}"))
        if link != "T0":
            sig.append("**kwargs")
        first = {"C": "self", "M": "self", "K": "cls", "F": None}[kind]
        sig_txt = ", ".join(([first] if first else []) + sig)
        body = []
        logged = [f"{name}={name}" for name in posonly] + [f"{name}={name}" for name, _ in params]
        pg = op_popget(op)
        inline_expr = None
        if pg and not pg[2]:
            form, name, _ = pg
            if form == "N":
                body.append(f'v_{name} = kwargs.pop("{name}")')
            else:
                fn = "pop" if form == "P" else "get"
                body.append(f'v_{name} = kwargs.{fn}("{name}", {pdefault(i, name, scheme)})')
            logged.append(f"{name}=v_{name}")
        elif pg:
            form, name, _ = pg
            fn = "pop" if form == "P" else "get"
            inline_expr = f'kwargs.{fn}("{name}", {pdefault(i, name, scheme)})'
        body.append(f"_log('L{i}'" + "".join(", " + x for x in logged) + ")")
        # arguments given at the forwarding call besides **kwargs: `hk` is written before the unpacking, `ha` after it
        hk = ha = ""
        hard = op_hard(op)
        if hard is not None:
            if inline_expr:
                val = inline_expr  # the value is the pop/get expression itself (evaluated before **kwargs is unpacked)
            elif op[0] in "RT":
                val = f"v_{hard}"  # the popped / got value itself is given again
            else:
                # `a=a` (the level's own parameter passed on by name) where the call is in the same scope
                val = hard if hard in own.lower() and link not in DEFERRED else str(hard_value(i, hard))
            if op[0] == "h":
                ha = f", {hard}={val}"
            else:
                hk = f"{hard}={val}, "
        elif op_hard_positional(op):
            hk = (inline_expr or str(hard_value(i, "a"))) + ", "
        if star:
            # callee(<positional given>, *args, <keywords given>, **kwargs)
            if op_hard_positional(op):
                hk = hk + star
            else:
                hk = star + hk
        extra_members = []
        if not terminal:
            nxt = i + 1
            callee = {
                "super": "super().__init__",
                "super_own": f"super({owner[i]}, self).__init__",
                "super_method_own": f"super({owner[i]}, self).meth",
                "super_skip": f"super(Mid{i}, self).__init__",
                "call_fn": f"f{nxt}",
                "call_cls": f"C{nxt}",
                "self_method": "self.meth",
                "call_classmethod": f"C{nxt}.make",
                "super_method": "super().meth",
                "cls_call": "cls",
                "name_call": owner[i],
                "inst_method": "inst.meth",
            }.get(link, f"f{nxt}")
            ret = "return " if kind in ("F", "M", "K") else ""
            if link in ("attr_method", "attr_prop", "dict_update", "dict_literal"):
                if link == "dict_update":
                    body.append(f"self._kw{i} = dict({hk.rstrip(', ')})")
                    body.append(f"self._kw{i}.update(**kwargs)")
                    use = f"{callee}(**self._kw{i})"
                elif link == "dict_literal":
                    body.append(f"self._kw{i} = dict({hk}**kwargs{ha})")
                    use = f"{callee}(**self._kw{i})"
                else:
                    body.append(f"self._kw{i} = kwargs")
                    use = f"{callee}({hk}**self._kw{i}{ha})"
                if link == "attr_prop":
                    body.append(f"_defer(self, 'use{i}')")
                    extra_members.append(f"    @property\n    def use{i}(self):\n        return {use}\n")
                else:
                    body.append(f"_defer(self, 'use{i}')")
                    extra_members.append(f"    def use{i}(self):\n        return {use}\n")
            elif link == "inst_method":
                body.append(f"inst = C{nxt}()")
                body.append(f"{ret}{callee}({hk}**kwargs{ha})")
            elif link == "ncc":
                body.append(f"if _sel({i}) == 1:")
                body.append(f"    {ret}{callee}({hk}**kwargs{ha})")
                body.append("else:")
                body.append(f"    {ret}side{i}(**kwargs)")
                funcs.append(
                    f"def side{i}(a: {ptype(nxt, scheme)} = {pdefault(nxt, 'a', scheme)}, b: int = {660 + i}):\n"
                    f"    _log('side{i}', a=a, b=b)\n"
                )
                sides.append(i)
            elif link in ("cc_if", "cc_elifnot", "cc_else"):
                live = f"{ret}{callee}({hk}**kwargs{ha})"
                d1 = f"{ret}decoy{i}x(**kwargs)"
                d2 = f"{ret}decoy{i}y(**kwargs)"
                if link == "cc_if":
                    br = [("if FLAG_T:", live), ("elif not FLAG_F:", d1), ("else:", d2)]
                elif link == "cc_elifnot":
                    br = [("if FLAG_F:", d1), ("elif not FLAG_F2:", live), ("else:", d2)]
                else:
                    br = [("if FLAG_F:", d1), ("elif not FLAG_T:", d2), ("else:", live)]
                for head, stmt in br:
                    body.append(head)
                    body.append("    " + stmt)
                for suffix, base in (("x", 710), ("y", 720)):
                    funcs.append(
                        f"def decoy{i}{suffix}(a: int = {base + i}, b: int = {base + 5 + i}):\n"
                        f"    _log('decoy{i}{suffix}', a=a, b=b)\n"
                    )
            else:
                body.append(f"{ret}{callee}({hk}**kwargs{ha})")
        body_txt = "".join("        " + b + "\n" for b in body) if kind != "F" else "".join("    " + b + "\n" for b in body)
        if kind == "F":
            funcs.append(f"def f{i}({sig_txt}):\n{body_txt}")
        else:
            mname = {"C": "__init__", "M": "meth", "K": "make"}[kind]
            deco = "    @classmethod\n" if kind == "K" else ""
            c = cls(owner[i])
            c.members.append(f"{deco}    def {mname}({sig_txt}):\n{body_txt}")
            use_in = spec.get("use_in", "own")
            if extra_members and use_in != "own":
                # the member that unpacks the saved attribute lives on another class of the method resolution order
                u = cls(f"Use{i}")
                u.members.extend(extra_members)
                c.bases = c.bases + [u.name] if use_in == "base" else [u.name] + c.bases
            else:
                c.members.extend(extra_members)

    # ---- emit
    out = [
        "# generated by mc/checks/c13_gen.py\n",
        "LOG = []\nPENDING = []\nSEL = {}\nFLAG_T = True\nFLAG_F = False\nFLAG_F2 = False\n\n\n",
        "def _sel(i):\n    return SEL.get(i, 1)\n\n\n",
        "def _log(level, **vals):\n    LOG.append((level, vals))\n\n\n",
        "def _defer(obj, attr):\n    PENDING.append((obj, attr))\n\n\n",
    ]
    for f in funcs:
        out.append(f + "\n\n")
    emitted = set()

    def emit(name):
        if name in emitted:
            return
        emitted.add(name)
        c = classes[name]
        for b in c.bases:
            emit(b)
        bases = f"({', '.join(c.bases)})" if c.bases else ""
        members = "\n".join(c.members) if c.members else "    pass\n"
        out.append(f"class {name}{bases}:\n{members}\n\n")

    for name in list(classes):
        emit(name)
    if root == "F":
        out.append("def _invoke(*pos, **kw):\n    return f0(*pos, **kw)\n\n\nROOT = (f0, None)\n")
    else:
        ename = entry_class(spec, root_class)
        if spec.get("entry") == "heir":
            out.append(f"class Heir({ename}):\n    heir_marker = 1\n\n\n")
            ename = "Heir"
        # entry "heir_file": ENTRY and ROOT are rebound by the loader to the subclass defined in the second file
        out.append(f"ENTRY = {ename}\n\n\n")
        if root == "C":
            out.append("def _invoke(*pos, **kw):\n    return ENTRY(*pos, **kw)\n\n\nROOT = (ENTRY, None)\n")
        elif root == "K":
            out.append("def _invoke(*pos, **kw):\n    return ENTRY.make(*pos, **kw)\n\n\nROOT = (ENTRY, 'make')\n")
        else:
            out.append("def _invoke(*pos, **kw):\n    return ENTRY().meth(*pos, **kw)\n\n\nROOT = (ENTRY, 'meth')\n")
    lv = []
    for i in range(n):
        kind = kinds[i]
        if kind == "F":
            lv.append(f"'L{i}': f{i}")
        else:
            mname = {"C": "__init__", "M": "meth", "K": "make"}[kind]
            lv.append(f"'L{i}': {owner[i]}.__dict__['{mname}']")
    for i in sides:
        lv.append(f"'side{i}': side{i}")
    out.append("LEVELS = {" + ", ".join(lv) + "}\n")
    if with_siblings:
        sibs = siblings(spec)
        for name, bases in sibs:
            out.append(
                f"\n\nclass {name}({', '.join(bases)}):\n    def __init__(self, **kwargs):\n"
                f"        _log('{name.lower()}')\n        super().__init__(**kwargs)\n"
            )
        if sibs:
            out.append(f"\n\nRUN_TOP = {run_classes(spec)[0][0]}\nSIBLINGS = [{', '.join(n for n, _ in sibs)}]\n")
    return "".join(out)


def entry_class(spec, root_class="C0"):
    """Name of the class that owns the root level (the base of the inheriting entry class)."""
    return root_class if spec["root"] == "C" else "C0"


def render_heir_module(spec, main_module):
    """Source of the second file of an entry "heir_file" program: a subclass of the root's class that defines nothing
    itself and imports nothing else from the program's module (none of the callees are globals here)."""
    base = entry_class(spec)
    return f"# generated by mc/checks/c13_gen.py\nfrom {main_module} import {base}\n\n\nclass Heir({base}):\n    heir_marker = 1\n"


def selector_levels(spec):
    """Indexes of the levels whose link is a non-constant conditional (two runtime branches)."""
    return [i for i, l in enumerate(spec["levels"]) if l[0] == "ncc"]


def describe(spec):
    """Short shape of a program for signatures/samples: root kind and the link pattern sequence."""
    return spec["root"] + ":" + ">".join(l[0] for l in spec["levels"]) + "".join(f"|{k}={spec[k]}" for k in ("use_in", "entry") if spec.get(k))
