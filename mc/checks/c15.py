"""C15 - a linked argument always equals the function of its sources.

Bounded exhaustive product, executed on the real parser:

  link shapes (plain target with / without compute_fn, two sources, group-valued source -> dict / int target,
  target inside a class group, x.init_args.k of a class-typed argument incl. class changes, every item of a
  List[class], the documentation's Trainer/Logger group, plain / class-group targets whose option has several
  spellings - aliases and their abbreviations, the --t+ of list types, the --no_t of yes/no flags - with the own
  option written in every spelling, sources whose type admits None - an Optional[int] argument, the whole of an
  Optional[class] argument, an Optional parameter below a class argument - with every channel writing its value or
  null, links with several sources of which some are group-valued - kind, position and annotation of every source;
  each bare and inside one / two levels of subcommands)
  x which channels (defaults, environment, --config, argv, parse_object, parse_string, parse_env) supply every
    source leaf - all subsets per leaf, a different value per channel
  x how the class / the list of classes is configured (channel, class, class change)
  x how the target itself is additionally supplied (own option, config key, environment, object key nested and
    dotted, enclosing group JSON, enclosing class spec)

  x the history of the parser object (fresh; links declared only after the parser has parsed once; links declared
    on both sides of a parse; the same call made twice)
plus the argument that holds the target given as a path to its own config file (argv / environment / inside a config
file), serialised with the multi-file save(),

and, on one fixed parser layout, every ordered set of up to two (thorough: three) links out of a catalogue of 22
(chains, double targets, links onto their own source, links whose keys are nested in one another), plus every
ordered set of three (thorough: four) distinct links whose order of application is constrained by at least two
(three) dependencies through nested keys - dependency chains and fans in every declaration order; every ordered
pair also on ONE parser that parses after every single declaration and then takes all inputs in a row.

Oracle after every parse: acceptance as the statement fixes it (option of a plain target rejected; target never
required); cfg[target] == f(final source values) for every link, every list item; dump() (yaml, json; also
--print_config) contains no target key; parse_string(dump) on a fresh parser in a clean environment gives the same
configuration including the targets; link sets with a chain / double target are refused by link_arguments with
ValueError, unrelated ones are accepted.
"""
from __future__ import annotations

import itertools

META = {
    "id": "C15",
    "level": "exploration",
    "engine": "bounded exhaustive product enumeration on the real parser (mc/checks/c15.py, c15_shapes.py)",
    "technique": "exhaustive product of link shapes x per-source channel subsets x class configurations x ways of "
    "supplying the target x parser histories (fresh / links declared after a parse / repeated call), plus all ordered link sets of size <= 2/3 from a catalogue and all order-constrained sets of "
    "size 3/4; reference model f(final sources), "
    "structural dump inspection, differential re-parse",
    "level_text": "Every member of the stated finite product is executed on the unmodified library: each case builds "
    "fresh parsers, feeds every source through the chosen channels with channel-identifying values, and the target "
    "of every link (every list item) is compared with the fixture compute function applied to the final source "
    "values read from the same configuration; the dump is inspected structurally with an independent YAML reader "
    "and re-parsed by a fresh parser in a clean environment. Exhaustive within the bounds, no sampling; VERIF_SEED "
    "only permutes execution order.",
    "level_note": "Trusted: the fixture compute functions (injective integer arithmetic), PyYAML's safe_load as the "
    "independent reader of dumps, the rendering of a case into argv / environment / config text (guarded: every "
    "channel must be observed to win for every shape family). Bounds: one to two source leaves per link, int / "
    "Dict[str,int] / class-spec / None values, subcommand depth <= 2, link sets of size <= 2 (thorough: 3) and "
    "order-constrained ones of size 3 (thorough: 4), histories of one earlier parse per declaration, apply_on='parse' "
    "only (instantiation links are C16).",
    "design_ref": "DESIGN.md §5 C15",
}


def subsets(chs):
    out = []
    for r in range(len(chs) + 1):
        out += [list(c) for c in itertools.combinations(chs, r)]
    return out


ENTRY_CH = {"args": ["env", "cfg", "argv"], "object": ["env", "obj"], "string": ["env", "str"], "env": ["env"],
            "print": ["cfg", "argv"],
            # shape inside a subcommand that is selected through the environment (APP_SUBCOMMAND), not by the input
            "args-envsel": ["env", "cfg"], "object-envsel": ["env", "obj"]}
DOC_CH = {"object": "obj", "string": "str", "object-envsel": "obj"}
HAS_K = {"Base": True, "Derived": True, "DefK": True, "NoK": False}

LEAVES = {"mix": None, "plain": ["s"], "two": ["s1", "s2"], "grp": ["data.n", "data.m"], "cgroup": ["data.n", "data.m"],
          "init": ["s"], "list": ["s"], "holder": ["h.save"], "spell": ["s"], "null": ["s"]}
# targets whose option has several spellings (aliases + abbreviations, --t+ of list types, --no_t of yes/no flags)
# links with several sources of which some are group-valued: kind per source (S int argument, Gd class group whose
# compute_fn parameter is annotated as a mapping, Gn class group with an unannotated parameter), every position
MIX_QUICK = {None: ["S-Gd", "Gd-S", "Gd-Gn", "Gn-Gd"], "sub": ["S-Gd", "Gn-Gd"]}
MIX_ALL = ["S-Gd", "Gd-S", "S-Gn", "Gn-S", "Gd-Gd", "Gd-Gn", "Gn-Gd", "S-S-Gd", "S-Gn-Gd", "Gd-S-Gd"]


def mix_leaves(sk):
    out, ns, ng = [], 0, 0
    for kd in sk.split("-"):
        if kd == "S":
            ns += 1
            out.append("s" if ns == 1 else f"s{ns}")
        else:
            ng += 1
            out.append(("data" if ng == 1 else f"data{ng}") + ".n")
    return out


SPELL_KINDS = [("alias", None), ("list", "flist"), ("optlist", None), ("yesno", "fnot"), ("cglist", None)]


def variants(quick):
    """(shape, options) - the link shapes."""
    out = []
    wraps = [None, "sub"] if quick else [None, "sub", "subsub"]
    for wrap in wraps:
        for fn in (None, "f1"):
            for t in ("req", "def", "pos"):
                out.append(("plain", {"fn": fn, "t": t, "wrap": wrap}))
        out.append(("two", {"wrap": wrap}))
        for fn in (None, "f1", "f2"):
            out.append(("cgroup", {"fn": fn, "wrap": wrap}))
        for fn, decl in ((("f1", "arg"), (None, "sub"), ("f1", "lazy")) if quick else
                         itertools.product((None, "f1"), ("arg", "sub", "lazy"))):
            out.append(("init", {"fn": fn, "decl": decl, "wrap": wrap}))
        for fn, decl in ((("f1", "list"), (None, "opt")) if quick else itertools.product((None, "f1"), ("list", "opt"))):
            out.append(("list", {"fn": fn, "decl": decl, "wrap": wrap}))
        out.append(("holder", {"wrap": wrap}))
        for t, fn in (("dict", None), ("int", "fgroup"), ("int", "fgroup_dict"), ("cgd", None)):
            if wrap is None or not quick or t == "dict":
                out.append(("grp", {"t": t, "fn": fn, "wrap": wrap}))
        for tk, fn in SPELL_KINDS:
            out.append(("spell", {"tk": tk, "fn": fn, "wrap": wrap}))
        for sk in (MIX_QUICK.get(wrap, []) if quick else MIX_ALL if wrap != "subsub" else ["S-Gd"]):
            out.append(("mix", {"sk": sk, "wrap": wrap}))
        for nk, fn, dn in null_kinds(quick, wrap) if wrap != "subsub" else ():
            out.append(("null", {"nk": nk, "fn": fn, "dn": dn, "wrap": wrap}))
    out.append(("plain", {"fn": "f1", "t": "req", "wrap": "subsub"})) if quick else None
    out.append(("plain", {"fn": None, "t": "req", "wrap": None, "sreq": True}))
    out.append(("plain", {"fn": "fbad", "t": "req", "wrap": None}))
    out.append(("plain", {"fn": "fbad", "t": "def", "wrap": "sub"}))
    for _, o in out:
        for k in [k for k, v in o.items() if v is None or v is False]:
            del o[k]
    return out


def null_kinds(quick, wrap=None):
    """Family `null` (sources whose final value may be None): (kind, compute function, default is None)."""
    if wrap:
        # inside a subcommand every kind once (the other default / function is left to the bare shape), both tiers
        return [("plain", None, False), ("cls", "fspec", True), ("clsinit", None, True), ("c2i", "fopt", False)]
    if quick:
        # every kind with a None and with a non-None default; the compute function alternates
        return [("plain", None, True), ("plain", "fopt", False), ("cls", "fspec", True), ("cls", "fspec", False),
                ("clsinit", "fopt", True), ("clsinit", None, False), ("c2i", None, True), ("c2i", None, False)]
    out = [(nk, fn, dn) for nk in ("plain", "clsinit") for fn in (None, "fopt") for dn in (True, False)]
    out += [("cls", "fspec", dn) for dn in (True, False)]
    out += [("c2i", fn, dn) for fn in (None, "fopt") for dn in (True, False)]
    return out


def null_assignments(entry, quick):
    """Family `null`: per channel of the entry point absent / its value / null (token "<channel>:null")."""
    chs = ENTRY_CH[entry]
    if entry == "print":
        return [[], ["argv:null"], ["cfg:null"], ["cfg", "argv:null"], ["cfg:null", "argv"]]
    if quick and len(chs) == 3:
        # 9 of the 27: nothing, null through each single channel, null over the value of the next lower channel,
        # a value over the null of a lower channel, all three values
        return [[], ["env:null"], ["cfg:null"], ["argv:null"], ["env", "cfg:null"], ["cfg", "argv:null"],
                ["env:null", "argv"], ["cfg:null", "argv"], ["env", "cfg", "argv"]]
    if quick and len(chs) == 2:
        # 6 of the 9
        a, b = chs
        return [[], [a + ":null"], [b + ":null"], [a, b + ":null"], [a + ":null", b], [a, b]]
    out = []
    for combo in itertools.product(("", "v", "n"), repeat=len(chs)):
        out.append([ch + (":null" if c == "n" else "") for ch, c in zip(chs, combo) if c])
    return out


def plain_targets(shape, o, entry):
    """Ways of additionally supplying a plain / group target, per entry point."""
    group = shape == "cgroup" or (shape == "grp" and o.get("t") == "cgd") or o.get("tk") == "cglist"
    pos = o.get("t") == "pos"
    if entry == "args":
        out = ["none", "option", "cfg"]
        if not pos:
            out += ["option_first", "env"]
        if group:
            out += ["group", "group_env"]
        return out
    if entry == "args-envsel":
        return ["none", "cfg"] + ([] if pos else ["env"])
    if entry == "object-envsel":
        return ["none", "obj"]
    if entry == "object":
        return ["none", "obj", "obj_dotted"] + ([] if pos else ["env"])
    if entry == "string":
        return ["none", "str"]
    if entry == "env":
        return ["none"] if pos else ["none", "env"]
    return ["none"]


def one_steps(entry, lazy):
    if entry == "args":
        steps = [
            [], [["argv", "Base"]], [["argv", "Derived"]], [["argv", "DefK"]], [["argv", "NoK"]],
            [["argv", "Base"], ["argv", "Derived"]], [["argv", "DefK"], ["argv", "NoK"]], [["argv", "NoK"], ["argv", "DefK"]],
            [["cfg", "Base"]], [["cfg", "Base"], ["argv", "Derived"]], [["env", "Base"]], [["env", "Base"], ["argv", "NoK"]],
            [["cfg", "DefK"], ["argv", "Base"]], [["env", "Derived"], ["cfg", "Base"]],
        ]
    elif entry in DOC_CH:
        ch = DOC_CH[entry]
        steps = [[], [[ch, "Base"]], [[ch, "NoK"]], [[ch, "DefK"]], [["env", "Base"], [ch, "Derived"]]]
    elif entry == "env":
        steps = [[], [["env", "Base"]], [["env", "NoK"]]]
    elif entry == "args-envsel":
        steps = [[], [["env", "Base"]], [["cfg", "Derived"]], [["env", "DefK"], ["cfg", "NoK"]]]
    else:  # print
        steps = [[], [["argv", "Base"]], [["cfg", "Derived"]]]
    return steps


def one_targets(steps, entry, lazy):
    """Ways of supplying x.init_args.k itself, given how the class is configured."""
    out = ["none"]
    if entry == "print":
        return out
    last = steps[-1][1] if steps else ("DefK" if lazy else None)
    argv = [c for ch, c in steps if ch == "argv"]
    if entry == "args":
        if last and HAS_K[last] and (argv and argv[-1] == last or (not steps and lazy)):
            out += ["option", "option_init"]
        if len(argv) >= 2 and HAS_K[argv[0]]:
            out.append("option_early")
        if argv and HAS_K[argv[-1]]:
            out.append("spec")
        if any(ch == "cfg" and HAS_K[c] for ch, c in steps):
            out.append("cfg")
    if entry == "args-envsel" and any(ch == "cfg" and HAS_K[c] for ch, c in steps):
        out.append("cfg")
    if any(ch == "env" and HAS_K[c] for ch, c in steps):
        out.append("spec_env")
    if entry in DOC_CH and any(ch == DOC_CH[entry] and HAS_K[c] for ch, c in steps):
        out.append(DOC_CH[entry])
    return out


# quick tier, shape inside a subcommand, entry parse_args: class configurations left to the bare shape / thorough
QUICK_SUB_SKIP_STEPS = [[["argv", "Derived"]], [["argv", "DefK"]], [["cfg", "DefK"], ["argv", "Base"]],
                        [["env", "Derived"], ["cfg", "Base"]], [["argv", "NoK"], ["argv", "DefK"]]]
QUICK_SUB_SKIP_LISTS = [["NoK"], ["Base", "Derived"], []]

NAME_LISTS = [[], ["Base"], ["NoK"], ["Base", "Derived"], ["NoK", "Base"], ["Base", "NoK", "DefK"]]


def many_choices(entry):
    chs = {"args": ["argv", "argv+", "cfg", "env"], "object": ["obj"], "string": ["str"], "env": ["env"],
           "print": ["argv"], "args-envsel": ["cfg", "env"], "object-envsel": ["obj"]}[entry]
    out = []
    for ch in chs:
        for names in NAME_LISTS:
            if ch == "argv+" and not names:
                continue
            tg = ["none"]
            if names and entry != "print" and any(HAS_K[n] for n in names):
                tg.append("spec")
                if ch == "argv+":
                    tg.append("option")
            out += [([ch, names], t) for t in tg]
    return out


def source_assignments(shape, entry, o, quick):
    """All combinations of which channels supply which source leaf (+ position of the --config item)."""
    leaves = LEAVES[shape]
    if shape == "cgroup" and o.get("fn") != "f2":
        leaves = leaves[:1]  # data.m is not a source of this link
    if o.get("tk") == "cglist":
        leaves = ["data.n"]
    if shape == "mix":
        leaves = mix_leaves(o["sk"])
    chs = ENTRY_CH[entry]
    per_leaf = subsets(chs) if entry != "print" else [[], ["argv"], ["cfg"]]
    if shape == "null":
        from mc.checks.c15_shapes import NULL_LEAF

        leaves = [NULL_LEAF[o["nk"]]]
        per_leaf = null_assignments(entry, quick)
    if quick and entry == "args" and len(leaves) == 2:
        # two leaves: no / each single / all channels per leaf (25 combinations instead of 64)
        per_leaf = [[], ["env"], ["cfg"], ["argv"], ["env", "cfg", "argv"]]
    if quick and entry == "args" and shape in ("init", "list", "holder"):
        # the class-configuration axis multiplies these shapes: quick keeps no / each single / all channels
        per_leaf = [[], ["env"], ["cfg"], ["argv"], ["env", "cfg", "argv"]]
        if shape == "holder":
            per_leaf = [[], ["argv"], ["env", "cfg", "argv"]]
    if quick and entry == "args" and shape == "spell":
        # the spelling axis multiplies this family; every channel subset of one int source is in the `plain` shapes
        per_leaf = [[], ["env"], ["cfg"], ["argv"], ["env", "cfg", "argv"]]
    if shape == "mix" and entry != "print" and (quick or len(leaves) > 2):
        # the axis of this family is the position / annotation of the group-valued sources; every channel subset of
        # int and group-member sources is in `two` / `grp`: per leaf none / one channel / all channels
        per_leaf = [[], [chs[min(1, len(chs) - 1)]], list(chs)] if len(chs) > 1 else [[], list(chs)]
    out = []
    for combo in itertools.product(per_leaf, repeat=len(leaves)):
        src = {leaf: c for leaf, c in zip(leaves, combo) if c}
        combo_ch = [[tok.split(":")[0] for tok in c] for c in combo]
        uses_cfg = any("cfg" in c for c in combo_ch)
        both = any("cfg" in c and "argv" in c for c in combo_ch)
        cposs = ["root"] if entry == "args-envsel" else ["first"]
        if entry == "args":
            if both or (not quick and uses_cfg):
                cposs = ["first", "last"]
            if uses_cfg and o.get("wrap"):
                cposs.append("root")
        for cpos in cposs:
            out.append((src, cpos))
    return out


def null_c2i_targets(entry):
    """Family `null`, target x.init_args.k (class OptK from the default / named by a channel): (steps, target supply)."""
    if entry == "args":
        return [([], "none"), ([], "option"), ([], "option_init"), ([["argv", "OptK"]], "spec"), ([["cfg", "OptK"]], "cfg"),
                ([["env", "OptK"]], "spec_env")]
    if entry in DOC_CH:
        return [([], "none"), ([[DOC_CH[entry], "OptK"]], DOC_CH[entry])]
    if entry == "env":
        return [([], "none"), ([["env", "OptK"]], "spec_env")]
    if entry == "args-envsel":
        return [([], "none"), ([["cfg", "OptK"]], "cfg")]
    return [([], "none")]


def enumerate_single(quick):
    cases = []
    serial = None if quick else ["yaml", "json", "yaml+skip_default", "save"]
    reparse = ["yaml"] if quick else None  # quick: both formats are inspected, the yaml one is re-parsed
    for shape, o in variants(quick):
        entries = ["args", "object", "string", "env", "print"]
        if o.get("wrap"):
            entries += ["args-envsel", "object-envsel"]
        if o.get("fn") == "fbad":
            entries = ["args", "object"]
        for entry in entries:
            assignments = source_assignments(shape, entry, o, quick)
            for src, cpos in assignments:
                base = {"k": "single", "shape": shape, "o": o, "entry": entry, "src": src, "cpos": cpos}
                if (src, cpos) == assignments[-1] and entry != "print" and o.get("fn") != "fbad" and not o.get("sreq"):
                    base["_full"] = True  # every source leaf through every channel of the entry point: history axis
                if serial:
                    base["serial"] = serial
                if reparse:
                    base["reparse"] = reparse
                if shape == "null":
                    # dump() leaves None-valued entries out by default (skip_none=True), which is lossy on its own
                    # account: the faithful dump (skip_none=False) is the one inspected and re-parsed; thorough also
                    # inspects the default yaml / json dumps
                    base["serial"] = ["yaml+nulls"] if quick else ["yaml", "json", "yaml+nulls"]
                    base["reparse"] = ["yaml+nulls"]
                if shape == "null" and o["nk"] == "c2i":
                    for steps, tgt in null_c2i_targets(entry):
                        cases.append(dict(base, one={"x": steps}, tgt=tgt))
                elif shape in ("plain", "two", "grp", "cgroup", "spell", "null", "mix"):
                    tgts = plain_targets(shape, o, entry)
                    if o.get("fn") == "fbad":
                        tgts = ["none"]
                    if quick and shape in ("null", "mix"):
                        # the value axis (value / null per channel) multiplies this family: quick keeps one supply of
                        # the target per channel kind (own option, config / object / string key, environment on parse_env)
                        tgts = [t for t in tgts if t in ("none", "option", "cfg", "obj", "str") or (t == "env" and entry == "env")]
                    for tgt in tgts:
                        if tgt == "cfg" and entry == "args" and cpos == "root" and not o.get("wrap"):
                            continue
                        cases.append(dict(base, tgt=tgt))
                    if shape == "spell" and entry == "args":
                        # the target's own option in every other spelling, after and before the source options
                        from mc.checks.c15_shapes import SPELL

                        for sp in range(len(SPELL[o["tk"]]["forms"])):
                            for spos in ("last", "first"):
                                cases.append(dict(base, tgt="spelled", sp=sp, spos=spos))
                elif shape == "init":
                    lazy = o.get("decl") == "lazy"
                    for steps in one_steps(entry, lazy):
                        if quick and o.get("wrap") and entry == "args" and steps in QUICK_SUB_SKIP_STEPS:
                            continue
                        for tgt in one_targets(steps, entry, lazy):
                            cases.append(dict(base, one={"x": steps}, tgt=tgt))
                elif shape == "list":
                    for many, tgt in many_choices(entry):
                        if quick and o.get("wrap") and entry == "args" and many[1] in QUICK_SUB_SKIP_LISTS:
                            continue
                        cases.append(dict(base, many={"xs": many}, tgt=tgt))
                elif shape == "holder":
                    if entry == "args":
                        ones = [[], [["argv", "Base"]], [["cfg", "Derived"]], [["argv", "NoK"]]]
                        manys = [None, ["argv", ["Base", "Derived"]], ["cfg", ["NoK", "Base"]], ["argv+", ["Base"]]]
                    elif entry in DOC_CH:
                        ch = DOC_CH[entry]
                        ones = [[], [[ch, "Base"]]]
                        manys = [None, [ch, ["NoK", "Base", "Derived"]]]
                    elif entry == "env":
                        ones = [[], [["env", "Base"]]]
                        manys = [None, ["env", ["Base", "Derived"]]]
                    elif entry == "args-envsel":
                        ones = [[], [["cfg", "Base"]]]
                        manys = [None, ["cfg", ["NoK", "Base", "Derived"]]]
                    else:
                        ones = [[["argv", "Base"]]]
                        manys = [["argv", ["Base", "Derived"]]]
                    for one in ones:
                        for many in manys:
                            tgts = ["none"]
                            chans = [ch for ch, _ in one] + ([many[0]] if many else [])
                            if entry == "args" and "argv" in chans:
                                tgts.append("spec")
                            if entry in ("args", "args-envsel") and "cfg" in chans:
                                tgts.append("cfg")
                            if entry in DOC_CH and chans:
                                tgts.append(DOC_CH[entry])
                            for tgt in tgts:
                                c = dict(base, one={"h.one": one}, tgt=tgt)
                                if many:
                                    c["many"] = {"h.many": many}
                                cases.append(c)
    # History axis (the same parser object used more than once): on the cases that feed every source through every
    # channel, (late<k>) only the first k links are declared before the parser is used for a first parse, the others
    # afterwards - k = 0 for every shape, k = 1 too where the shape has two links; (warm) all links declared, then the
    # same call made twice.  The earlier parse is the case's own input without a value for the target.
    out = []
    for c in cases:
        if c.pop("_full", False) and hist_selected(c, quick):
            hists = ["late0", "warm"] + (["late1"] if c["shape"] == "holder" else [])
            if quick and (c.get("tgt", "none") != "none" or c["o"].get("wrap")):
                hists = hists[:1] + hists[2:]  # the repeated call only bare and without a value for the target
            for h in hists:
                hc = dict(c, hist=h)
                if quick:  # one dump format, the one that is re-parsed
                    hc["serial"] = hc["reparse"] = ["yaml+nulls" if c["shape"] == "null" else "yaml"]
                out.append(hc)
    return cases + out


def hist_selected(c, quick):
    """Quick tier: the history axis leaves the class-configuration axis at one class from each channel."""
    if not quick:
        return True
    if c["entry"] in ("string", "object-envsel") or (c["entry"] == "env" and not c["o"].get("wrap")):
        return False  # parse_string shares parse_object's path; the environment is a channel of parse_args too
    steps = [s for v in c.get("one", {}).values() for s in v]
    if len(steps) > 1 or any(name not in ("Base", "OptK") for _, name in steps):
        return False
    many = [v for v in c.get("many", {}).values()]
    if any(names not in (["NoK", "Base"], ["Base", "Derived"], ["NoK", "Base", "Derived"]) for _, names in many):
        return False
    if c.get("tgt") == "spelled" and c.get("spos") == "first":
        return False
    if c["o"].get("wrap") and c.get("tgt", "none") not in ("none", "option", "cfg", "obj", "str", "spec", "spelled"):
        return False  # inside a subcommand one supply of the target per channel kind
    return True


def enumerate_files(quick):
    """Family `files`: the class argument / class group that holds the target is given as a path to its own config
    file - on argv, through the environment, or named inside a config file - so that its value carries __path__
    and a multi-file save() writes it to a file of its own; every written file is inspected and the saved main file
    is re-parsed with parse_path."""
    cases = []
    shapes = [("init", {"fn": "f1", "decl": "arg"}), ("init", {"decl": "sub"}), ("cgroup", {}), ("cgroup", {"fn": "f2"})]
    classes = ["Base", "DefK", "NoK"]
    if not quick:
        shapes += [("init", {"decl": "arg"}), ("init", {"fn": "f1", "decl": "sub"}), ("cgroup", {"fn": "f1"})]
        classes += ["Derived"]
    for wrap in (None, "sub"):
        for shape, o in shapes:
            o = dict(o, subcfg=True, **({"wrap": wrap} if wrap else {}))
            leaf = "s" if shape == "init" else "data.n"
            for chans in ([], ["argv"], ["env", "cfg", "argv"]) if quick else subsets(ENTRY_CH["args"]):
                base = {"k": "single", "shape": shape, "o": o, "entry": "args", "src": {leaf: chans} if chans else {},
                        "cpos": "first", "files": True, "serial": ["save"], "reparse": ["save"]}
                for ch in ("argvfile", "cfgfile", "envfile"):
                    if shape == "init":
                        for cls in classes:
                            for tgt in ("none", "spec") if HAS_K[cls] else ("none",):
                                cases.append(dict(base, one={"x": [[ch, cls]]}, tgt=tgt))
                    else:
                        for tgt in ("none", "gfile"):
                            cases.append(dict(base, gfile={"model": ch}, tgt=tgt))
    return cases


def enumerate_linksets(quick, hist_only=False):
    """Every single link and every ordered pair of the catalogue; every ordered triple (quadruple) of distinct links
    in which the order of application is constrained by at least two (three) dependencies through nested keys and
    that must not be refused outright - dependency chains and fans of three (four) links in every declaration order;
    thorough: every ordered triple whatsoever."""
    from mc.checks.c15_shapes import LINKS, MUST_REFUSE, UNSATISFIABLE, dependencies, relations

    links = [[list(s), f, t] for s, f, t in LINKS]
    sets = [[a] for a in links] + [[a, b] for a in links for b in links]
    if hist_only:
        sets = [[a, b] for a in links for b in links]  # a parse between two declarations needs two links

    def constrained(size):
        out = []
        for combo in itertools.permutations(links, size):
            if len(dependencies(combo)) < size - 1:
                continue
            if any(r in MUST_REFUSE + UNSATISFIABLE for r in relations(list(combo))):
                continue
            out.append(list(combo))
        return out

    out = [{"k": "linkset", "links": s} for s in sets]
    if hist_only:
        # History axis: the parser is used for a parse after every single declaration, then for all inputs in a row
        if quick:  # pairs, two of the four inputs (defaults, argv)
            return [dict(c, hist="used", inputs=[0, 1]) for c in out]
        out = [dict(c, hist="used") for c in out]
        return out + [{"k": "linkset", "links": s, "hist": "used"} for s in constrained(3)]
    if quick:
        # the order of application does not depend on the channel: of the four inputs (defaults, argv, config,
        # object) the triples get the first two in the quick tier
        out += [{"k": "linkset", "links": s, "inputs": [0, 1]} for s in constrained(3)]
    else:
        out += [{"k": "linkset", "links": [a, b, c]} for a in links for b in links for c in links]
        out += [{"k": "linkset", "links": s} for s in constrained(4)]
    return out


def _catalogue_size():
    from mc.checks.c15_shapes import LINKS

    return len(LINKS)


def case_size(case):
    import json

    return len(json.dumps(case))


def work(case):
    """Worker: one case on the real code -> (case, deviations, observation)."""
    from mc.checks import c15_shapes as S

    if case["k"] == "linkset":
        devs, obs = S.run_linkset(case)
    else:
        devs, obs = S.run_single(case)
    return case, devs, obs


def run_case(case):
    _, devs, _ = work(case)
    return [{"signature": s, "detail": d} for s, d in devs]


def explore(ctx):
    quick = ctx.quick
    singles = enumerate_single(quick) + enumerate_files(quick)
    linksets = enumerate_linksets(quick) + enumerate_linksets(quick, hist_only=True)
    cases = sorted(singles + linksets, key=case_size)  # simplest first (the driver permutes by seed)
    n = {"cases": 0, "accepted": 0, "rejected": 0, "rejected_as_required": 0, "judged": 0, "ignored": 0, "dumps": 0,
         "reparsed": 0, "refused_sets": 0, "accepted_sets": 0, "linkset_parses": 0, "print": 0}
    winners = {}
    null_winners = {}
    spelled = {}
    shapes_accepted = {}
    relations = {}
    nontrivial = 0
    transitions = 0
    for case, devs, obs in ctx.pmap(work, cases):
        n["cases"] += 1
        for s, d in devs:
            ctx.deviation(s, case, d)
        if case.get("hist"):
            n["hist_cases"] = n.get("hist_cases", 0) + 1
            if case["k"] == "linkset" and obs.get("accepted_set"):
                n["hist_sets_parsed_between_declarations"] = n.get("hist_sets_parsed_between_declarations", 0) + 1
            if case["k"] == "single" and obs.get("accepted"):
                key = "hist_repeated_call" if case["hist"] == "warm" else "hist_links_declared_after_a_parse"
                n[key] = n.get(key, 0) + 1
        if case["k"] == "linkset":
            n["refused_sets"] += obs.get("refused", 0)
            n["accepted_sets"] += obs.get("accepted_set", 0)
            n["linkset_parses"] += obs.get("parses", 0)
            relations[obs["relation"]] = relations.get(obs["relation"], 0) + 1
            if len(case["links"]) >= 3 and obs.get("accepted_set"):
                n["accepted_sets_3plus"] = n.get("accepted_sets_3plus", 0) + 1
            transitions += len(case["links"]) + obs.get("parses", 0) + obs.get("dumps", 0) + obs.get("reparsed", 0)
            n["judged"] += obs.get("judged", 0)
            nontrivial += 1 if len(case["links"]) > 1 else 0
            continue
        transitions += 1 + obs.get("dumps", 0) + obs.get("reparsed", 0)
        for key in ("accepted", "rejected", "rejected_as_required", "judged", "ignored", "dumps", "reparsed"):
            n[key] += obs.get(key, 0)
        if case["entry"] == "print":
            n["print"] += 1
        if case.get("files"):
            n["saves_with_subfiles"] = n.get("saves_with_subfiles", 0) + (1 if obs.get("saved_subfiles") else 0)
        if case["shape"] == "mix" and obs.get("accepted"):
            n["mixed_source_links_accepted"] = n.get("mixed_source_links_accepted", 0) + 1
        if obs.get("spelled"):
            key = obs["spelled"] + (":rejected" if obs.get("rejected_as_required") else ":not-rejected")
            spelled[key] = spelled.get(key, 0) + 1
        fam = case["shape"] + ("/" + case["o"]["wrap"] if case["o"].get("wrap") else "")
        if obs.get("accepted"):
            shapes_accepted[fam] = shapes_accepted.get(fam, 0) + 1
        for w in obs.get("winners", ()):
            winners.setdefault(fam, set()).add(w)
        for nk, ch in obs.get("null_final", ()):
            null_winners.setdefault(nk, set()).add(ch)
            n["null_final"] = n.get("null_final", 0) + 1
        # non-trivial: the final value of some source does not come from the default, or the target itself was supplied
        if case.get("tgt", "none") != "none" or any(w != "default" for w in obs.get("winners", ())):
            nontrivial += 1
    for c in (singles[0], singles[len(singles) // 2], singles[-1], linksets[0], linksets[-1]):
        ctx.sample(c)
    ctx.cover(
        evaluations=n["cases"],
        states=n["cases"],
        transitions=transitions,
        traces_validated_against_impl=n["cases"],
        distinct_nontrivial=nontrivial,
        rule="a case is one (link shape, channel assignment, class configuration, target-supply) tuple or one ordered "
        "link set with its four inputs; non-trivial = some source's final value comes from a non-default channel, or "
        "the target itself was supplied, or the link set has more than one link. transitions = parse / dump / re-parse / "
        "link_arguments calls executed on the real code",
        exhaustive=True,
        caps_hit=[],
        bounds={
            "link_shapes": len(variants(quick)),
            "single_cases": len(singles),
            "link_sets": len(linksets),
            "link_set_size": "2; 3 where the order of application is constrained by >= 2 nested-key dependencies" if quick
            else "3; 4 where the order of application is constrained by >= 3 nested-key dependencies",
            "link_catalogue": _catalogue_size(),
            "subcommand_depth": 2,
            "source_leaves_per_link": 2,
            "channels": ENTRY_CH,
            "serialisers": ["yaml", "json", "--print_config", "save (multi-file, family files)"]
            + ([] if quick else ["yaml+skip_default", "save"]),
            "histories": "links declared after the parser's first parse (late<k>), the same call twice (warm), link "
            "sets with a parse after every declaration and all inputs on one parser (used)",
        },
        counts=n,
        link_set_relations=relations,
        channels_seen_winning={k: sorted(v) for k, v in sorted(winners.items())},
        channels_seen_setting_a_source_to_none={k: sorted(v) for k, v in sorted(null_winners.items())},
        accepted_per_shape=shapes_accepted,
        target_option_spellings=spelled,
    )
    ctx.assume("final source values are read from the parsed configuration itself (precedence between channels is C04)")
    ctx.assume("a link whose source lies below a class argument that is not configured is skipped by design (not judged)")
    need = {"default", "env", "cfg", "argv", "obj", "str"}
    ctx.require(n["cases"] == len(cases), "every enumerated case was executed")
    ctx.require(n["accepted"] > 1000 and n["rejected_as_required"] > 100, "accepted parses and required rejections both occur")
    ctx.require(n["judged"] > n["accepted"] * 0.8, "the invariant was judged on (nearly) every accepted parse")
    ctx.require(n["ignored"] > 50, "list items / classes without the targeted parameter occur")
    ctx.require(n["reparsed"] > 1000, "dumps were re-parsed")
    ctx.require(n["print"] > 20, "--print_config route exercised")
    ctx.require(n["refused_sets"] > 50 and n["accepted_sets"] > 50, "link sets both refused and accepted")
    ctx.require(all(r in relations for r in ("double", "chain", "self", "independent", "prefix-chain", "prefix-chain-wrong-order",
                                             "prefix-chain3", "prefix-chain3-wrong-order", "nest-cycle")),
                f"every link-set relation class occurs ({relations})")
    ctx.require(n.get("accepted_sets_3plus", 0) > 100, "link sets of three links with constrained order were accepted and parsed")
    missing_null = {nk: sorted(need - null_winners.get(nk, set())) for nk in ("plain", "cls", "clsinit", "c2i")
                    if need - null_winners.get(nk, set())}
    ctx.require(not missing_null, "for every kind of None-admitting source each channel is seen to make None the final "
                f"source value (missing: {missing_null})")
    ctx.require(all(spelled.get(c + ":rejected", 0) + spelled.get(c + ":not-rejected", 0) > 10
                    for c in ("canonical", "alias", "abbrev", "append", "negation")),
                f"every class of spelling of a plain target's option was tried ({spelled})")
    ctx.require(n.get("hist_links_declared_after_a_parse", 0) > 100 and n.get("hist_repeated_call", 0) > 50
                and n.get("hist_sets_parsed_between_declarations", 0) > 100,
                "history axis: links declared on a parser that had already parsed, repeated calls, parses between declarations")
    ctx.require(n.get("saves_with_subfiles", 0) > 100, "multi-file saves that write the argument holding the target to its own file")
    ctx.require(n.get("mixed_source_links_accepted", 0) > 100, "links with scalar and group-valued sources mixed were parsed")
    missing = {fam: sorted(need - w) for fam, w in winners.items() if need - w}
    ctx.require(not missing, f"every channel is seen to determine the final source value in every shape family (missing: {missing})")
