"""C10 - the enumerated space: type grammar, value pools, declared defaults, parser shapes, input channels.

A *parser spec* is a JSON object {"shape": S, "type": T, "default": D, "dform": "raw"|"typed"|"native", "mode": M
[, "dcf": true] [, "ambient": V] [, "enable_path": true]}:
  T  a type spec - a leaf name or [constructor, arg specs...]
  D  a raw JSON value declared as default, or "__unset__";  dform says whether the parser gets the raw value
     (the way users write `lr: float = 1`, `size: Tuple[int, int] = [1, 2]`), the typed object the library
     itself makes of it (E.A, Path object, tuple, set, Decimal), or ("native") the Python object that the
     descriptor D denotes, built by the Python constructor ({"__py__": ["timedelta", 0, 1, 500000]}).
  ambient      the parser reads os.environ (default_env=True) and the variable of the target argument holds V (and a
               sibling's variable a fixed text) for the whole life of the spec: first parse and all transitions
  enable_path  the target argument is declared with enable_path=True: its value may be the path of a file holding it
An *input* is [channel, value]; `render(spec, channel, value)` says what is handed to which parse method.
Everything is rebuilt from these JSON values; nothing here imports jsonargparse at module import time.
"""
from __future__ import annotations

import copy
import dataclasses
import json
import math

UNSET = "__unset__"
LIB = "mc.fixtures.c10.lib"
INF, NAN = math.inf, math.nan

# ---------------------------------------------------------------------------------------------------
# type grammar

CORE = ["str", "int", "float", "bool", "E"]
LEAVES = CORE + [
    "EY", "ES", "LitA", "LitB", "PositiveInt", "ClosedUnitInterval", "Gt1Le5", "IntOr", "Email", "UpperTwo",
    "Path_fr", "Path_fc", "Path_dc", "Path_dw", "pathlib.Path", "PathLike", "complex", "Decimal", "UUID", "timedelta",
    "bytes", "bytearray", "range", "Money", "MappingProxy", "Any",
]  # fmt: skip
DATACLASSES = ["Point", "Outer", "Mixed", "Req"]
CLASSLIKE = ["Base", "Holder", "CallableII", "CallableBase", "CallableAny", "TypeBase"]

_TYPE_CACHE = {}


def tkey(spec):
    return json.dumps(spec, sort_keys=True)


def tname(spec):
    """Short name of a type spec (for counters / signatures)."""
    if isinstance(spec, str):
        return spec
    return spec[0] + "[" + ",".join(tname(a) for a in spec[1:]) + "]"


def build_type(spec):
    k = tkey(spec)
    if k not in _TYPE_CACHE:
        _TYPE_CACHE[k] = _build_type(spec)
    return _TYPE_CACHE[k]


def _build_type(spec):
    import collections
    import decimal
    import os
    import pathlib
    import types
    import uuid
    from datetime import timedelta
    from typing import Any, Callable, Dict, List, Literal, Mapping, Optional, Sequence, Set, Tuple, Type, Union

    import jsonargparse.typing as jt
    from mc.fixtures.c10 import lib

    if isinstance(spec, str):
        if spec == "Money":
            jt.register_type(lib.Money, str, lib.Money.parse)  # idempotent for identical handlers
            return lib.Money
        leaf = {
            "str": lambda: str, "int": lambda: int, "float": lambda: float, "bool": lambda: bool,
            "E": lambda: lib.E, "EY": lambda: lib.EY, "ES": lambda: lib.ES,
            "LitA": lambda: Literal["a", 1, None], "LitB": lambda: Literal["1", "null", 2],
            "PositiveInt": lambda: jt.PositiveInt, "ClosedUnitInterval": lambda: jt.ClosedUnitInterval,
            "Gt1Le5": lambda: jt.restricted_number_type("C10Gt1Le5", float, [(">", 1), ("<=", 5)]),
            "IntOr": lambda: jt.restricted_number_type("C10IntOr", int, [("<", 0), (">", 10)], join="or"),
            "Email": lambda: jt.Email,
            "UpperTwo": lambda: jt.restricted_string_type("C10UpperTwo", "^[A-Z]{2}$"),
            "Path_fr": lambda: jt.Path_fr, "Path_fc": lambda: jt.Path_fc, "Path_dc": lambda: jt.Path_dc,
            "Path_dw": lambda: jt.Path_dw,
            "pathlib.Path": lambda: pathlib.Path, "PathLike": lambda: os.PathLike,
            "complex": lambda: complex, "Decimal": lambda: decimal.Decimal,
            "UUID": lambda: uuid.UUID, "timedelta": lambda: timedelta, "bytes": lambda: bytes,
            "bytearray": lambda: bytearray, "range": lambda: range, "Any": lambda: Any,
            "MappingProxy": lambda: types.MappingProxyType,
            "Point": lambda: lib.Point, "Outer": lambda: lib.Outer, "Mixed": lambda: lib.Mixed, "Req": lambda: lib.Req,
            "Base": lambda: lib.Base, "Holder": lambda: lib.Holder,
            "CallableII": lambda: Callable[[int], int], "CallableBase": lambda: Callable[[int], lib.Base],
            "CallableAny": lambda: Callable, "TypeBase": lambda: Type[lib.Base],
        }  # fmt: skip
        return leaf[spec]()
    ctor, args = spec[0], [build_type(a) for a in spec[1:]]
    if ctor == "Optional":
        return Optional[args[0]]
    if ctor == "Union":
        return Union[tuple(args)]
    if ctor == "List":
        return List[args[0]]
    if ctor == "Sequence":
        return Sequence[args[0]]
    if ctor == "DictStr":
        return Dict[str, args[0]]
    if ctor == "DictInt":
        return Dict[int, args[0]]
    if ctor == "Mapping":
        return Mapping[str, args[0]]
    if ctor == "OrderedDict":
        return collections.OrderedDict[str, args[0]]
    if ctor == "Tuple2":
        return Tuple[args[0], args[1]]
    if ctor == "TupleVar":
        return Tuple[args[0], ...]
    if ctor == "Set":
        return Set[args[0]]
    raise ValueError(spec)


def make_dataclass(tspec, dobj, has_default):
    """Fresh dataclass with a field x of the given type (+ default) and a second field n: float = 1.0."""
    T = build_type(tspec)
    if not has_default:
        fields = [("x", T), ("n", float, dataclasses.field(default=1.0))]
    elif isinstance(dobj, (list, dict, set)) or dataclasses.is_dataclass(dobj) or type(dobj).__name__ == "mappingproxy":
        fields = [("x", T, dataclasses.field(default_factory=lambda: _copy(dobj))), ("n", float, dataclasses.field(default=1.0))]
    else:
        fields = [("x", T, dataclasses.field(default=dobj)), ("n", float, dataclasses.field(default=1.0))]
    return dataclasses.make_dataclass("DCx", fields)


def _copy(v):
    try:
        return copy.deepcopy(v)
    except TypeError:  # mappingproxy
        return v


def make_class(tspec, dobj, has_default):
    """Fresh plain class whose __init__ has x: T [= default] and n: float = 1 (target of add_class_arguments)."""
    ns = {"T": build_type(tspec), "D": dobj, "__name__": LIB}
    sig = "self, x: T = D, n: float = 1.0" if has_default else "self, x: T, n: float = 1.0"
    src = f"class K:\n    def __init__({sig}):\n        self.x, self.n = x, n\n"
    exec(compile(src, "<c10 generated class>", "exec", dont_inherit=True), ns)  # no postponed annotations
    return ns["K"]


def make_function(tspec, dobj, has_default):
    """Fresh function fn(x: T [= default], n: float = 1) (target of add_function_arguments)."""
    ns = {"T": build_type(tspec), "D": dobj, "__name__": LIB}
    sig = "x: T = D, n: float = 1.0" if has_default else "x: T, n: float = 1.0"
    exec(compile(f"def fn({sig}):\n    return x\n", "<c10 generated function>", "exec", dont_inherit=True), ns)
    return ns["fn"]


# ---------------------------------------------------------------------------------------------------
# value pools (raw JSON values; the parser decides what is accepted)

UNIVERSAL = [
    None, True, False, 0, 1, -1, 2, 10**20, 0.0, 1.0, 0.5, -2.5, 1e22, 1e-07, INF, -INF, NAN,
    "", "a", "A", "B", "1", "01", "1.0", "1e3", "true", "null", "yes", "on", "y", ".inf", ".nan", "inf", "nan",
    "[1]", '{"a": 1}', "a@b.c", "AB", "2001-01-01", "1:30", "0x1F", "1_000", "-", " 1", "a: 1", "#x", "'q'", "é",
    "'1'", '"1"', "'null'", '"true"', "'A'", "\"'1'\"", "'[1]'", "!!str 1", "!!int '1'",
]  # fmt: skip

# signed spellings of the number lookalikes (the yaml resolvers are keyed by the FIRST character of a scalar, so "-" / "+"
# forms take other resolver lists than the unsigned ones)
SIGNED = ["-1e3", "+1e3", "-1E+3", "+1.5e3", "-.5e1", "-1", "+1", "-1.0", "+.5", "-.inf", "+.inf", "-.nan", "-0x1F", "+0o7", "-1_000", "+1:30", "-01", "--1", "+-1", "-a", "+"]

SPECIFIC = {
    "str": ["x y", "a\nb", "1e+3", "._1", "~", "NO", "{}", "[]", "%", "@", "`", "!t", "&a", "*a", "|", ">", "?", "- a", "k:", ": v", "\t", "<<", "=", "0o7", "0b1", "1:2:3", "2001-01-01T00:00:00Z", "\"", "'", "\\", "''", "' '", "'a' 'b'"] + SIGNED,
    "int": ["-0", "0x10", "0o7", "0b11", "1_0", "+1", "007", "1:00", -10**20],
    "float": [-0.0, 5e-324, 1.7976931348623157e308, 0.1, 1 / 3, 1e15, 1e16, 1e17, 123456789.123456789, "1e+3", ".5", "5.", "1_0.5", "+.inf", "-.INF", ".NaN", "1:30.5", "0x10", "1", "-1", 3],
    "bool": ["false", "True", "FALSE", "no", "off", "n"],
    "E": [], "EY": ["no", "true"], "ES": ["a", "b", "ES.A"],
    "LitA": [], "LitB": ["2"],
    "PositiveInt": ["0x10", "1_0", 3, 3.0, "3.0"],
    "ClosedUnitInterval": ["1e-3", "0.5", ".5", "1e0", "1", "0"],
    "Gt1Le5": [1.5, 5, 5.0, "2", "1.5e0", 1.0000000000000002, 3],
    "IntOr": [-1, 11, "-5", "0x10", 11.0, 5],
    "Email": ["1@2.3", "x+y@z.io", "null@true.no"],
    "UpperTwo": ["NO", "ON", "AB", "XY"],
    "Path_fr": ["f.txt", "./f.txt", "d/../f.txt", "$CWD/f.txt", "missing.txt", "d/g.txt", "1e3", "null", "~/f.txt"],
    "Path_fc": ["new.txt", "f.txt", "d/new.txt", "$CWD/new.txt", "777"],
    "Path_dc": ["newdir", "d", ".", "$CWD/d", "d/"],
    "Path_dw": ["d", ".", "$CWD/d", "./d/../d"],
    "pathlib.Path": ["a/b", ".", "/abs/x", "~", "a b", "x:y", "a//b/", "./a", "a/../b"],
    "PathLike": ["a/b", ".", "/abs/x", "f.txt"],
    "complex": ["1+2j", "(1+2j)", "1j", "-0j", "1e3+0j", "nan+infj", 2, 1.5],
    "Decimal": ["0.1", "1.10", "1e3", "1E+3", "NaN", "Infinity", "-0", 0.1, 0.5, "0.5", 2, "0.30000000000000004", "123456789012345678901234567890.123456789"],
    "UUID": ["12345678-1234-5678-1234-567812345678", "12345678123456781234567812345678", "{12345678-1234-5678-1234-567812345678}", "urn:uuid:12345678-1234-5678-1234-567812345678", "12345678-1234-5678-1234-56781234ABCD"],
    "timedelta": ["1:00:00", "1 day, 0:00:00", "0:00:00.500000", "-1 day, 23:59:59", "3 days, 1:02:03.000004", "0:00:00", "25:00:00", "0:90:00", "1:2:3"],
    "bytes": ["YQ==", "MWUzMA==", "1e30", "AAAA", "bnVsbA==", "true", "null", "1234", "12e3", "+/+/", "YQ"],
    "bytearray": ["YQ==", "1e30", "true", "null", "1234"],
    "range": ["range(3)", "range(1, 3)", "range(0, 10, 2)", "range(0)", "range(5, 1, -1)", "range(0, 1)", "range(0, 3, 1)", "range(1,3)", "range( 3 )"],
    "Money": ["5c", "-3c", "0c", " 7c ", "07c", 5, "5"],
    "MappingProxy": [{}, {"a": 1}, {"b": 2.5, "a": "x"}, {"k": [1, {"z": None}]}, {"1": "1"}, [["a", 1]]],
    "Any": [[], {}, [1, "1", 1.0, True, None], {"a": None}, {"a": {"b": [1.0, "x", "1e3"]}}, [None], {"1": 1}, {"null": "null"},
            [[1], [2.5]], {"k": INF}, [NAN], {"class_path": "x"}, "a: [1, 2]", "- 1\n- 2", "{a: 1e3}", "[.inf]", 1e300,
            {"class_path": LIB + ".SubA"}, {"class_path": LIB + ".SubA", "init_args": {"a": 4}}, ["'1'"], {"k": "'null'"}],
}  # fmt: skip

# reduced pools (used inside constructors, with declared defaults and in the structured parser shapes)
P = {
    "str": ["", "a", "1", "1e3", "null", "true", "[1]", " x ", "'1'", "é", "a\nb", "NO", "-1e3"],
    "int": [0, 1, -1, 10**20, "1", "0x10", "1_0"],
    "float": [0.5, 1.0, 1, -0.0, 1e22, 1e16, INF, NAN, "1e3", ".5", "1", True],
    "bool": [True, False, "true", "false", 1],
    "E": ["A", "B"],
    "EY": ["null", "no", "y"], "ES": ["A", "a"],
    "LitA": ["a", 1, None, "1", "null"], "LitB": ["1", "null", 2, "2"],
    "PositiveInt": [1, "2", 3.0], "ClosedUnitInterval": [0.5, 1, "0", "1e-3"], "Gt1Le5": [2, 1.5, "5"], "IntOr": [-1, "11"],
    "Email": ["a@b.c"], "UpperTwo": ["NO", "AB"],
    "Path_fr": ["f.txt", "./f.txt", "$CWD/f.txt", "d/g.txt"], "Path_fc": ["new.txt", "d/new.txt"], "Path_dc": ["newdir", "d"],
    "Path_dw": ["d", "."],
    "pathlib.Path": ["a/b", ".", "/abs/x", "a//b/"], "PathLike": ["a/b", "f.txt"],
    "complex": ["1+2j", "(1+2j)", 2], "Decimal": ["0.5", "0.1", 0.1, "1E+3", 2],
    "UUID": ["12345678-1234-5678-1234-567812345678", "12345678123456781234567812345678"],
    "timedelta": ["1:00:00", "1 day, 0:00:00", "25:00:00"], "bytes": ["YQ==", "1e30", "YQ"], "bytearray": ["YQ=="],
    "range": ["range(3)", "range(0, 3, 1)", "range(5, 1, -1)"], "Money": ["5c", " 7c ", 5],
    "MappingProxy": [{}, {"a": 1}, {"b": 2.5, "a": "x"}],
    "Any": [1, 1.0, True, "1", "'1'", None, [1, "a"], {"a": {"b": [1.0]}}, "null", NAN, "a: 1"],
}  # fmt: skip

KEYS = ["k", "1", "1e3", "null", "true", "a.b", " ", "", "1.5", "~", "no", "é", "'k'", "-1e3", "+1", "-.inf"]
DEFAULTS_LEAF = {
    "str": ["d", "1"], "int": [1, True, 1.0], "float": [1, 0.5, INF, True], "bool": [True, 1, "true"], "E": ["A"], "EY": ["null"], "ES": ["A", "a"],
    "LitA": ["a", None, "1"], "LitB": ["1", 2, "2"], "PositiveInt": [1, "2"], "ClosedUnitInterval": [1, 0.5], "Gt1Le5": [2, 2.5],
    "IntOr": [-1], "Email": ["a@b.c"], "UpperTwo": ["NO"], "Path_fr": ["f.txt", "d/g.txt"], "Path_fc": ["new.txt"], "Path_dc": ["d"], "Path_dw": ["d"],
    "pathlib.Path": ["a/b", "a//b/"], "PathLike": ["a/b"], "complex": ["1+2j", 2], "Decimal": ["0.5", "0.1", 0.1, 2],
    "UUID": ["12345678123456781234567812345678"], "timedelta": ["1:00:00", "25:00:00"], "bytes": ["YQ==", "YQ"], "bytearray": ["YQ=="],
    "range": ["range(3)", "range(0, 3, 1)"], "Money": ["5c", 5], "MappingProxy": [{"a": 1}, {}], "Any": [1, 1.0, "1", [1], None, "'1'", {"a": 1}],
}  # fmt: skip


COLLIDING = [0, 8, 16, 1, 32]  # hash(v) % 8 collides for four of five; the fifth insertion resizes the table


def dedupe(values):
    out, seen = [], set()
    for v in values:
        k = json.dumps(v, sort_keys=True) + type(v).__name__
        if k not in seen:
            seen.add(k)
            out.append(v)
    return out


def pool(spec, wide=True):
    """Raw candidate values for a type spec, simplest first."""
    if isinstance(spec, str):
        if not wide:
            return list(P[spec])
        return dedupe(SPECIFIC.get(spec, []) + P.get(spec, []) + UNIVERSAL)
    ctor = spec[0]
    sub = [pool(a, wide=False) for a in spec[1:]]
    if ctor == "Optional":
        return dedupe(sub[0] + [None, "null", ""])
    if ctor == "Union":
        return dedupe([v for s in sub for v in s] + [None])
    if ctor in ("List", "Sequence", "TupleVar", "Set"):
        s = sub[0]
        out = [[]] + [[v] for v in s]
        if len(s) >= 2:
            out += [[s[0], s[1]], [s[1], s[0]], [s[1], s[1]], [s[-1], s[0], s[1]]]
        if ctor in ("List", "Sequence"):
            out += [s[0]]  # a bare element where a list is expected
        if ctor == "Set" and spec[1] in ("int", "float"):
            # enough members to make the hash table grow while the set is built, with hashes that collide in the
            # small table: the iteration (= dump) order then depends on the insertion history, not on the members
            conv = float if spec[1] == "float" else int
            out += [[conv(v) for v in COLLIDING], [conv(v) for v in reversed(COLLIDING)]]
        return dedupe(out)
    if ctor in ("DictStr", "Mapping", "OrderedDict"):
        s = sub[0]
        core_elem = spec[1] in CORE if isinstance(spec[1], str) else False
        out = [{}] + [{"k": v} for v in s] + [{k: s[0]} for k in (KEYS if ctor == "DictStr" and core_elem else KEYS[:4])]
        if len(s) >= 2:
            out += [{"a": s[0], "b": s[1]}, {"b": s[1], "a": s[0]}]
        return dedupe(out)
    if ctor == "DictInt":
        s = sub[0]
        out = [{}] + [{"1": v} for v in s] + [{"0": s[0], "-1": s[-1]}, {"10": s[0]}, {"1_0": s[0]}, {"01": s[0]}, {"0x10": s[0]}, {"1.0": s[0]}, {"k": s[0]}, {"2": s[0], "1": s[-1]}]
        return dedupe(out)
    if ctor == "Tuple2":
        a, b = sub
        return dedupe([[v, b[0]] for v in a] + [[a[0], u] for u in b] + [[a[-1], b[-1]], [a[0]], []])
    raise ValueError(spec)


def defaults(spec):
    """Raw defaults tried for a type (besides UNSET); chosen to (mostly) conform, the parser decides."""
    if isinstance(spec, str):
        return list(DEFAULTS_LEAF[spec])
    ctor = spec[0]
    d = [defaults(a) for a in spec[1:]]
    if ctor == "Optional":
        return [None, d[0][0]] + d[0][1:2]
    if ctor == "Union":
        return dedupe([d[0][0], d[1][0], 1, 1.0, True])
    if ctor in ("List", "Sequence", "TupleVar"):
        return [[d[0][0]], [], [d[0][0], d[0][-1]]]
    if ctor == "Set":
        return [[d[0][0]], [], [d[0][0], d[0][-1]]]
    if ctor in ("DictStr", "Mapping", "OrderedDict"):
        return [{"k": d[0][0]}, {}, {"b": d[0][-1], "a": d[0][0]}]
    if ctor == "DictInt":
        return [{"1": d[0][0]}, {"2": d[0][0], "1": d[0][-1]}]
    if ctor == "Tuple2":
        return [[d[0][0], d[1][0]], [d[0][-1], d[1][-1]]]
    raise ValueError(spec)


# -- native values ----------------------------------------------------------------------------------
# Values given as *already typed Python objects*, built here with the Python constructors - never by the library
# under test (the "typed" form of a declared default is what the library's own deserialiser makes of a raw value, so a
# lossy deserialiser hides every state it cannot produce).  A descriptor is the JSON object {"__py__": [kind, args...]};
# `realise` turns a JSON value with descriptors into the objects.  Covers the full value range of the Python type
# (sub-second timedeltas, Decimals with exponent, negative / stepped ranges, ...), not only what a config text yields.


def py(*a):
    return {"__py__": list(a)}


NATIVE = {
    "E": [py("E", "A"), py("E", "B")], "EY": [py("EY", "null"), py("EY", "y")], "ES": [py("ES", "A")],
    "pathlib.Path": [py("pathlib", "a/b"), py("pathlib", "."), py("pathlib", "/abs/x")], "PathLike": [py("pathlib", "a/b")],
    "complex": [py("complex", 1.0, 2.0), py("complex", 0.0, -1.5), py("complex", 1e22, 0.0)],
    "Decimal": [py("Decimal", "0.5"), py("Decimal", "1E+3"), py("Decimal", "0.1"), py("Decimal", "-0")],
    "UUID": [py("UUID", "12345678123456781234567812345678"), py("UUID", "00000000000000000000000000000000")],
    "timedelta": [py("timedelta", 0, 1, 500000), py("timedelta", 0, 0, 1), py("timedelta", 1, 0, 0), py("timedelta", -1, 86399, 999999),
                  py("timedelta", 3, 3723, 4), py("timedelta", 0, 0, 0), py("timedelta", 400, 59, 250000), py("timedelta", 0, 90000, 0)],
    "bytes": [py("bytes", "61"), py("bytes", ""), py("bytes", "00ff")], "bytearray": [py("bytearray", "61"), py("bytearray", "")],
    "range": [py("range", 0, 3, 1), py("range", 1, 3, 1), py("range", 0, 10, 2), py("range", 5, 1, -1), py("range", 0, 0, 1)],
    "Money": [py("Money", 5), py("Money", -3)],
    "MappingProxy": [py("mappingproxy", {"a": 1}), py("mappingproxy", {})],
    "Path_fr": [py("jpath", "fr", "f.txt"), py("jpath", "fr", "d/g.txt")], "Path_fc": [py("jpath", "fc", "new.txt")],
    "Path_dc": [py("jpath", "dc", "d")], "Path_dw": [py("jpath", "dw", "d")],
}  # fmt: skip
# plain typed values of the core leaves: used only to fill native containers (tuple / set objects)
PLAIN_TYPED = {"str": ["a", "1"], "int": [1, 0], "float": [0.5, 1.0], "bool": [True, False]}


def has_native(v):
    if isinstance(v, dict):
        return set(v) == {"__py__"} or any(has_native(x) for x in v.values())
    if isinstance(v, list):
        return any(has_native(x) for x in v)
    return False


def realise(v):
    """JSON value with native descriptors -> Python objects (Python constructors only; jsonargparse Path types by
    their public constructor, relative to the current directory)."""
    if isinstance(v, list):
        return [realise(x) for x in v]
    if not isinstance(v, dict):
        return v
    if set(v) != {"__py__"}:
        return {k: realise(x) for k, x in v.items()}
    kind, *a = v["__py__"]
    if kind in ("E", "EY", "ES"):
        from mc.fixtures.c10 import lib

        return getattr(lib, kind)[a[0]]
    if kind == "pathlib":
        import pathlib

        return pathlib.Path(a[0])
    if kind == "complex":
        return complex(a[0], a[1])
    if kind == "Decimal":
        import decimal

        return decimal.Decimal(a[0])
    if kind == "UUID":
        import uuid

        return uuid.UUID(hex=a[0])
    if kind == "timedelta":
        from datetime import timedelta

        return timedelta(days=a[0], seconds=a[1], microseconds=a[2])
    if kind == "bytes":
        return bytes.fromhex(a[0])
    if kind == "bytearray":
        return bytearray.fromhex(a[0])
    if kind == "range":
        return range(a[0], a[1], a[2])
    if kind == "Money":
        from mc.fixtures.c10 import lib

        return lib.Money(a[0])
    if kind == "mappingproxy":
        import types

        return types.MappingProxyType(realise(a[0]))
    if kind == "jpath":
        import jsonargparse.typing as jt

        return getattr(jt, "Path_" + a[0])(a[1])
    if kind == "tuple":
        return tuple(realise(x) for x in a[0])
    if kind == "set":
        return {realise(x) for x in a[0]}
    raise ValueError(v)


def native_pool(spec, inside=False):
    """Native (already typed) values of a type spec, simplest first; [] when the JSON values are the typed form."""
    if isinstance(spec, str):
        if spec in NATIVE:
            return list(NATIVE[spec])
        return list(PLAIN_TYPED[spec]) if inside and spec in PLAIN_TYPED else []
    ctor = spec[0]
    subs = [native_pool(a, True) for a in spec[1:]]
    if ctor == "Union":
        return dedupe([v for s in subs for v in s[:2] if has_native(v)])
    if any(not s for s in subs):
        return []
    s = subs[0]
    if ctor == "Tuple2":
        a, b = subs
        return [py("tuple", [a[0], b[0]]), py("tuple", [a[-1], b[-1]])]
    if ctor == "TupleVar":
        return [py("tuple", [s[0]]), py("tuple", [s[0], s[-1]]), py("tuple", [])]
    if ctor == "Set":
        return [py("set", [s[0]]), py("set", [s[0], s[-1]]), py("set", [])]
    if not has_native(s):
        return []
    if ctor == "Optional":
        return s
    if ctor in ("List", "Sequence"):
        return [[v] for v in s[:3]] + [[s[0], s[-1]]]
    if ctor in ("DictStr", "Mapping", "OrderedDict"):
        return [{"k": v} for v in s[:3]] + [{"b": s[-1], "a": s[0]}]
    return []  # DictInt: JSON keys are strings, the typed keys are ints - no descriptor form


# -- class-like types --------------------------------------------------------------------------------

CLASS_VALUES = [
    "SubA", LIB + ".SubA", LIB + ".Base",
    {"class_path": LIB + ".SubA"},
    {"class_path": "SubA", "init_args": {"a": 7, "s": "1e3", "opt": "null"}},
    {"class_path": "SubA", "init_args": {"s": "'1'", "opt": None}},
    {"class_path": LIB + ".SubB"},
    {"class_path": "SubB", "init_args": {"inner": {"class_path": LIB + ".Inner", "init_args": {"v": 1, "name": "1_0"}}}},
    {"class_path": "SubB", "init_args": {"inner": {"class_path": LIB + ".Inner"}, "items": [], "u": 1, "a": 9}},
    {"class_path": "SubB", "init_args": {"items": [3, 4], "u": "1"}},
    {"class_path": "SubB", "init_args": {"inner": None, "u": "null"}},
    {"class_path": "SubC", "init_args": {"req": "r"}},
    {"class_path": "SubC", "init_args": {"req": "1e3", "d": {"1": 1, "null": 2}, "t": [2, "2"]}},
    {"class_path": "SubC"},
    {"class_path": "SubD"},
    {"class_path": "SubD", "init_args": {"lr": 2, "mode": "A", "where": "a//b", "size": [3, 4], "tags": [2, 1], "ratio": 1}},
    {"class_path": "SubD", "init_args": {"lr": "1e3", "tags": ["b", "a", "b"], "ratio": INF}},
    {"class_path": "SubK", "dict_kwargs": {"z": 1, "y": "1e3"}},
    {"class_path": "SubK", "init_args": {"a": 4}, "dict_kwargs": {"w": [1, 2.0]}},
    {"init_args": {"a": 3}},
    None,
]  # fmt: skip
CLASS_DEFAULTS = [
    UNSET,
    {"class_path": LIB + ".SubA", "init_args": {"a": 5}},
    {"class_path": LIB + ".SubD"},
    {"__lazy__": "SubD", "kwargs": {"lr": 3}},
    {"__lazy__": "SubB", "kwargs": {"inner": {"class_path": LIB + ".Inner", "init_args": {"v": 2}}}},
    None,
    {"class_path": LIB + ".SubK", "dict_kwargs": {"z": 1}},  # appended: the indexes of the others are used below
]
HOLDER_VALUES = [
    "Holder", {"class_path": LIB + ".Holder"},
    {"class_path": "Holder", "init_args": {"k": 2}},
    {"class_path": "Holder", "init_args": {"child": "SubD"}},
    {"class_path": "Holder", "init_args": {"child": {"class_path": "SubB", "init_args": {"u": 1}}, "other": "SubA"}},
    {"class_path": "Holder", "init_args": {"child": {"init_args": {"a": 8}}}},
    {"class_path": "Holder", "init_args": {"other": {"class_path": "SubD", "init_args": {"lr": 2}}}},
    {"init_args": {"k": 1}},
]
CALLABLE_II_VALUES = [
    LIB + ".fn_a", LIB + ".fn_b", LIB + ".Scale", {"class_path": LIB + ".Scale"},
    {"class_path": LIB + ".Scale", "init_args": {"factor": 2}}, {"class_path": LIB + ".Scale", "init_args": {"factor": "1e3"}},
    "builtins.abs", "os.path.basename", LIB + ".NOT_A_CLASS", None,
]
CALLABLE_BASE_VALUES = [
    "SubA", LIB + ".SubA", {"class_path": "SubA", "init_args": {"s": "q"}}, {"class_path": "SubD", "init_args": {"mode": "A"}},
    {"class_path": "SubD"}, {"class_path": LIB + ".SubC", "init_args": {"d": {"a": 1}}}, LIB + ".fn_a", None,
]
TYPE_VALUES = [LIB + ".SubA", LIB + ".Base", LIB + ".SubD", LIB + ".Inner", "SubA", "builtins.int", None]
DATACLASS_VALUES = {
    "Point": [{}, {"x": 2}, {"label": "1e3", "w": INF}, {"w": None, "label": "null"}, {"w": 1}, {"x": "3", "w": "1e3"}],
    "Outer": [{}, {"p": {"x": 2}}, {"p": {"label": "1e3", "w": 2}, "tags": ["null", "1"], "n": 0}, {"tags": []}],
    "Mixed": [{}, {"f": 2}, {"f": 1}, {"e": "B", "t": [2, "b"], "where": "a//b", "opt": "A"}, {"f": 1.0, "opt": None}, {"f": True}],
    "Req": [{"r": 1}, {"r": "2", "s": "1"}, {}, {"s": "x"}],
}


def class_pool(spec):
    if spec == "Base":
        return CLASS_VALUES
    if spec == "Holder":
        return HOLDER_VALUES
    if spec in ("CallableII", "CallableAny"):
        return CALLABLE_II_VALUES
    if spec == "CallableBase":
        return CALLABLE_BASE_VALUES
    if spec == "TypeBase":
        return TYPE_VALUES
    if isinstance(spec, str) and spec in DATACLASS_VALUES:
        return DATACLASS_VALUES[spec]
    ctor, inner = spec[0], class_pool(spec[1])
    good = [v for v in inner if v is not None]
    if ctor == "Optional":
        return dedupe(list(inner) + [None])
    if ctor == "List":
        return dedupe([[]] + [[v] for v in good] + [[good[0], good[-1]], [good[1], good[2], good[0]]])
    if ctor == "DictStr":
        return dedupe([{}] + [{"k": v} for v in good] + [{"b": good[0], "a": good[-1]}])
    if ctor == "Tuple2":  # [ctor, classlike, leaf]
        return dedupe([[v, 1] for v in good])
    raise ValueError(spec)


def class_defaults(spec):
    if spec == "Base":
        return CLASS_DEFAULTS
    if spec == "Holder":
        return [UNSET, {"__lazy__": "Holder", "kwargs": {"k": 5}}, {"class_path": LIB + ".Holder", "init_args": {"other": {"class_path": LIB + ".SubA"}}}]
    if spec in ("CallableII", "CallableAny"):
        return [UNSET, {"__obj__": "fn_a"}, LIB + ".fn_b", {"class_path": LIB + ".Scale", "init_args": {"factor": 3}}, None]
    if spec == "CallableBase":
        return [UNSET, {"__obj__": "SubA"}, {"class_path": LIB + ".SubD", "init_args": {"lr": 2}}, None]
    if spec == "TypeBase":
        return [UNSET, {"__obj__": "SubA"}, LIB + ".SubD", None]
    if isinstance(spec, str) and spec in DATACLASS_VALUES:
        return [UNSET] + ([{"__dc__": spec, "kwargs": DATACLASS_VALUES[spec][1]}] if spec != "Req" else [{"__dc__": "Req", "kwargs": {"r": 5}}])
    ctor, inner = spec[0], [d for d in class_defaults(spec[1]) if d != UNSET and d is not None]
    if ctor != "Optional":
        # inside containers: no bare strings (only a top-level string default is converted by argparse) and no
        # dataclass / lazy instances (only a top-level instance is converted to its dict form by normalize_default)
        inner = [d for d in inner if not isinstance(d, str) and not (isinstance(d, dict) and ("__dc__" in d or "__lazy__" in d))]
    if ctor == "Optional":
        return [UNSET, None] + inner[:2]
    if ctor == "List":
        return [UNSET, []] + [[d] for d in inner[:2]]
    if ctor == "DictStr":
        return [UNSET, {}] + [{"k": d} for d in inner[:2]]
    if ctor == "Tuple2":
        return [UNSET]
    raise ValueError(spec)


def realise_default(d):
    """Raw default spec -> the Python object handed to add_argument (lazy instances, functions, dataclass objects)."""
    from jsonargparse import lazy_instance
    from mc.fixtures.c10 import lib

    if isinstance(d, dict):
        if "__lazy__" in d:
            return lazy_instance(getattr(lib, d["__lazy__"]), **{k: realise_default(v) for k, v in d.get("kwargs", {}).items()})
        if "__obj__" in d:
            return getattr(lib, d["__obj__"])
        if "__dc__" in d:
            return getattr(lib, d["__dc__"])(**copy.deepcopy(d.get("kwargs", {})))
        return {k: realise_default(v) for k, v in d.items()}
    if isinstance(d, list):
        return [realise_default(v) for v in d]
    return d


def is_classlike(spec):
    if isinstance(spec, str):
        return spec in CLASSLIKE or spec in DATACLASSES
    return is_classlike(spec[1])


def subst(v, cwd):
    if isinstance(v, str):
        return v.replace("$CWD", cwd)
    if isinstance(v, list):
        return [subst(x, cwd) for x in v]
    if isinstance(v, dict):
        return {subst(k, cwd): subst(x, cwd) for k, x in v.items()}
    return v


def argv_text(v):
    if isinstance(v, str):
        return v
    return json.dumps(v, ensure_ascii=False)


def has_nan_inf(v):
    if isinstance(v, float):
        return v != v or v in (INF, -INF)
    if isinstance(v, list):
        return any(has_nan_inf(x) for x in v)
    if isinstance(v, dict):
        return any(has_nan_inf(x) for x in v.values())
    return False


# ---------------------------------------------------------------------------------------------------
# parser shapes

SUBDIR = "sub"
CONF = "sub/conf.yaml"
DCF = "dcf.yaml"
SHAPES = ["flat", "group", "dataclass", "optdc", "listdc", "dictdc", "nesteddc", "classgroup", "funcgroup", "sub_a", "sub_bc", "link", "inner",
          "sub_a_alias", "sub_bc_alias"]
# Sub-command shapes: the names by which the sub-commands on the way to the target argument are SELECTED.  The
# "_alias" shapes declare aliases for every sub-command (SUB_ALIASES) and select through them: the result then holds
# the settings under the alias name (cfg.subcommand == "a2", cfg.a2.x), never under the primary one.
SUB_ALIASES = {"a": ("aa", "a2"), "b": ("bb",), "c": ("cc",), "d": ("dd", "d2")}
SUB_PATHS = {
    "sub_a": ["a"], "sub_bc": ["b", "c"],
    "sub_a_alias": ["a2"],  # a later alias of several
    "sub_bc_alias": ["bb", "cc"],  # the only alias, at both levels
    "sub_bc_alias1": ["bb", "c"], "sub_bc_alias2": ["b", "cc"],  # alias at one level only (thorough tier)
}  # fmt: skip
SUB_SIBLINGS = {  # argv that selects another sub-command than the one on the path (nearest sibling, first-level sibling)
    "sub_a": [["b", "d"]], "sub_bc": [["b", "d"], ["a"]],
    "sub_a_alias": [["bb", "d2"]], "sub_bc_alias": [["bb", "d2"], ["aa"]],
    "sub_bc_alias1": [["bb", "dd"], ["a2"]], "sub_bc_alias2": [["b", "dd"], ["a2"]],
}  # fmt: skip
SHAPES_THOROUGH = ["sub_bc_alias1", "sub_bc_alias2"]


# flat parsers whose target argument is named like an attribute of the Namespace class (stored under a marked key)
NAME_SHAPES = {"flat_items": "items", "flat_values": "values", "flat_keys": "keys", "flat_get": "get", "flat_clone": "clone", "flat_update": "update"}


def shapes(quick):
    return SHAPES if quick else SHAPES + SHAPES_THOROUGH


def _new(mode, config=True, **kw):
    from jsonargparse import ArgumentParser

    p = ArgumentParser(exit_on_error=False, parser_mode=mode, **kw)
    if config:
        p.add_argument("--cfg", action="config")
    return p


def build_parser(spec, dobj, has_default):
    """Fresh parser for a parser spec; dobj is the default object (already in the requested form)."""
    from typing import Dict, List, Optional

    from jsonargparse import ActionParser

    shape, tspec, mode = spec["shape"], spec["type"], spec.get("mode", "yaml")
    kw = {"default": dobj} if has_default else {}
    pkw = {}
    if spec.get("dcf"):
        pkw["default_config_files"] = [DCF]
    if "ambient" in spec:
        pkw["default_env"] = True  # the process environment is a source of every parse (sub-parsers inherit it)
    if spec.get("enable_path"):
        kw["enable_path"] = True  # the value may be given as the path of a file that holds it
    if "nargs" in spec:
        assert shape in NARGS_SHAPES, shape
        kw["nargs"] = spec["nargs"]  # the target argument takes a LIST of values of the type ("+", "*" or a number)
    p = _new(mode, env_prefix="APP", **pkw)
    if shape == "flat":
        p.add_argument("--x", type=build_type(tspec), **kw)
        p.add_argument("--keep", type=str, default="keep")
    elif shape in NAME_SHAPES:
        p.add_argument("--" + NAME_SHAPES[shape], type=build_type(tspec), **kw)
        p.add_argument("--keep", type=str, default="keep")
    elif shape == "group":
        p.add_argument("--top", type=str, default="t")
        p.add_argument("--g.x", type=build_type(tspec), **kw)
        p.add_argument("--g.h.y", type=float, default=2.0)
        p.add_argument("--g.h.z", type=Optional[str], default=None)
    elif shape == "dataclass":
        p.add_argument("--d", type=make_dataclass(tspec, dobj, has_default))
    elif shape == "optdc":
        p.add_argument("--d", type=Optional[make_dataclass(tspec, dobj, has_default)], default=None)
    elif shape == "listdc":
        p.add_argument("--d", type=List[make_dataclass(tspec, dobj, has_default)], default=[])
    elif shape == "dictdc":
        p.add_argument("--d", type=Dict[str, make_dataclass(tspec, dobj, has_default)], default={})
    elif shape == "nesteddc":
        inner = make_dataclass(tspec, dobj, has_default)
        outer = dataclasses.make_dataclass("DCouter", [("i", inner, dataclasses.field(default_factory=inner)) if has_default else ("i", inner), ("m", int, dataclasses.field(default=0))])
        p.add_argument("--o", type=outer)
    elif shape == "classgroup":
        p.add_class_arguments(make_class(tspec, dobj, has_default), "k")
    elif shape == "funcgroup":
        fn = make_function(tspec, dobj, has_default)
        p.add_function_arguments(fn, "f")
    elif shape in SUB_PATHS:
        al = (lambda n: {"aliases": SUB_ALIASES[n]}) if "_alias" in shape else (lambda n: {})
        p.add_argument("--top", type=float, default=0.0)
        sc = p.add_subcommands()
        a = _new(mode, config=False)
        a.add_argument("--x", type=build_type(tspec), **kw)
        a.add_argument("--n", type=float, default=1.0)
        b = _new(mode, config=False)
        b.add_argument("--m", type=Optional[int], default=None)
        sc.add_subcommand("a", a, **al("a"))
        sc.add_subcommand("b", b, **al("b"))  # level order: both first-level subcommands before the second level
        sc2 = b.add_subcommands()
        c = _new(mode, config=False)
        c.add_argument("--y", type=build_type(tspec), **kw)
        d = _new(mode, config=False)
        d.add_argument("--z", type=Optional[str], default=None)
        sc2.add_subcommand("c", c, **al("c"))
        sc2.add_subcommand("d", d, **al("d"))
    elif shape == "link":
        T = build_type(tspec)
        p.add_argument("--src.x", type=T, **kw)
        p.add_argument("--dst.y", type=T)
        p.add_argument("--dst.k", type=int, default=1)
        p.link_arguments("src.x", "dst.y")
    elif shape == "inner":
        inner = _new(mode, config=False)
        inner.add_argument("--x", type=build_type(tspec), **kw)
        inner.add_argument("--n", type=float, default=1.0)
        p.add_argument("--inner", action=ActionParser(parser=inner))
        p.add_argument("--keep", type=str, default="keep")
    else:
        raise ValueError(shape)
    return p


def place_obj(shape, v):
    """The object handed to parse_object for a value that is not JSON (native Python objects)."""
    if shape == "listdc":
        return {"d": [{"x": v}, {"x": copy.deepcopy(v), "n": 2}]}
    if shape == "dictdc":
        return {"d": {"k": {"x": v}, "1": {"x": copy.deepcopy(v), "n": 2}}}
    return place(shape, _Opaque(v))[0]


class _Opaque:
    """Wrapper that lets `place` build its argv / env texts without looking at a native value."""

    def __init__(self, v):
        self.v = v


def _unwrap(o):
    if isinstance(o, _Opaque):
        return o.v
    if isinstance(o, dict):
        return {k: _unwrap(x) for k, x in o.items()}
    if isinstance(o, list):
        return [_unwrap(x) for x in o]
    return o


def place(shape, v):
    """Where the value goes: (object for parse_object / config text, argv list, environment dict or None)."""
    if isinstance(v, _Opaque):
        if shape in ("optdc", "listdc", "dictdc"):
            return {"d": {"x": v.v}}, None, None
        obj, _argv, _env = place(shape, "")
        return _subst_leaf(obj, v.v), None, None
    t = argv_text(v)
    if shape == "flat":
        return {"x": v}, ["--x=" + t], {"APP_X": t}
    if shape in NAME_SHAPES:
        return {NAME_SHAPES[shape]: v}, ["--" + NAME_SHAPES[shape] + "=" + t], {"APP_" + NAME_SHAPES[shape].upper(): t}
    if shape == "group":
        return {"g": {"x": v}}, ["--g.x=" + t], {"APP_G__X": t}
    if shape == "dataclass":
        return {"d": {"x": v}}, ["--d.x=" + t], None
    if shape == "optdc":
        return {"d": {"x": v}}, ["--d=" + json.dumps({"x": v}, ensure_ascii=False)], None
    if shape == "listdc":
        o = [{"x": v}, {"x": v, "n": 2}]
        return {"d": o}, ["--d=" + json.dumps(o, ensure_ascii=False)], None
    if shape == "dictdc":
        o = {"k": {"x": v}, "1": {"x": v, "n": 2}}
        return {"d": o}, ["--d=" + json.dumps(o, ensure_ascii=False)], None
    if shape == "nesteddc":
        return {"o": {"i": {"x": v}}}, ["--o.i.x=" + t], None
    if shape == "classgroup":
        return {"k": {"x": v}}, ["--k.x=" + t], None
    if shape == "funcgroup":
        return {"f": {"x": v}}, ["--f.x=" + t], None
    if shape in SUB_PATHS:
        names = SUB_PATHS[shape]
        if len(names) == 1:
            return {"subcommand": names[0], names[0]: {"x": v}}, [names[0], "--x=" + t], None
        return {names[0]: {names[1]: {"y": v}}}, names + ["--y=" + t], None
    if shape == "link":
        return {"src": {"x": v}}, ["--src.x=" + t], None
    if shape == "inner":
        return {"inner": {"x": v}}, ["--inner.x=" + t], None
    raise ValueError(shape)


AMBIENT_SHAPES = {  # shape -> (environment variable of the target argument, (variable, text) of a sibling argument)
    "flat": ("APP_X", ("APP_KEEP", "from-env")),
    "group": ("APP_G__X", ("APP_G__H__Y", "4.5")),
    "sub_a": ("APP_A__X", ("APP_TOP", "2.5")),
    "sub_bc": ("APP_B__C__Y", ("APP_B__M", "7")),
    "sub_a_alias": ("APP_A__X", ("APP_TOP", "2.5")),  # the variables are named after the primary names
    "sub_bc_alias": ("APP_B__C__Y", ("APP_B__M", "7")),
    "inner": ("APP_INNER__X", ("APP_KEEP", "from-env")),
}


ENVCONF = "envconf.yaml"


def ambient_env(spec, value, cwd):
    """-> (environment variables, files) in force for the whole life of a parser spec with "ambient": value.
    With "ambient_cfg" the environment names a config file (APP_CFG, absolute path) that holds the value."""
    shape = spec["shape"]
    name, (sib, sibtext) = AMBIENT_SHAPES[shape]
    if spec.get("ambient_cfg"):
        import os

        obj = place(shape, value)[0]
        if shape == "flat":
            obj = {**obj, "keep": "from-env-file"}
        return {"APP_CFG": os.path.join(cwd, ENVCONF)}, {ENVCONF: to_text(obj, spec.get("mode", "yaml"))}
    return {name: argv_text(value), sib: sibtext}, {}


def _subst_leaf(obj, v):
    """Replace the (single) "" placeholder leaf that `place(shape, "")` put at the target position."""
    if isinstance(obj, dict):
        return {k: _subst_leaf(x, v) for k, x in obj.items()}
    return v if obj == "" else obj


EMPTY = {  # the inputs that give nothing but what the parser declares
    "flat": ({}, []), "group": ({}, []), "dataclass": ({}, []), "optdc": ({}, []), "listdc": ({}, []), "dictdc": ({}, []),
    "nesteddc": ({}, []), "classgroup": ({}, []), "funcgroup": ({}, []), "link": ({}, []), "inner": ({}, []),
}  # fmt: skip
for _shape in NAME_SHAPES:
    EMPTY[_shape] = ({}, [])
for _shape, _names in SUB_PATHS.items():
    EMPTY[_shape] = ({"subcommand": _names[0]}, list(_names)) if len(_names) == 1 else ({_names[0]: {"subcommand": _names[1]}}, list(_names))

CHANNELS = ["object", "argv", "string"]
EMPTY_CHANNELS = ["noargs", "emptyobj", "emptystr"]
FILE_CHANNELS = ["cfgfile", "cfgfile+override", "parse_path", "default_config_file"]
# sub-command shapes with a default config file that selects the sub-command of the path and holds the value, while the
# command line selects ANOTHER sub-command (nearest sibling / first-level sibling)
SIBLING_CHANNELS = ["default_config_file+sibling", "default_config_file+sibling-top"]
ENV_CHANNELS = ["env"]
NATIVE_CHANNELS = ["object-native"]  # parse_object of already typed Python objects (value = JSON with descriptors)
# the value lives in a file of its own and the argument is given as the path of that file
OWNFILE_CHANNELS = ["argv@file", "object@file", "string@file", "cfgfile@file", "parse_path@file", "default_config_file@file"]
VAL = "sub/val.yaml"


def render(spec, channel, value, cwd):
    """-> (method, argument, files {relative name: text}, text_cwd or None) or None when not expressible."""
    shape = spec["shape"]
    if channel in EMPTY_CHANNELS:
        obj, argv = EMPTY[shape]
        if channel == "noargs":
            return "parse_args", list(argv), {}, None
        if channel == "emptyobj":
            return "parse_object", copy.deepcopy(obj), {}, None
        return "parse_string", json.dumps(obj), {}, None
    value = subst(value, cwd)
    if "nargs" in spec:
        return render_nargs(spec, channel, value)
    if channel == "argv-raw":
        if any("\x00" in a for a in value):
            return None
        return "parse_args", list(value), {}, None
    if channel == "object-native":
        return "parse_object", place_obj(shape, realise(value)), {}, None
    if channel in OWNFILE_CHANNELS:
        mode = spec.get("mode", "yaml")
        files = {VAL: to_text(value, mode)}
        how = channel.split("@")[0]
        if how in ("cfgfile", "parse_path"):  # the path is relative to the config file that names it
            files[CONF] = to_text(place(shape, VAL.split("/")[-1])[0], mode)
            return ("parse_args", ["--cfg", CONF], files, SUBDIR) if how == "cfgfile" else ("parse_path", CONF, files, SUBDIR)
        obj, argv, _env = place(shape, VAL)
        if how == "default_config_file":  # read by every parse of this parser while the input is judged
            return ("parse_args", list(EMPTY[shape][1]), {**files, DCF: to_text(obj, mode)}, SUBDIR) if spec.get("dcf") else None
        if how == "argv":
            return "parse_args", argv, files, SUBDIR
        if how == "object":
            return "parse_object", copy.deepcopy(obj), files, SUBDIR
        return "parse_string", to_text(obj, mode), files, SUBDIR
    obj, argv, env = place(shape, value)
    if channel == "object":
        return "parse_object", copy.deepcopy(obj), {}, None
    if channel == "argv":
        if any("\x00" in a for a in argv):
            return None
        return "parse_args", argv, {}, None
    text = to_text(obj, spec.get("mode", "yaml"))
    if channel == "string":
        return "parse_string", text, {}, None
    if channel == "cfgfile":
        return "parse_args", ["--cfg", CONF], {CONF: text}, SUBDIR
    if channel == "cfgfile+override":
        if shape != "flat":
            return None
        text2 = to_text({**obj, "keep": "from-file"}, spec.get("mode", "yaml"))
        return "parse_args", ["--cfg", CONF, "--keep=from-argv"], {CONF: text2}, SUBDIR
    if channel == "parse_path":
        return "parse_path", CONF, {CONF: text}, SUBDIR
    if channel == "default_config_file":
        if not spec.get("dcf"):
            return None
        return "parse_args", [], {DCF: text}, None
    if channel in SIBLING_CHANNELS:
        sib = SUB_SIBLINGS.get(shape, [])
        i = SIBLING_CHANNELS.index(channel)
        if not spec.get("dcf") or i >= len(sib):
            return None
        return "parse_args", list(sib[i]), {DCF: text}, None
    if channel == "env":
        if env is None or any("\x00" in v for v in env.values()):
            return None
        return "parse_env", env, {}, None
    raise ValueError(channel)


NARGS = ["+", "*", 2]
NARGS_CHANNELS = ["argv@file1", "object@file1"]  # one item of several in a file of its own, the others inline
NARGS_SHAPES = ("flat", "group", "sub_a", "sub_a_alias", "inner")
NARGS_ITEM_FILES = ["sub/val0.yaml", "sub/val1.yaml", "sub/val2.yaml"]


def render_nargs(spec, channel, items):
    """Inputs of a parser whose target argument is declared with nargs: the value is a list of ITEMS of the type.
    argv gives them as separate words after the option.  Channel "<how>@file": EVERY item lives in a file of its own and
    is given as the path of that file; "<how>@file1": only the item at index 1 does, the others are given inline."""
    shape, mode = spec["shape"], spec.get("mode", "yaml")
    if not isinstance(items, list):
        return None
    how, _, where = channel.partition("@")
    files, given = {}, list(items)
    if where:
        idx = range(len(items)) if where == "file" else [int(where[4:])]
        if len(items) > len(NARGS_ITEM_FILES) or not items or any(i >= len(items) for i in idx):
            return None
        for i in idx:
            files[NARGS_ITEM_FILES[i]] = to_text(items[i], mode)
            # a path named in a config file is relative to the directory of that file (sub/), otherwise to the cwd
            given[i] = NARGS_ITEM_FILES[i].split("/")[-1] if how in ("cfgfile", "parse_path") else NARGS_ITEM_FILES[i]
    text_cwd = SUBDIR if where else None
    obj, argv, _env = place(shape, given)
    if how == "object":
        return "parse_object", copy.deepcopy(obj), files, text_cwd
    if how == "argv":
        words = [argv_text(v) for v in given]
        if any("\x00" in w or w.startswith("-") for w in words):
            return None  # a word that starts with "-" is an option for argparse, not a value
        return "parse_args", argv[:-1] + [argv[-1].split("=", 1)[0]] + words, files, text_cwd
    text = to_text(obj, mode)
    if how == "string":
        return "parse_string", text, files, text_cwd
    if how == "cfgfile":
        return "parse_args", ["--cfg", CONF], {**files, CONF: text}, SUBDIR
    if how == "parse_path":
        return "parse_path", CONF, {**files, CONF: text}, SUBDIR
    raise ValueError(channel)


def nargs_values(t, n, quick):
    """Lists of items for an argument of element type t declared with nargs=n (lengths that n admits and, for the
    rejection side, one that it does not)."""
    if is_classlike(t):
        ip = [v for v in class_pool(t) if isinstance(v, dict)][: 3 if quick else 6]
    elif isinstance(t, str):
        ip = pool(t, wide=False)[: 4 if quick else 8]
    else:
        ip = [v for v in pool(t) if v not in ([], {}, None)][: 4 if quick else 8]
    out = [[v] for v in ip] + [[ip[0], ip[-1]], [ip[-1], ip[0]], [ip[0], ip[0]], [ip[0], ip[1 % len(ip)], ip[-1]], []]
    if isinstance(n, int):
        out = [v for v in out if len(v) == n] + [[ip[0]]]
    return dedupe(out)


def to_text(obj, mode):
    """Config text of a JSON value: JSON (every key and string quoted, so no resolver guesses), with non-finite floats
    spelled the way the yaml loader reads them (.nan / .inf) for yaml-mode parsers."""
    if mode != "yaml":
        return json.dumps(obj, ensure_ascii=False)

    def enc(v):
        if isinstance(v, float) and v != v:
            return ".nan"
        if isinstance(v, float) and v in (INF, -INF):
            return ".inf" if v > 0 else "-.inf"
        if isinstance(v, list):
            return "[" + ", ".join(enc(x) for x in v) + "]"
        if isinstance(v, dict):
            return "{" + ", ".join(json.dumps(str(k), ensure_ascii=False) + ": " + enc(x) for k, x in v.items()) + "}"
        return json.dumps(v, ensure_ascii=False)

    return enc(obj)


def supplied_paths(spec, channel):
    """Dotted key prefixes that the input itself supplies (everything else in the result comes from defaults)."""
    if channel in EMPTY_CHANNELS:
        return []
    shape = spec["shape"]
    if shape in NAME_SHAPES:
        return [NAME_SHAPES[shape]]
    if shape in SUB_PATHS:
        return [".".join(SUB_PATHS[shape] + ["x" if len(SUB_PATHS[shape]) == 1 else "y"])]
    return {
        "flat": ["x"], "group": ["g.x"], "dataclass": ["d.x"], "optdc": ["d"], "listdc": ["d"], "dictdc": ["d"], "nesteddc": ["o.i.x"],
        "classgroup": ["k.x"], "funcgroup": ["f.x"], "link": ["src.x", "dst.y"], "inner": ["inner.x"],
    }[shape] + (["keep"] if channel == "cfgfile+override" else [])  # fmt: skip


# ---------------------------------------------------------------------------------------------------
# the enumerated parser specs and their inputs


def g2_unary(leaves, ctors=("Optional", "List", "DictStr", "DictInt", "TupleVar", "Set")):
    return [[c, a] for a in leaves for c in ctors]


def g2_binary(leaves):
    out = []
    for a in leaves:
        for b in leaves:
            if a != b:
                out.append(["Union", a, b])
            out.append(["Tuple2", a, b])
    return out


EXTRA_UNIONS = [
    ["Union", "int", ["List", "int"]], ["Union", ["List", "int"], "int"], ["Union", "E", "ES"], ["Union", "ES", "str"], ["Union", "str", "ES"],
    ["Union", "Path_fr", "str"], ["Union", "str", "Path_fr"], ["Union", "pathlib.Path", "int"], ["Union", "Decimal", "str"],
    ["Union", "PositiveInt", "str"], ["Union", "PositiveInt", "float"], ["Union", "LitA", "int"], ["Union", "bool", "LitB"], ["Union", "Money", "int"], ["Union", "range", ["List", "int"]],
    ["Union", ["Tuple2", "int", "int"], ["List", "int"]], ["Union", ["DictStr", "int"], ["List", "int"]], ["Union", "E", ["List", "E"]],
    ["Union", "timedelta", "int"], ["Union", "complex", "float"], ["Union", "UUID", "str"], ["Union", "bytes", "str"],
]  # fmt: skip
EXTRA_CONTAINERS = [
    ["Sequence", "int"], ["Sequence", "E"], ["Mapping", "float"], ["OrderedDict", "int"], ["OrderedDict", "E"],
]  # fmt: skip
G3_LEAVES = ["int", "str", "float", "E"]


def g3_types(quick):
    out = []
    outer = ["Optional", "List", "DictStr"] if quick else ["Optional", "List", "DictStr", "TupleVar", "Set"]
    inner_leaves = ["float", "E"] if quick else G3_LEAVES + ["pathlib.Path", "Decimal"]
    for leaf in inner_leaves:
        inners = [["List", leaf], ["DictStr", leaf], ["Optional", leaf], ["Tuple2", leaf, "int"], ["TupleVar", leaf], ["Set", leaf], ["Union", leaf, "str"]]
        for inner in inners:
            for o in outer:
                if o == "Set":
                    continue  # sets of unhashable containers
                if o == "Optional" and inner[0] == "Optional":
                    continue
                out.append([o, inner])
    return out


SHAPE_TYPES = CORE + ["Decimal", "Path_fr", "pathlib.Path", ["Optional", "float"], ["Optional", "E"], ["List", "float"], ["List", "E"],
                      ["DictStr", "float"], ["DictInt", "int"], ["Union", "int", "str"], ["Tuple2", "float", "E"], ["Set", "int"], ["Set", "str"], "Any"]  # fmt: skip
SHAPE_TYPES_QUICK = ["float", "E", "Path_fr", ["Optional", "float"], ["List", "E"], ["DictStr", "float"], ["Tuple2", "float", "E"], ["Set", "str"], "Any"]


def parser_specs(tier):
    """-> list of tasks {"spec": parser spec, "inputs": [[channel, value], ...]}, simplest first."""
    quick = tier == "quick"
    tasks = []

    def add(shape, t, d, dform, inputs, mode="yaml", dcf=False, **extra):
        spec = {"shape": shape, "type": t, "default": d, "dform": dform, "mode": mode}
        if dcf:
            spec["dcf"] = True
        spec.update(extra)  # "ambient": value (process environment) [, "ambient_cfg": True], "enable_path": True
        tasks.append({"spec": spec, "inputs": inputs})

    def default_variants(ds, n):
        out = [(UNSET, "raw")]
        for d in ds[:n]:
            out += [(d, "raw"), (d, "typed")]
        return out

    def inputs_for(values, channels, empties=True):
        inp = [[c, None] for c in EMPTY_CHANNELS] if empties else []
        for v in values:
            for c in channels:
                inp.append([c, v])
        return inp

    file_ch = ["cfgfile", "parse_path", "cfgfile+override"]
    # G_1: every leaf, flat parser, wide pool without default; reduced pool with every declared default
    for leaf in LEAVES:
        ds = defaults(leaf)
        add("flat", leaf, UNSET, "raw", inputs_for(pool(leaf), CHANNELS) + inputs_for(pool(leaf, wide=False), file_ch + ENV_CHANNELS, empties=False))
        for d, dform in default_variants(ds, 2 if quick else len(ds))[1:]:
            near = [v for v in pool(leaf) if _loosely_equal(v, d)]
            add("flat", leaf, d, dform, inputs_for(dedupe(pool(leaf, wide=False) + near), CHANNELS))
        add("flat", leaf, UNSET, "raw", inputs_for(pool(leaf, wide=False), ["default_config_file"], empties=True), dcf=True)
        add("flat", leaf, UNSET, "raw", inputs_for(pool(leaf, wide=quick is False) if not quick else pool(leaf, wide=False), ["object", "argv", "string"]), mode="json")
    # G_2: unary constructors over every leaf; binary over the core leaves; hand-picked unions and containers
    g2 = g2_unary([x for x in LEAVES]) + g2_binary(CORE) + EXTRA_UNIONS + EXTRA_CONTAINERS
    for t in g2:
        if t[0] == "Set" and t[1] in UNHASHABLE:
            continue  # unhashable members (jsonargparse Path objects define __eq__ without __hash__)
        ds = defaults(t)
        core_only = all(a in CORE for a in t[1:] if isinstance(a, str)) and all(isinstance(a, str) for a in t[1:])
        for d, dform in default_variants(ds, 1 if quick else len(ds)):
            if quick and d != UNSET and not core_only and t[0] not in ("Optional", "List", "Union"):
                continue  # quick: declared defaults inside Dict/Tuple/Set only over the core leaves
            ch = CHANNELS if (not quick or (d == UNSET and core_only)) else ["object", "argv"]
            add("flat", t, d, dform, inputs_for(pool(t), ch))
        if not quick or (t[0] in ("List", "DictStr", "Set") and t[1] in CORE + ["Path_fr", "pathlib.Path"]):
            add("flat", t, UNSET, "raw", inputs_for(pool(t)[:12], ["cfgfile", "parse_path"], empties=False))
    # G_3 skeletons
    for t in g3_types(quick):
        vals = pool_g3(t)
        ds = [vals[1]] if len(vals) > 1 else []
        for d, dform in default_variants(ds, 1):
            add("flat", t, d, dform, inputs_for(vals, ["object", "argv"] if quick else CHANNELS))
    # structured parser shapes
    for shape in shapes(quick)[1:]:
        for t in SHAPE_TYPES_QUICK if quick else SHAPE_TYPES:
            vals = pool(t, wide=False) if isinstance(t, str) else pool(t)
            if quick:
                # the three shapes that generate a dataclass per item cost ~90 ms per state: 6 values there (trimmed
                # in round 4 to pay for the nargs axis), 10 elsewhere
                vals = vals[: 6 if shape in ("optdc", "listdc", "dictdc") else 10]
            ds = defaults(t)
            for d, dform in default_variants(ds, 1 if quick else 2):
                add(shape, t, d, dform, inputs_for(vals, CHANNELS + (["cfgfile"] if shape in ("group", "dataclass", "sub_a", "inner", "sub_a_alias", "sub_bc_alias") else [])))
    # class-like types: subclass specs, lazy instances, callables, Type[...], dataclass types
    class_types = ["Base", "Holder", "CallableII", "CallableBase", "CallableAny", "TypeBase"] + DATACLASSES
    class_types += [["Optional", "Base"], ["List", "Base"], ["DictStr", "Base"], ["Optional", "Mixed"], ["List", "Mixed"], ["DictStr", "Point"],
                    ["List", "CallableII"], ["Optional", "TypeBase"], ["List", "TypeBase"], ["Tuple2", "Base", "int"]]  # fmt: skip
    if not quick:
        class_types += [["Optional", "Holder"], ["List", "Holder"], ["DictStr", "Mixed"], ["Optional", "CallableBase"], ["List", "Outer"], ["Optional", "Req"]]
    for t in class_types:
        for i, d in enumerate(class_defaults(t)):
            full = i < (1 if t == "Holder" else 2) or not quick or (t in ("Base", ["Optional", "Base"]) and isinstance(d, dict) and "dict_kwargs" in d)
            ch = CHANNELS + ["cfgfile"] if full else ["object", "argv"]
            vals = class_pool(t)
            add("flat", t, d, "raw", inputs_for(vals if full else vals[:12], ch))
    for t in ["Base", "Mixed", "Holder"]:
        for shape in ["group", "sub_a", "dataclass", "listdc", "classgroup", "link", "sub_a_alias", "sub_bc_alias"] if not quick else ["group", "sub_a", "dataclass", "sub_a_alias"]:
            if quick and t == "Holder" and shape != "sub_a":
                continue
            for d in class_defaults(t)[: 1 if quick and t == "Holder" else 2]:
                vals = class_pool(t)
                add(shape, t, d, "raw", inputs_for(vals if not quick else vals[:12], ["object", "argv"]))
    # --- native values: already typed Python objects (built by Python constructors, not by the library) through
    # parse_object and as declared defaults ("native" form)
    for leaf in LEAVES:
        nat = native_pool(leaf)
        if not nat:
            continue
        add("flat", leaf, UNSET, "raw", inputs_for(nat, NATIVE_CHANNELS, empties=False))
        for d in nat[: 2 if quick else len(nat)]:
            add("flat", leaf, d, "native", inputs_for(pool(leaf, wide=False)[:2], ["object", "argv"]) + inputs_for(nat[:3], NATIVE_CHANNELS, empties=False))
        add("flat", leaf, UNSET, "raw", inputs_for(nat[:3], NATIVE_CHANNELS, empties=False), mode="json")
    for t in g2 + g3_types(quick):
        if t[0] == "Set" and t[1] in UNHASHABLE:
            continue
        nat = native_pool(t)
        if not nat:
            continue
        add("flat", t, UNSET, "raw", inputs_for(nat, NATIVE_CHANNELS, empties=False))
        if not quick or t[0] != "Union":
            add("flat", t, nat[0], "native", inputs_for(nat[:2], NATIVE_CHANNELS))
    for shape in shapes(quick)[1:]:
        for t in SHAPE_TYPES_QUICK if quick else SHAPE_TYPES:
            nat = native_pool(t)
            if nat:
                add(shape, t, UNSET, "raw", inputs_for(nat[:3], NATIVE_CHANNELS, empties=False))
                if shape in ("group", "dataclass", "classgroup", "sub_a", "sub_a_alias", "sub_bc_alias"):
                    add(shape, t, nat[0], "native", inputs_for(nat[:2], NATIVE_CHANNELS))
    # --- ambient environment: the parser reads os.environ (default_env=True) and the variables of the target
    # argument and of a sibling stay set for the first parse and for every transition; the inputs of the other
    # channels override them (or not: the no-argument inputs)
    amb_ch = CHANNELS + (["cfgfile+override"] if quick else ["cfgfile", "cfgfile+override"])
    for leaf in LEAVES:
        ds = defaults(leaf)
        vals = pool(leaf, wide=False)
        for a in ds[: (2 if leaf in CORE else 1) if quick else len(ds)]:
            add("flat", leaf, UNSET, "raw", inputs_for(vals[:4] if quick else vals, amb_ch), ambient=a)
        add("flat", leaf, ds[0], "raw", inputs_for(vals[:3] if quick else vals, CHANNELS), ambient=ds[-1])
    for t in g2_unary(CORE) + EXTRA_UNIONS[: 6 if quick else None] + EXTRA_CONTAINERS:
        ds = defaults(t)
        for a in ds[: 1 if quick else 2]:
            add("flat", t, UNSET, "raw", inputs_for(pool(t)[: 5 if quick else None], CHANNELS), ambient=a)
    for shape in AMBIENT_SHAPES:
        if shape == "flat":
            continue
        for t in SHAPE_TYPES_QUICK if quick else SHAPE_TYPES:
            vals = pool(t, wide=False) if isinstance(t, str) else pool(t)
            add(shape, t, UNSET, "raw", inputs_for(vals[: 4 if quick else 10], CHANNELS + ([] if quick else ["cfgfile"])), ambient=defaults(t)[0])
    for t in ["Base", "Mixed", ["Optional", "Base"]]:
        amb = class_pool(t)[3] if t != "Mixed" else DATACLASS_VALUES["Mixed"][1]
        add("flat", t, UNSET, "raw", inputs_for(class_pool(t)[: 6 if quick else None], CHANNELS), ambient=amb)
    for t in CORE + [["List", "float"], ["DictStr", "float"], ["Optional", "E"], ["Tuple2", "float", "E"], "Base"]:
        if t == "Base":
            amb, vals = class_pool(t)[3], class_pool(t)[:6]
        else:
            amb, vals = defaults(t)[0], (pool(t, wide=False) if isinstance(t, str) else pool(t))[: 4 if quick else 10]
        add("flat", t, UNSET, "raw", inputs_for(vals, CHANNELS + ["cfgfile+override"]), ambient=amb, ambient_cfg=True)
    # --- values in a file of their own: the argument is given as the path of a file that holds the value
    # (enable_path=True; dataclass / class groups load paths anyway), so the parse result carries nested metadata
    own_types = [["DictStr", x] for x in CORE] + [["DictInt", "int"], ["Mapping", "float"], ["OrderedDict", "int"], "Any", "MappingProxy",
                 ["List", "float"], ["List", "E"], ["Tuple2", "float", "E"], ["Set", "str"], ["List", ["DictStr", "float"]],
                 ["Optional", ["DictStr", "float"]], ["DictStr", ["List", "float"]], ["DictStr", ["DictStr", "float"]],
                 ["Union", ["DictStr", "int"], ["List", "int"]], ["Union", "int", ["DictStr", "int"]]]  # fmt: skip
    for t in own_types:
        vals = pool(t, wide=False) if isinstance(t, str) else (pool_g3(t) if t[0] != "Union" and not isinstance(t[1], str) else pool(t))
        vals = [v for v in vals if not isinstance(v, str)][: 5 if quick else 12]
        add("flat", t, UNSET, "raw", inputs_for(vals, OWNFILE_CHANNELS[:5], empties=False), enable_path=True)
        add("flat", t, defaults(t)[0], "raw", inputs_for(vals[:3], OWNFILE_CHANNELS[:2], empties=False), enable_path=True)
        add("flat", t, UNSET, "raw", inputs_for(vals[:4], OWNFILE_CHANNELS[5:], empties=False), dcf=True, enable_path=True)
        if t[0] == "DictStr" and not quick or t == ["DictStr", "float"]:
            for shape in ("group", "sub_a", "inner", "sub_a_alias"):
                add(shape, t, UNSET, "raw", inputs_for(vals, OWNFILE_CHANNELS[:5], empties=False), enable_path=True)
    for t in ["Base", "Holder", "Point", "Mixed", "Outer", ["Optional", "Base"], ["Optional", "Mixed"], ["List", "Base"], ["DictStr", "Point"], ["DictStr", "Base"]]:
        vals = [v for v in class_pool(t) if not isinstance(v, str) and v is not None][: 4 if quick else 12]
        for d in class_defaults(t)[: 1 if quick else 2]:
            add("flat", t, d, "raw", inputs_for(vals, ["argv@file", "object@file", "cfgfile@file"] if quick else OWNFILE_CHANNELS[:5], empties=False), enable_path=True)
        add("flat", t, UNSET, "raw", inputs_for(vals[:3], OWNFILE_CHANNELS[5:], empties=False), dcf=True, enable_path=True)
    # --- sub-command shapes with a default config file: it selects the sub-command of the path and holds the value;
    # the command line gives nothing / the same sub-command with a value / ANOTHER sub-command
    for shape in [x for x in shapes(quick) if x in SUB_PATHS]:
        for t in ["float", "E", ["List", "E"]] if quick else SHAPE_TYPES:
            vals = (pool(t, wide=False) if isinstance(t, str) else pool(t))[: 3 if quick else 8]
            add(shape, t, UNSET, "raw", inputs_for(vals, ["default_config_file"] + SIBLING_CHANNELS, empties=True), dcf=True)
    # --- arguments named like attributes of the Namespace class
    for shape in NAME_SHAPES if not quick else list(NAME_SHAPES)[:4]:
        for t in (["float", "E", ["List", "E"], ["Optional", "float"]] if quick else SHAPE_TYPES):
            vals = (pool(t, wide=False) if isinstance(t, str) else pool(t))[: 4 if quick else 10]
            ds = defaults(t)
            for d, dform in default_variants(ds, 1)[: 2 if quick else 3]:
                add(shape, t, d, dform, inputs_for(vals, CHANNELS + ["cfgfile"]))
    # --- the target argument declared with nargs: its value is a list of items of the type.  Items inline (all
    # channels), and - with enable_path - every item / one item of several in a file of its own: the result then carries
    # metadata INSIDE THE ITEMS OF A LIST
    nargs_types = ["float", "E", "str", "Path_fr", "Decimal", ["Optional", "float"], ["DictStr", "float"], ["List", "E"], ["Tuple2", "float", "E"], "Any", "Base", ["Optional", "Point"]]
    for n in NARGS:
        for t in nargs_types if not quick or n == "+" else ["float", "E", ["DictStr", "float"], "Any"]:
            vals = nargs_values(t, n, quick)
            add("flat", t, UNSET, "raw", inputs_for(vals, CHANNELS + ["cfgfile"]), nargs=n)
            if not is_classlike(t) and (not quick or n == "+"):
                d = next(v for v in vals if len(v) == (n if isinstance(n, int) else 2))
                for dd, dform in default_variants([d], 1)[1:]:
                    add("flat", t, dd, dform, inputs_for(vals[:4], ["object", "argv"]), nargs=n)
            if not quick and n != 2 or t == "E":
                add("flat", t, UNSET, "raw", inputs_for(vals, CHANNELS), nargs=n, mode="json")
    file_item_types = [["DictStr", "float"], ["DictStr", "E"], "Any", "MappingProxy", ["List", "float"], ["Union", "int", ["DictStr", "int"]], "Base", ["Optional", "Point"], ["Optional", "Mixed"]]
    item_file_ch = ["argv@file", "object@file", "string@file", "cfgfile@file"] + NARGS_CHANNELS + ([] if quick else ["parse_path@file", "string@file1"])
    for n in NARGS:
        for t in file_item_types if not quick or n == "+" else [["DictStr", "float"], "Any"]:
            vals = [v for v in nargs_values(t, n, quick) if v and all(isinstance(i, (dict, list)) for i in v)]
            add("flat", t, UNSET, "raw", inputs_for(vals if n == "+" or not quick else vals[-3:], item_file_ch, empties=False), nargs=n, enable_path=True)
    for shape in NARGS_SHAPES[1:]:
        for t in ["E", ["DictStr", "float"]]:
            vals = nargs_values(t, "+", quick)
            add(shape, t, UNSET, "raw", inputs_for(vals, ["object", "argv", "string"]), nargs="+")
        vals = [v for v in nargs_values(["DictStr", "float"], "+", quick) if v]
        add(shape, ["DictStr", "float"], UNSET, "raw", inputs_for(vals, item_file_ch[:3] + NARGS_CHANNELS[:1], empties=False), nargs="+", enable_path=True)
    # argv-only spellings: appends, nested keys, repeated options
    for t, items in ARGV_RAW:
        add("flat", t, UNSET, "raw", [["argv-raw", a] for a in items])
        d0 = class_defaults(t)[1] if is_classlike(t) else defaults(t)[0]
        add("flat", t, d0, "raw", [["argv-raw", a] for a in items])
    seen, out = set(), []
    for task in tasks:
        k = json.dumps(task["spec"], sort_keys=True)
        if k in seen:
            # same parser spec declared twice: merge the inputs
            prev = next(x for x in out if json.dumps(x["spec"], sort_keys=True) == k)
            have = {json.dumps(i, sort_keys=True) for i in prev["inputs"]}
            prev["inputs"] += [i for i in task["inputs"] if json.dumps(i, sort_keys=True) not in have]
            continue
        seen.add(k)
        out.append(task)
    out.sort(key=lambda x: (len(json.dumps(x["spec"])), json.dumps(x["spec"], sort_keys=True)))
    if not quick:
        # hash-seed axis: every spec whose values can hold a set is run again under PYTHONHASHSEED=1 and 2
        sety = [x for x in out if "Set" in json.dumps(x["spec"]["type"]) or x["spec"]["type"] in ("Base", "Holder", "CallableBase")]
        for hs in (1, 2):
            out += [{"spec": x["spec"], "inputs": x["inputs"], "hashseed": hs} for x in sety]
    return out


UNHASHABLE = ("Any", "bytearray", "MappingProxy", "Path_fr", "Path_fc", "Path_dc", "Path_dw", "PathLike")

ARGV_RAW = [
    (["List", "float"], [["--x+=1"], ["--x+=1", "--x+=2"], ["--x=[1]", "--x+=[2, 3]"], ["--x=[1]", "--x=[2]"]]),
    (["List", "E"], [["--x+=A"], ["--x=[A]", "--x+=B"]]),
    (["DictStr", "float"], [["--x.a=1"], ["--x.a=1", "--x.b=2"], ["--x={\"a\": 1}", "--x.b=2"], ["--x={\"a\": 1}", "--x={\"b\": 2}"]]),
    (["DictInt", "int"], [["--x.1=1"], ["--x.1=1", "--x.2=2"]]),
    ("Base", [["--x=SubA", "--x.a=3"], ["--x=SubA", "--x.init_args.s=q"], ["--x=SubD", "--x.lr=2", "--x.mode=A"], ["--x=SubA", "--x=SubB"],
              ["--x=SubA", "--x.a=4", "--x=SubB"], ["--x=SubK", "--x.dict_kwargs.z=1"], ["--x.a=6"], ["--x=SubB", "--x.inner=Inner", "--x.inner.v=2"]]),
    ("Holder", [["--x=Holder", "--x.child=SubD", "--x.child.lr=4"], ["--x.child.a=3"], ["--x.k=1", "--x.other=SubA"]]),
    (["List", "Base"], [["--x+=SubA"], ["--x+=SubA", "--x+=SubD"], ["--x+=SubA", "--x.a=3"]]),
    ("Mixed", [["--x.f=2"], ["--x.f=2", "--x.e=B"], ["--x={\"f\": 3}", "--x.t=[2, \"b\"]"]]),
    ("CallableBase", [["--x=SubA", "--x.s=q"], ["--x=SubD", "--x.lr=2"]]),
]  # fmt: skip


def pool_g3(t):
    """Values for a depth-3 type: built from the first values of the inner pool."""
    ctor, inner = t[0], t[1]
    ip = pool(inner)[:10]
    if ctor == "Optional":
        return dedupe(ip + [None])
    if ctor in ("List", "TupleVar", "Set"):
        return dedupe([[]] + [[v] for v in ip] + [ip[:2], ip[1:3][::-1]])
    if ctor == "DictStr":
        return dedupe([{}] + [{"k": v} for v in ip] + [{"b": ip[0], "a": ip[1]}])
    raise ValueError(t)


def _loosely_equal(v, d):
    try:
        if isinstance(v, float) and v != v:
            return False
        return v == d or str(v) == str(d)
    except Exception:
        return False
