"""C20 part B - restricted string types: patterns x token strings x {direct call, argv, parse_object}.

Oracle: a hand-written predicate per pattern that spells out the language "a match of the pattern starts at the
first character" (the documented `regex the string must match`, i.e. re.match), cross-checked against re.match on
every string (a disagreement between the two references is a harness error, never a verdict).
"""
from __future__ import annotations

import itertools
import re

UP = "ABCDEFGHIJKLMNOPQRSTUVWXYZ"
LOW = "abcdefghijklmnopqrstuvwxyz"


def _p_two_upper(s):
    core = s[:-1] if len(s) == 3 and s[2] == "\n" else s
    return len(core) == 2 and core[0] in UP and core[1] in UP


def _p_lower_prefix(s):
    return len(s) >= 1 and s[0] in LOW


def _p_b_prefix(s):
    return s.startswith("b")


def _p_any(s):
    return True


def _p_empty(s):
    return s in ("", "\n")


def _p_ml_b(s):
    return s == "b" or s.startswith("b\n")


def _p_dot_plus(s):
    return len(s) >= 1 and s[0] != "\n"


def _p_dotall_plus(s):
    return len(s) >= 1


def _p_ab_icase(s):
    core = s[:-1] if len(s) == 3 and s[2] == "\n" else s
    return len(core) == 2 and core[0] in "aA" and core[1] in "bB"


def _p_not_empty(s):
    # ^.*[^ ].*$ : A c B T with A, B free of newlines, c any character but a space, T empty or one final newline
    for i, c in enumerate(s):
        if c == " " or "\n" in s[:i]:
            continue
        rest = s[i + 1 :]
        if "\n" not in rest or (rest.endswith("\n") and "\n" not in rest[:-1]):
            return True
    return False


def _p_email(s):
    # ^[^@ ]+@[^@ ]+\.[^@ ]+$ : exactly one @, no space, non-empty local part, a dot strictly inside the rest
    if s.count("@") != 1 or " " in s:
        return False
    local, rest = s.split("@")
    return len(local) >= 1 and any(rest[i] == "." for i in range(1, len(rest) - 1))


def _p_a_or_ab_end(s):
    # a|ab$ : alternation, first branch wins at the start -> anything starting with "a"
    return s.startswith("a")


# id -> (how the type is obtained, pattern text, flags, language predicate, class of pattern)
PATTERNS = {
    "two-upper": ("new", r"^[A-Z]{2}$", 0, _p_two_upper, "anchored"),
    "lower-prefix": ("new", r"[a-z]+", 0, _p_lower_prefix, "unanchored"),
    "b-prefix": ("new", r"b", 0, _p_b_prefix, "unanchored"),
    "a-star": ("new", r"a*", 0, _p_any, "empty-matching"),
    "empty": ("new", r"^$", 0, _p_empty, "empty-matching"),
    "multiline-b": ("new", r"(?m)^b$", 0, _p_ml_b, "multi-line"),
    "dot-plus": ("new", r".+", 0, _p_dot_plus, "unanchored"),
    "dotall-plus": ("new", r"(?s).+", 0, _p_dotall_plus, "multi-line"),
    "ab-icase-compiled": ("compiled", r"^ab$", re.IGNORECASE, _p_ab_icase, "anchored"),
    "a-or-ab": ("new", r"a|ab$", 0, _p_a_or_ab_end, "unanchored"),
    "NotEmptyStr": ("predef", r"^.*[^ ].*$", 0, _p_not_empty, "anchored"),
    "Email": ("predef", r"^[^@ ]+@[^@ ]+\.[^@ ]+$", 0, _p_email, "anchored"),
}

TOKENS = ["a", "b", "A", "B", "ab", "AB", "z", "1", " ", "\n", "@", ".", "a@b", ".z", "é"]


def strings(tier):
    k = 2 if tier == "quick" else 3
    seen, out = set(), []
    for n in range(0, k + 1):
        for combo in itertools.product(TOKENS, repeat=n):
            s = "".join(combo)
            if s not in seen:
                seen.add(s)
                out.append(s)
    return out


def make_type(pid):
    import jsonargparse.typing as JT

    how, pattern, flags, _, _ = PATTERNS[pid]
    if how == "predef":
        return getattr(JT, pid)
    name = "C20_str_" + pid.replace("-", "_")
    regex = re.compile(pattern, flags) if how == "compiled" else pattern
    return JT.restricted_string_type(name, regex)


def relation(pid, s):
    """Shape of (pattern, string): where the pattern matches - names the class of a failing input."""
    _, pattern, flags, _, _ = PATTERNS[pid]
    rx = re.compile(pattern, flags)
    if rx.fullmatch(s):
        return "fullmatch"
    if rx.match(s):
        return "prefix-match-only"
    if rx.search(s):
        return "match-later-only"
    return "no-match"


def expect(pid, s):
    _, pattern, flags, pred, _ = PATTERNS[pid]
    want = bool(pred(s))
    ref = re.compile(pattern, flags).match(s) is not None
    if want != ref:
        from mc.core import HarnessError

        raise HarnessError(f"C20 string oracle: hand-written language of {pid} disagrees with re.match on {s!r}")
    return want


def observe(T, parser, pid, s):
    from mc.checks.c20_num import call_direct, call_parser

    want = expect(pid, s)
    out = {}
    ops = 0

    def judge(got):
        if got[0] == "escape":
            return "escape-" + got[1]
        if want:
            if got[0] == "reject":
                return "rejected"
            v = got[1]
            if not isinstance(v, str) or str(v) != s:
                return "wrong-value"
            return None
        return "accepted" if got[0] == "ok" else None

    got = call_direct(T, s)
    ops += 1
    v = judge(got)
    if v is None and got[0] == "ok":
        again = call_direct(T, got[1])
        plain = call_direct(T, str(got[1]))
        ops += 2
        for g in (again, plain):
            if g[0] != "ok" or type(g[1]) is not type(got[1]) or g[1] != got[1]:
                v = "not-idempotent"
    out["direct"] = (v, got)
    got = call_parser(parser.parse_args, ["--x=" + s])
    ops += 1
    out["argv"] = (judge(got), got)
    got = call_parser(parser.parse_object, {"x": s})
    ops += 1
    v = judge(got)
    if v is None and got[0] == "ok":
        again = call_parser(parser.parse_object, {"x": got[1]})
        ops += 1
        if again[0] != "ok" or type(again[1]) is not type(got[1]) or again[1] != got[1]:
            v = "not-idempotent"
    out["object"] = (v, got)
    return want, out, ops


def signatures(pid, s, want, out):
    devs = []
    direct_v = out["direct"][0]
    for ch, (v, got) in out.items():
        if v is None or (ch != "direct" and v == direct_v):
            continue
        detail = "%s %s /%s/ on %r: oracle %s, observed %r" % (
            ch, pid, PATTERNS[pid][1], s, "accept" if want else "reject", got)
        devs.append(("str:%s:%s:%s" % (ch, v, relation(pid, s)), detail))
    return devs


def run_pattern(arg):
    import jsonargparse as J
    from mc.checks.c20_num import build_parser

    pid, tier, lo, hi = arg
    res = {"devs": [], "evals": 0, "ops": 0, "accepted": 0, "rejected": 0, "inputs": 0, "nontrivial": 0,
           "relations": set()}
    try:
        T = make_type(pid)
        parser = build_parser(T, J)
    except Exception as ex:
        res["devs"].append(("str:create-raises:" + type(ex).__name__, {"part": "str", "pattern": pid, "value": None}, repr(ex)))
        return res
    for s in strings(tier)[lo:hi]:
        want, out, ops = observe(T, parser, pid, s)
        res["inputs"] += 1
        res["evals"] += len(out)
        res["ops"] += ops
        res["accepted" if want else "rejected"] += len(out)
        rel = relation(pid, s)
        res["relations"].add(rel)
        if s != "" and rel != "no-match":
            res["nontrivial"] += len(out)
        for sig, detail in signatures(pid, s, want, out):
            res["devs"].append((sig, {"part": "str", "pattern": pid, "value": s}, detail))
    return res


def run_case(case):
    import jsonargparse as J
    from mc.checks.c20_num import build_parser

    pid, s = case["pattern"], case["value"]
    try:
        T = make_type(pid)
        parser = build_parser(T, J)
    except Exception as ex:
        return [{"signature": "str:create-raises:" + type(ex).__name__, "detail": repr(ex)}]
    if s is None:
        return []
    want, out, _ = observe(T, parser, pid, s)
    return [{"signature": sig, "detail": d} for sig, d in signatures(pid, s, want, out)]
