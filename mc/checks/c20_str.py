"""C20 part B - restricted string types: patterns x token strings x {direct call, argv, parse_object}.

Oracle: a hand-written predicate per pattern that spells out the language "a match of the pattern starts at the
first character" (the documented `regex the string must match`, i.e. re.match), cross-checked against re.match on
every string (a disagreement between the two references is a harness error, never a verdict).
"""
from __future__ import annotations

import itertools
import re

UP = "ABCDEFGHIJKLMNOPQRSTUVWXYZ"
LOW = "abcdefghijklmnopqrstuvwxyz"


def _p_two_upper(s):
    core = s[:-1] if len(s) == 3 and s[2] == "\n" else s
    return len(core) == 2 and core[0] in UP and core[1] in UP


def _p_lower_prefix(s):
    return len(s) >= 1 and s[0] in LOW


def _p_b_prefix(s):
    return s.startswith("b")


def _p_any(s):
    return True


def _p_empty(s):
    return s in ("", "\n")


def _p_ml_b(s):
    return s == "b" or s.startswith("b\n")


def _p_dot_plus(s):
    return len(s) >= 1 and s[0] != "\n"


def _p_dotall_plus(s):
    return len(s) >= 1


def _p_ab_icase(s):
    core = s[:-1] if len(s) == 3 and s[2] == "\n" else s
    return len(core) == 2 and core[0] in "aA" and core[1] in "bB"


def _p_ab_exact(s):
    return s in ("ab", "ab\n")


def _p_not_empty(s):
    # ^.*[^ ].*$ : A c B T with A, B free of newlines, c any character but a space, T empty or one final newline
    for i, c in enumerate(s):
        if c == " " or "\n" in s[:i]:
            continue
        rest = s[i + 1 :]
        if "\n" not in rest or (rest.endswith("\n") and "\n" not in rest[:-1]):
            return True
    return False


def _p_email(s):
    # ^[^@ ]+@[^@ ]+\.[^@ ]+$ : exactly one @, no space, non-empty local part, a dot strictly inside the rest
    if s.count("@") != 1 or " " in s:
        return False
    local, rest = s.split("@")
    return len(local) >= 1 and any(rest[i] == "." for i in range(1, len(rest) - 1))


def _p_a_or_ab_end(s):
    # a|ab$ : alternation, first branch wins at the start -> anything starting with "a"
    return s.startswith("a")


# id -> (how the type is obtained, pattern text, flags, language predicate, class of pattern)
PATTERNS = {
    "two-upper": ("new", r"^[A-Z]{2}$", 0, _p_two_upper, "anchored"),
    "lower-prefix": ("new", r"[a-z]+", 0, _p_lower_prefix, "unanchored"),
    "b-prefix": ("new", r"b", 0, _p_b_prefix, "unanchored"),
    "a-star": ("new", r"a*", 0, _p_any, "empty-matching"),
    "empty": ("new", r"^$", 0, _p_empty, "empty-matching"),
    "multiline-b": ("new", r"(?m)^b$", 0, _p_ml_b, "multi-line"),
    "dot-plus": ("new", r".+", 0, _p_dot_plus, "unanchored"),
    "dotall-plus": ("new", r"(?s).+", 0, _p_dotall_plus, "multi-line"),
    "ab-icase-compiled": ("compiled", r"^ab$", re.IGNORECASE, _p_ab_icase, "anchored"),
    # one compiled pattern per flag that changes the language (the given Pattern object, flags included, must decide)
    "ab-verbose-compiled": ("compiled", r"^ a b $  # two letters", re.VERBOSE, _p_ab_exact, "anchored"),
    "dotall-plus-compiled": ("compiled", r"..*", re.DOTALL, _p_dotall_plus, "multi-line"),
    "multiline-b-compiled": ("compiled", r"^b$", re.MULTILINE, _p_ml_b, "multi-line"),
    "a-or-ab": ("new", r"a|ab$", 0, _p_a_or_ab_end, "unanchored"),
    "NotEmptyStr": ("predef", r"^.*[^ ].*$", 0, _p_not_empty, "anchored"),
    "Email": ("predef", r"^[^@ ]+@[^@ ]+\.[^@ ]+$", 0, _p_email, "anchored"),
}

TOKENS = ["a", "b", "A", "B", "ab", "AB", "z", "1", " ", "\n", "@", ".", "a@b", ".z", "é"]


def strings(tier):
    k = 2 if tier == "quick" else 3
    seen, out = set(), []
    for n in range(0, k + 1):
        for combo in itertools.product(TOKENS, repeat=n):
            s = "".join(combo)
            if s not in seen:
                seen.add(s)
                out.append(s)
    return out


def make_type(pid):
    import jsonargparse.typing as JT

    how, pattern, flags, _, _ = PATTERNS[pid]
    if how == "predef":
        return getattr(JT, pid)
    name = "C20_str_" + pid.replace("-", "_")
    regex = re.compile(pattern, flags) if how == "compiled" else pattern
    return JT.restricted_string_type(name, regex)


def relation(pid, s):
    """Shape of (pattern, string): where the pattern matches - names the class of a failing input."""
    _, pattern, flags, _, _ = PATTERNS[pid]
    rx = re.compile(pattern, flags)
    if rx.fullmatch(s):
        return "fullmatch"
    if rx.match(s):
        return "prefix-match-only"
    if rx.search(s):
        return "match-later-only"
    return "no-match"


def expect(pid, s):
    _, pattern, flags, pred, _ = PATTERNS[pid]
    want = bool(pred(s))
    ref = re.compile(pattern, flags).match(s) is not None
    if want != ref:
        from mc.core import HarnessError

        raise HarnessError(f"C20 string oracle: hand-written language of {pid} disagrees with re.match on {s!r}")
    return want


def observe(T, parser, pid, s):
    from mc.checks.c20_num import call_direct, call_parser

    want = expect(pid, s)
    out = {}
    ops = 0

    def judge(got):
        if got[0] == "escape":
            return "escape-" + got[1]
        if want:
            if got[0] == "reject":
                return "rejected"
            v = got[1]
            if not isinstance(v, str) or str(v) != s:
                return "wrong-value"
            return None
        return "accepted" if got[0] == "ok" else None

    got = call_direct(T, s)
    ops += 1
    v = judge(got)
    if v is None and got[0] == "ok":
        again = call_direct(T, got[1])
        plain = call_direct(T, str(got[1]))
        ops += 2
        for g in (again, plain):
            if g[0] != "ok" or type(g[1]) is not type(got[1]) or g[1] != got[1]:
                v = "not-idempotent"
    out["direct"] = (v, got)
    got = call_parser(parser.parse_args, ["--x=" + s])
    ops += 1
    out["argv"] = (judge(got), got)
    got = call_parser(parser.parse_object, {"x": s})
    ops += 1
    v = judge(got)
    if v is None and got[0] == "ok":
        again = call_parser(parser.parse_object, {"x": got[1]})
        ops += 1
        if again[0] != "ok" or type(again[1]) is not type(got[1]) or again[1] != got[1]:
            v = "not-idempotent"
    out["object"] = (v, got)
    return want, out, ops


def signatures(pid, s, want, out):
    devs = []
    direct_v = out["direct"][0]
    for ch, (v, got) in out.items():
        if v is None or (ch != "direct" and v == direct_v):
            continue
        detail = "%s %s /%s/ on %r: oracle %s, observed %r" % (
            ch, pid, PATTERNS[pid][1], s, "accept" if want else "reject", got)
        devs.append(("str:%s:%s:%s" % (ch, v, relation(pid, s)), detail))
    return devs


def run_pattern(arg):
    import jsonargparse as J
    from mc.checks.c20_num import build_parser

    pid, tier, lo, hi = arg
    res = {"devs": [], "evals": 0, "ops": 0, "accepted": 0, "rejected": 0, "inputs": 0, "nontrivial": 0,
           "relations": set()}
    try:
        T = make_type(pid)
        parser = build_parser(T, J)
    except Exception as ex:
        res["devs"].append(("str:create-raises:" + type(ex).__name__, {"part": "str", "pattern": pid, "value": None}, repr(ex)))
        return res
    for s in strings(tier)[lo:hi]:
        want, out, ops = observe(T, parser, pid, s)
        res["inputs"] += 1
        res["evals"] += len(out)
        res["ops"] += ops
        res["accepted" if want else "rejected"] += len(out)
        rel = relation(pid, s)
        res["relations"].add(rel)
        if s != "" and rel != "no-match":
            res["nontrivial"] += len(out)
        for sig, detail in signatures(pid, s, want, out):
            res["devs"].append((sig, {"part": "str", "pattern": pid, "value": s}, detail))
    return res


# ------------------------------------------------------------------------------------------------------
# creation histories: the same pattern text given twice under one name, as text / compiled / compiled with a flag.
# The type returned by the second call must follow the regex given to the second call (a refusal to create it,
# ValueError, is not judged). Every history has its own pattern text (no-op groups appended), so the global type
# registry of a worker process holds nothing about it beforehand and a fresh process reproduces it.


def _p_dot_b(s):
    return len(s) >= 2 and s[0] != "\n" and s[1] == "b"


def _p_dotall_b(s):
    return len(s) >= 2 and s[1] == "b"


HIST_BASES = {
    "ab": (r"^ab$", re.IGNORECASE, _p_ab_exact, _p_ab_icase),
    "dot-b": (r".b", re.DOTALL, _p_dot_b, _p_dotall_b),
}
HIST_FORMS = ["text", "compiled", "compiled-flag"]
HISTORIES = [(b, f1, f2) for b in HIST_BASES for f1 in HIST_FORMS for f2 in HIST_FORMS]


def _hist_regex(hid, which, pad=0):
    base, forms = HISTORIES[hid][0], HISTORIES[hid][1:]
    text, flag, p_plain, p_flag = HIST_BASES[base]
    k = hid + 1 + pad
    text = text[:-1] + "(?:)" * k + "$" if text.endswith("$") else text + "(?:)" * k
    form = forms[which]
    flags = flag if form == "compiled-flag" else 0
    return (text if form == "text" else re.compile(text, flags)), re.compile(text, flags), (p_flag if flags else p_plain)


def observe_history(hid, s):
    import jsonargparse.typing as JT
    from mc.checks.c20_num import call_direct

    name = "C20_hist_%d" % hid
    given1, _, _ = _hist_regex(hid, 0)
    given2, ref, pred = _hist_regex(hid, 1)
    want = bool(pred(s))
    if want != (ref.match(s) is not None):
        from mc.core import HarnessError

        raise HarnessError(f"C20 string oracle: hand-written language of history {HISTORIES[hid]} disagrees with re.match on {s!r}")
    JT.restricted_string_type(name, given1)
    try:
        T2 = JT.restricted_string_type(name, given2)
    except ValueError:
        return want, "refused", None

    def judge(got):
        if got[0] == "escape":
            return "escape-" + got[1]
        if want:
            if got[0] == "reject":
                return "rejected"
            return None if isinstance(got[1], str) and str(got[1]) == s else "wrong-value"
        return "accepted" if got[0] == "ok" else None

    got = call_direct(T2, s)
    verdict = judge(got)
    if verdict is not None:
        # control: the same regex given once, under a name and a pattern text of its own; the same deviation there is
        # not a matter of the history (root cause reported by the pattern product under str:direct)
        control = JT.restricted_string_type(name + "_once", _hist_regex(hid, 1, pad=len(HISTORIES))[0])
        if judge(call_direct(control, s)) == verdict:
            verdict = None
    return want, verdict, got


def history_signature(hid, s, want, verdict, got):
    base, f1, f2 = HISTORIES[hid]
    flags_differ = (f1 == "compiled-flag") != (f2 == "compiled-flag")
    shape = "same-text-other-flags" if flags_differ else ("same-regex-other-form" if f1 != f2 else "same-regex")
    detail = "restricted_string_type(name, <%s>) then (same name, <%s>) of /%s/: second type on %r: oracle %s, observed %r" % (
        f1, f2, HIST_BASES[base][0], s, "accept" if want else "reject", got)
    return "str:recreate:%s:%s" % (verdict, shape), detail


def run_history(arg):
    hid, tier = arg
    res = {"devs": [], "evals": 0, "ops": 0, "accepted": 0, "rejected": 0, "inputs": 0, "nontrivial": 0,
           "refused": 0, "hist": 1}
    for s in strings("quick"):
        want, verdict, got = observe_history(hid, s)
        res["inputs"] += 1
        res["evals"] += 1
        res["ops"] += 3
        res["accepted" if want else "rejected"] += 1
        if want:
            res["nontrivial"] += 1
        if verdict == "refused":
            res["refused"] += 1
        elif verdict is not None:
            sig, detail = history_signature(hid, s, want, verdict, got)
            res["devs"].append((sig, {"part": "str", "history": hid, "value": s}, detail))
    return res


def run_case(case):
    if "history" in case:
        want, verdict, got = observe_history(case["history"], case["value"])
        if verdict in (None, "refused"):
            return []
        sig, detail = history_signature(case["history"], case["value"], want, verdict, got)
        return [{"signature": sig, "detail": detail}]
    import jsonargparse as J
    from mc.checks.c20_num import build_parser

    pid, s = case["pattern"], case["value"]
    try:
        T = make_type(pid)
        parser = build_parser(T, J)
    except Exception as ex:
        return [{"signature": "str:create-raises:" + type(ex).__name__, "detail": repr(ex)}]
    if s is None:
        return []
    want, out, _ = observe(T, parser, pid, s)
    return [{"signature": sig, "detail": d} for sig, d in signatures(pid, s, want, out)]
