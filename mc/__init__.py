"""Bounded exhaustive exploration (model checking) of jsonargparse's semantic properties.

See /verif/DESIGN.md.  Entry point: /verif/check (-> mc.cli).
"""
